"""C01 -- derivatives equal stoichiometry x rates over fully resolved values.

spec      : spec/MxlModel.tla (meaning), spec/ModelEval.tla (shape family + predictions), spec/FnLib.tla
TLC       : exhaustive small family + seeded -simulate rich family; five theorems of the semantics on every model
spec->code: every emitted model is built with the real API (shuffled declaration order) and asked through
            all eight entry points at three states/times; each answer must equal the specification's value
"""

from __future__ import annotations

from ..core import Ctx
from . import modeleval

RULE = ("one case = one finished model of the ModelEval family x 3 states/times x 8 entry points; non-trivial = some "
        "component's arguments name another component; distinct by content")


def run(ctx: Ctx) -> int:
    return modeleval.run_family(ctx, "C01", modeleval.observe_c01, RULE)


def replay(ctx: Ctx, doc: dict) -> int:
    return modeleval.replay_one(doc, modeleval.observe_c01, "C01")
