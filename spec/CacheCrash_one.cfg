\* C19: key set of size one as a regular member: in-process histories, every contract invariant
CONSTANTS
    NKeys = 1
    W = 2
    L = 1
    Design = "temp"
    Policy = "trust"
    RenameAt = "closed"
    BypassOne = FALSE
    MkdirAtBuild = FALSE
    Recover = FALSE
    Forwards = TRUE
    MaxDrop = 1
    LossyNames = FALSE
    Memo = FALSE
    MaxClear = 1
    MaxExtra = 1
    MaxCrash = 0
    Fifo = TRUE
    EmitOn = FALSE
INIT Init
NEXT Next
INVARIANT TypeOK
INVARIANT NoRaise
INVARIANT RightResults
INVARIANT Injective
INVARIANT NoRecompute
INVARIANT AllStored
INVARIANT ComputesExactlyMissing
INVARIANT FinalWhole
INVARIANT OneOwner
INVARIANT Emit
INVARIANT EmitOps
CHECK_DEADLOCK TRUE
