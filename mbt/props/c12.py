"""C12 -- symbolic equations and Jacobian agree with the numeric model.

spec      : spec/ModelEval.tla + MxlModel.tla + DualLib.tla: the right-hand side and, by forward-mode
            differentiation over dual numbers, the exact Jacobian at three states (theorem JacIsDerivative:
            dual values = plain values, Jacobian = forward difference on affine models)
spec->code: (a) to_symbolic_model(m).eqs and .jacobian() evaluated at the specification's points;
            (b) the Jacobian closure the Simulator hands to its integrator, called at the initial state;
            (c) short simulations with use_jacobian on/off for BDF, Radau, LSODA agree with each other and with an
                RK45 reference.
"""

from __future__ import annotations

import json
import random
from functools import partial

from ..core import Ctx, Report, pmap
from ..modelkit import build_model, close, norm_content
from ..tlc import MachineryError, fn_to_dict
from . import codegen_common as cg

METHODS = ["BDF", "Radau", "LSODA"]


def _translates(m) -> bool:
    from .c07 import _translates as t

    return t(m)


def _matrix_bad(exp, obs, what, tol=1e-9):
    exp = [list(r) for r in exp]
    if len(obs) != len(exp) or any(len(a) != len(b) for a, b in zip(exp, obs)):
        return {"what": what + " shape", "expected": exp, "observed": obs}
    for i, (a, b) in enumerate(zip(exp, obs)):
        for j, (x, y) in enumerate(zip(a, b)):
            if not close(x, y, tol):
                return {"what": what, "row": i, "col": j, "expected": exp, "observed": obs}
    return None


def observe(scn: dict) -> dict:
    import numpy as np
    import sympy
    from mxlpy import Simulator
    from mxlpy.integrators import Scipy
    from mxlpy.symbolic import to_symbolic_model

    c = scn["c"]
    rnd = random.Random(f"{scn['seed']}/{scn['idx']}")
    m, order = build_model(c, rnd)
    sh = cg.shape(c, order)
    der_on_rxn = any(a in c["rxn"] for d in c["der"].values() for a in d["args"])
    sh["derived_reads_rate"] = der_on_rxn
    sh["rate_reads_rate"] = any(a in c["rxn"] for r in c["rxn"].values() for a in r["args"])
    rec = {"idx": scn["idx"], "shape": sh, "order": order, "translates": _translates(m)}
    # (a) symbolic model
    try:
        sm = to_symbolic_model(m)
        jac = sm.jacobian()
    except TimeoutError:
        raise      # the per-member alarm: the member is not judged (never a verdict about the library)
    except Exception as e:  # noqa: BLE001
        rec["convert_raised"] = f"{type(e).__name__}: {str(e)[:120]}"
        sm = None
    if sm is not None:
        pv = dict(m.get_parameter_values())
        for p in scn["pts"]:
            y = {v: float(fn_to_dict(p["y"])[v]) for v in c["vars"]}
            subs = {sm.variables[v]: y[v] for v in c["vars"]}
            subs.update({sym: sm.parameter_values[k] for k, sym in sm.parameters.items()})
            subs[sympy.Symbol("time")] = float(p["t"])
            try:
                eqs = [float(e.subs(subs)) for e in sm.eqs]
                jv = [[float(jac[i, j].subs(subs)) for j in range(len(c["vars"]))] for i in range(len(c["vars"]))]
            except TimeoutError:
                raise      # the per-member alarm: the member is not judged (never a verdict about the library)
            except Exception as e:  # noqa: BLE001
                rec["bad"] = {"what": "symbolic model cannot be evaluated", "exception": f"{type(e).__name__}: {str(e)[:120]}",
                              "point": p}
                return rec
            if len(eqs) != len(p["rhs"]) or any(not close(a, b) for a, b in zip(p["rhs"], eqs)):
                rec["bad"] = {"what": "symbolic equations", "expected": list(p["rhs"]), "observed": eqs, "point": p}
                return rec
            bad = _matrix_bad(p["jac"], jv, "symbolic Jacobian")
            if bad:
                rec["bad"] = {**bad, "point": p}
                return rec
        rec["symbolic_ok"] = True
    # (b) the closure handed to the integrator, at the initial state
    p0 = scn["pts"][0]
    y0 = [float(fn_to_dict(p0["y"])[v]) for v in c["vars"]]
    try:
        sim = Simulator(m, use_jacobian=True, integrator=partial(Scipy, method="BDF"))
        jf = sim.integrator.jacobian
    except TimeoutError:
        raise      # the per-member alarm: the member is not judged (never a verdict about the library)
    except Exception as e:  # noqa: BLE001
        rec["bad"] = {"what": "Simulator(use_jacobian=True) raised", "exception": f"{type(e).__name__}: {str(e)[:120]}"}
        return rec
    if jf is None:
        rec["fallback"] = True      # conversion failed -> warning + no Jacobian: acceptable
    else:
        try:
            jv = np.atleast_2d(np.array(jf(0.0, y0), dtype=float)).tolist()
        except TimeoutError:
            raise      # the per-member alarm: the member is not judged (never a verdict about the library)
        except Exception as e:  # noqa: BLE001
            rec["bad"] = {"what": "Jacobian closure raised", "exception": f"{type(e).__name__}: {str(e)[:120]}"}
            return rec
        bad = _matrix_bad(p0["jac"], jv, "Jacobian closure at the initial state")
        if bad:
            rec["bad"] = bad
            return rec
        rec["closure_ok"] = True
        # y0 supplied as a dict in another key order: the integrator still passes the state in declaration order
        if len(c["vars"]) > 1:
            try:
                y0rev = {v: float(fn_to_dict(p0["y"])[v]) for v in reversed(list(c["vars"]))}
                sim_r = Simulator(m, y0=y0rev, use_jacobian=True, integrator=partial(Scipy, method="BDF"))
                jv = np.atleast_2d(np.array(sim_r.integrator.jacobian(0.0, y0), dtype=float)).tolist()
            except TimeoutError:
                raise      # the per-member alarm: the member is not judged (never a verdict about the library)
            except Exception as e:  # noqa: BLE001
                rec["bad"] = {"what": "Jacobian closure raised with y0 in another key order", "exception": f"{type(e).__name__}: {str(e)[:120]}"}
                return rec
            bad = _matrix_bad(p0["jac"], jv, "Jacobian closure with y0 given in another key order")
            if bad:
                rec["bad"] = bad
                return rec
        # the same closure after a parameter update on the simulator (spec: the model with p := 5)
        has_ia = bool(sh["ia_parameter"]) or any(v["k"] == "ia" for v in c["init"].values())
        if not has_ia and "pts_alt" in scn:
            alt = fn_to_dict(scn["pts_alt"])["2"]
            ya = [float(fn_to_dict(alt["y"])[v]) for v in c["vars"]]
            try:
                sim.update_parameter("p", 5.0)
                jv = np.atleast_2d(np.array(sim.integrator.jacobian(float(alt["t"]), ya), dtype=float)).tolist()
            except TimeoutError:
                raise      # the per-member alarm: the member is not judged (never a verdict about the library)
            except Exception as e:  # noqa: BLE001
                rec["bad"] = {"what": "Jacobian closure raised after update_parameter", "exception": f"{type(e).__name__}: {str(e)[:120]}"}
                return rec
            bad = _matrix_bad(alt["jac"], jv, "Jacobian closure after update_parameter('p', 5)")
            if bad:
                rec["bad"] = bad
                return rec
            rec["closure_after_update_ok"] = True
    # (c) short trajectories with / without the Jacobian (only when a Jacobian is in use)
    if jf is not None and scn["idx"] % 4 == 0:
        tp = [0.002, 0.004, 0.006, 0.008, 0.01]
        try:
            ref = Simulator(m, integrator=partial(Scipy, method="RK45", atol=1e-10, rtol=1e-10)) \
                .simulate_time_course(tp).get_result().unwrap_or_err().variables[list(c["vars"])].to_numpy()
        except Exception:  # noqa: BLE001
            ref = None
        if ref is not None and np.all(np.isfinite(ref)) and np.max(np.abs(ref)) < 1e6:
            for method in METHODS:
                out = {}
                for uj in (False, True):
                    try:
                        r = Simulator(m, use_jacobian=uj, integrator=partial(Scipy, method=method)) \
                            .simulate_time_course(tp).get_result().unwrap_or_err().variables[list(c["vars"])].to_numpy()
                        out[uj] = r
                    except TimeoutError:
                        raise      # the per-member alarm: the member is not judged (never a verdict about the library)
                    except Exception as e:  # noqa: BLE001
                        out[uj] = f"{type(e).__name__}: {str(e)[:100]}"
                if isinstance(out[False], str):
                    continue   # the method fails on this model even without a Jacobian: nothing to compare
                if isinstance(out[True], str):
                    rec["bad"] = {"what": f"simulation with Jacobian failed ({method})", "exception": out[True]}
                    return rec
                scale = 1.0 + np.max(np.abs(ref))
                if np.max(np.abs(out[True] - out[False])) > 1e-5 * scale or np.max(np.abs(out[True] - ref)) > 1e-4 * scale:
                    rec["bad"] = {"what": f"trajectory with Jacobian differs ({method})",
                                  "with": out[True][-1].tolist(), "without": out[False][-1].tolist(),
                                  "reference": ref[-1].tolist()}
                    return rec
            rec["trajectories_ok"] = True
    return rec


def plain_shape(sh: dict) -> bool:
    """Shapes for which conversion has no excuse to fail (the statement names declaration order only)."""
    return not (sh["time_dependent"] or sh["derived_reads_rate"] or sh["rate_reads_rate"] or sh["untranslatable"])


def classify(rec: dict) -> str | None:
    return None


def _safe(scn):
    from ..core import alarm

    try:
        with alarm(120):
            return observe(scn)
    except TimeoutError:
        # a pathological member (an implicit solver crawling towards a finite-time blow-up, sympy simplifying a huge
        # piecewise): not judged, counted
        return {"idx": scn["idx"], "shape": {}, "timeout": True}
    except Exception as e:  # noqa: BLE001
        import traceback

        return {"idx": scn["idx"], "shape": {}, "harness_error": f"{type(e).__name__}: {e}", "trace": traceback.format_exc()[-600:]}


def run(ctx: Ctx) -> int:
    rep = Report(ctx)
    rep.rule = ("one case = one model of the surrogate-free ModelEval family x 3 states (symbolic equations, symbolic "
                "Jacobian, integrator closure; every 4th model also 3 methods x Jacobian on/off); non-trivial = the "
                "specification's Jacobian has a non-zero entry; distinct by content")
    rep.assumptions = ["conversion may raise (or the Simulator fall back without a Jacobian) for model features outside "
                       "plain translatable models: time dependence, derived quantities or rates that read another rate; it "
                       "must not for a mere re-ordering of derived quantities, assignment-defined parameters, computed "
                       "coefficients or variables without reactions",
                       "trajectory comparison over t <= 0.01 with tolerance 1e-5 (Jacobian on/off) / 1e-4 (RK45 reference)"]
    n = 16 if ctx.quick else 250
    parts = [
        dict(maxv=3, maxd=3, maxr=3, maxia=0, maxiv=1, maxc=4, fns=cg.TRANSLATABLE, fwd=True, num=n, jac=True),
        dict(maxv=2, maxd=2, maxr=2, maxia=1, maxiv=0, maxc=4, fns=cg.TRANSLATABLE + cg.OPTIONAL, fwd=True, num=n, jac=True),
    ]
    scns = cg.generate(ctx, rep, parts)
    recs = pmap(_safe, scns, chunk=4)
    n_sym = n_clo = n_traj = n_raise = n_upd = n_timeout = 0
    for scn, rec in zip(scns, recs):
        if rec.get("timeout"):
            n_timeout += 1
            continue
        if "harness_error" in rec:
            # an exception escaping the library while the model is built or queried is the library's answer
            rep.evaluations += 1
            rep.mismatch({"c": scn["c"], "idx": scn["idx"], "seed": scn["seed"], "pts": scn["pts"]},
                         {"what": "exception", "exception": rec["harness_error"], "trace": rec["trace"]}, None)
            continue
        rep.evaluations += 1
        rep.replayed += 1
        if any(x != 0 for p in scn["pts"] for row in p["jac"] for x in row):
            rep.distinct.add(json.dumps(scn["c"], sort_keys=True))
        base = {"c": scn["c"], "idx": scn["idx"], "seed": scn["seed"], "pts": scn["pts"], "pts_alt": scn.get("pts_alt")}
        n_sym += bool(rec.get("symbolic_ok"))
        n_clo += bool(rec.get("closure_ok"))
        n_traj += bool(rec.get("trajectories_ok"))
        n_upd += bool(rec.get("closure_after_update_ok"))
        if "bad" in rec:
            rep.mismatch(base, {**rec["bad"], "shape": rec["shape"]}, classify(rec))
        elif "convert_raised" in rec:
            n_raise += 1
            if plain_shape(rec["shape"]) and rec["translates"]:
                rep.mismatch(base, {"what": "conversion raised for a plain translatable model",
                                    "exception": rec["convert_raised"], "shape": rec["shape"], "order": rec["order"]},
                             "derived-declared-early" if rec["shape"]["derived_declared_early"] else None)
    rep.notes.update({"symbolic_models_conforming": n_sym, "integrator_closures_conforming": n_clo,
                      "models_with_conforming_trajectories": n_traj,
                      "integrator_closures_conforming_after_parameter_update": n_upd, "conversion_raised": n_raise,
                      "members_not_judged_after_120s": n_timeout})
    if (n_sym < 30 or n_clo < 30) and not rep.violations:
        raise MachineryError(f"vacuity: symbolic {n_sym}, closures {n_clo}")
    for s in scns[:2]:
        rep.sample({"content": s["c"], "jacobian_at_initial_state": s["pts"][0]["jac"]})
    # code -> spec: shipped models and fractional variants of the family (fractional static coefficients, halved
    # parameters) - their symbolic equations judged by the rational oracle
    from . import model_oracle

    model_oracle.run(ctx, rep, "C12", extra=model_oracle.fractional_variants(scns, 40 if ctx.quick else 300))
    return rep.finish()


def replay(ctx: Ctx, doc: dict) -> int:
    scn = doc["scenario"]
    scn["c"] = norm_content(scn["c"])
    rec = observe(scn)
    print(json.dumps(rec, indent=1, default=str))
    if "bad" in rec:
        print("VIOLATION property=C12 replay=(given)")
        return 1
    return 0
