\* C15 code -> spec (oracle mode): cases drawn by the harness (IOEnv.CASE_FILE) are decided by the same loop
CONSTANTS
    MaxSteps = 1000
    Loop = "copy"
    Family = "file"
    Tier = "quick"
    NanRule = "notconverged"
    FluxRule = "segment"
    ScanNorm = "asked"
    Reporter = "contract"
    EmitOn = TRUE
INIT Init
NEXT Next
INVARIANT SuccessIsSteady
INVARIANT AccumFails
INVARIANT RelaxConverges
INVARIANT GridIsOK
INVARIANT Plumbing
INVARIANT UndefinedIsNotConvergence
INVARIANT FluxesBalance
INVARIANT Emit
CHECK_DEADLOCK FALSE
