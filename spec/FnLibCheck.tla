---------------------------- MODULE FnLibCheck ----------------------------
(* spec validation: prints the FnLib table on a grid; the harness compares it with mbt/fnlib.py *)
EXTENDS Integers, Sequences, TLC, Json, FnLib
VARIABLE fn
Grid == {0 - 2, 0, 1, 2, 3, 7}
Rows(f) == {[fn |-> f, args |-> a, v |-> FApply(f, a)] : a \in [1..FnArity[f] -> Grid]}
Init == fn \in DOMAIN FnArity
Next == UNCHANGED fn
Show == PrintT("@J@" \o ToJson(Rows(fn)) \o "@E@")
=============================================================================
