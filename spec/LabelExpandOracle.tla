------------------------- MODULE LabelExpandOracle -------------------------
(***************************************************************************)
(* code -> spec for C05: a driver built base models (the documentation's   *)
(* TPI/aldolase example, random mass-action networks), ran the real        *)
(* LabelMapper and recorded what it produced: the reactions of the         *)
(* labelled model, its initial conditions and its right-hand side at       *)
(* integer isotopomer states.  TLC judges every record with the operators  *)
(* of LabelExpand (the same ones the case family LabelExpandMC uses).      *)
(* case: [id, b, req, obs |-> [outcome, rxns, init, pts |-> <<[y, dy]>>]]  *)
(***************************************************************************)
EXTENDS LabelExpand, Json, IOUtils

Cases == JsonDeserialize(IOEnv.CASE_FILE)

VARIABLE tid

NoReq == [k |-> "none", ps |-> <<>>]
ReqOf(c) == [x \in CpdSet(c.b) |-> IF x \in DOMAIN c.req THEN c.req[x] ELSE NoReq]
ObsRxns(c) == {[name |-> c.obs.rxns[j].name, st |-> c.obs.rxns[j].st, args |-> c.obs.rxns[j].args] : j \in DOMAIN c.obs.rxns}

Verdict(c) ==
    IF Outcome(c.b) = "rejected" THEN (IF c.obs.outcome = "rejected" THEN "accept" ELSE "not-rejected")
    ELSE IF ~AllProper(c.b) THEN "outside-domain"
    ELSE IF c.obs.outcome # "ok" THEN "refused"
    ELSE IF Cardinality(ObsRxns(c)) # Len(c.obs.rxns) THEN "duplicate-reaction"
    ELSE IF ObsRxns(c) # LabelledRxns(c.b, "occurrence") THEN "reactions"
    ELSE IF DOMAIN c.obs.init # IsoNames(c.b) THEN "variables"
    ELSE IF \E n \in IsoNames(c.b) : c.obs.init[n] # LInit(c.b, ReqOf(c))[n] THEN "initial"
    ELSE IF \E j \in DOMAIN c.obs.pts :
               LET d == LRhs(c.b, c.obs.pts[j].y, "occurrence")
               IN \E n \in IsoNames(c.b) : c.obs.pts[j].dy[n] # d[n] THEN "rhs"
    ELSE IF \E j \in DOMAIN c.obs.pts : ~SumRule(c.b, c.obs.pts[j].y, "occurrence") THEN "sum-rule"
    ELSE "accept"

Init == tid \in 1..Len(Cases)
Next == UNCHANGED tid

Judge == PrintT("@J@" \o ToJson([id |-> Cases[tid].id, verdict |-> Verdict(Cases[tid]),
                                   nrxn |-> IF Outcome(Cases[tid].b) = "ok" /\ AllProper(Cases[tid].b)
                                            THEN Cardinality(LabelledRxns(Cases[tid].b, "occurrence")) ELSE 0]) \o "@E@")
=============================================================================
