\* E02 teeth: a diff whose missing_X are symmetric differences (also naming what only m2 has) must violate OneSided
CONSTANTS
    Depth = 0
    Seeds = {"full", "sur"}
    OpSet = "all"
    EmitOn = FALSE
    Variant = "symmetric"
    L1 = 1
    L2 = 1
    Modes = {"chain", "fork"}
    Exact = FALSE
    Heavy = {}
INIT DInit
NEXT DNext
INVARIANT OneSided
CHECK_DEADLOCK FALSE
