\* C20: mean depends on the order of its arguments: counterexample expected
CONSTANTS
    LossNames = {"mean"}
    Orients = {"pd"}
    N = 2
    Grid = "pos"
    EmitOn = FALSE
INIT Init
NEXT Next
INVARIANT Symmetric
CHECK_DEADLOCK FALSE
