\* C19: 3 workers, 3 keys, one crash (thorough); one write step: empty or whole files only
CONSTANTS
    NKeys = 3
    W = 3
    L = 1
    Design = "temp"
    Policy = "trust"
    RenameAt = "closed"
    BypassOne = FALSE
    MkdirAtBuild = FALSE
    Recover = FALSE
    Forwards = TRUE
    MaxDrop = 0
    LossyNames = FALSE
    Memo = FALSE
    MaxClear = 0
    MaxExtra = 0
    MaxCrash = 1
    Fifo = TRUE
    EmitOn = TRUE
INIT Init
NEXT Next
INVARIANT TypeOK
INVARIANT NoRaise
INVARIANT RightResults
INVARIANT Injective
INVARIANT NoRecompute
INVARIANT AllStored
INVARIANT ComputesExactlyMissing
INVARIANT FinalWhole
INVARIANT OneOwner
INVARIANT Emit
CHECK_DEADLOCK TRUE
