"""C18 helpers: rendering Mca.tla networks (the specification's own expression trees) into real mxlpy models,
projecting the tables returned by mxlpy.mca onto the specification's coefficient tables.

Trusted leaves: Fraction -> float, the float interpreter of the expression trees (cross-checked on every point
against the fluxes the specification computes exactly).
"""

from __future__ import annotations

from fractions import Fraction

from .tlc import fn_to_dict


def fr(r) -> Fraction | None:
    if int(r["d"]) == 0:
        return None          # the specification's "undefined"
    return Fraction(int(r["n"]), int(r["d"]))


def fl(r) -> float | None:
    if "float" in r:            # an entry already turned into a float by the harness (scaled twin)
        return r["float"]
    x = fr(r)
    return None if x is None else float(x)


def ast_eval(e: dict, env: dict) -> float:
    k = e["k"]
    if k == "num":
        return float(fr(e["v"]))
    if k == "sym":
        return env[e["name"]]
    if k == "pow":
        return ast_eval(e["a"], env) ** int(e["e"])
    a, b = ast_eval(e["a"], env), ast_eval(e["b"], env)
    if k == "add":
        return a + b
    if k == "sub":
        return a - b
    if k == "mul":
        return a * b
    if k == "div":
        return a / b
    raise ValueError(f"unknown node {k}")


def ast_fold(e: dict, rules: dict) -> dict:
    """Replace every subtree equal to a rule's expression by the symbol the rule defines (the model reads the rule-defined
    parameter; the specification writes the rate with the rule substituted)."""
    for name, tree in rules.items():
        if e == tree:
            return {"k": "sym", "name": name}
    if e["k"] in ("num", "sym"):
        return e
    out = dict(e)
    out["a"] = ast_fold(e["a"], rules)
    if "b" in e:
        out["b"] = ast_fold(e["b"], rules)
    return out


def ast_syms(e: dict, acc: list) -> list:
    if e["k"] == "sym":
        if e["name"] not in acc:
            acc.append(e["name"])
    elif e["k"] != "num":
        ast_syms(e["a"], acc)
        if "b" in e:
            ast_syms(e["b"], acc)
    return acc


class RateFn:
    """A rate law given by a specification expression tree; a picklable callable (parallel mode pickles the model)."""

    def __init__(self, name: str, tree: dict, args: list[str]):
        self.__name__ = name
        self.tree = tree
        self.args = args

    def __call__(self, *vals):
        return ast_eval(self.tree, dict(zip(self.args, vals)))


def norm_point(p: dict) -> dict:
    """Payload of Mca.tla -> dict with python containers (tables stay rational records)."""
    q = dict(p)
    d = dict(p["desc"])
    d["rxns"] = [{"name": r["name"], "rate": r["rate"], "st": {k: int(v) for k, v in fn_to_dict(r["st"]).items()}}
                 for r in d["rxns"]]
    d["ss"] = fn_to_dict(d["ss"])
    d["init"] = fn_to_dict(d.get("init", {}))
    q["desc"] = d
    q["pinit"] = fn_to_dict(p.get("pinit", {}))
    q["consts"] = sorted(p.get("consts", []))
    q["pools"] = sorted(p.get("pools", []))
    for key in ("kdeg", "xdeg"):
        q[key] = {k: int(v) for k, v in fn_to_dict(p.get(key, {})).items()}
    for key in ("env", "flux", "ss", "ssflux"):
        q[key] = fn_to_dict(p[key])
    d["vals"] = {}
    rc_keys = ("rcu", "rcs", "rfu", "rfs", "qcu", "qcs", "qfu", "qfs")
    for key in ("evu", "evs", "epu", "eps") + rc_keys + tuple(k + "_m" for k in rc_keys):
        q[key] = {a: fn_to_dict(row) for a, row in fn_to_dict(p[key]).items()}
    return q


SK = 2.0 ** -30       # factor on every rate constant of a scaled twin (exact in binary floating point)
SX = 2.0 ** -7        # factor on every pool (variables, pool-size parameter)


def scale_of(pt: dict, sym: str, scaled: bool) -> float:
    if not scaled:
        return 1.0
    return SK if sym in pt["consts"] else SX if sym in pt["pools"] else 1.0


def rate_factor(pt: dict, rxn: str, scaled: bool) -> float:
    """Mca.tla, Homogeneous: what scaling every constant by SK and every pool by SX does to the flux of rxn."""
    return (SK ** pt["kdeg"][rxn]) * (SX ** pt["xdeg"][rxn]) if scaled else 1.0


def build(pt: dict, inits: dict | None = None, scaled: bool = False):
    """The real model of a point: parameters at the point's values, initial values = the point's state (or ``inits``).

    scaled: the point's scaled twin (every rate constant * SK, every pool * SX)."""
    from mxlpy import Model

    d = pt["desc"]
    env = {k: fl(v) * scale_of(pt, k, scaled) for k, v in pt["env"].items()}
    m = Model()
    for q in d["pars"]:
        m.add_parameter(q, env[q])
    for v in d["vars"]:
        if v in d.get("init", {}):
            # the initial value is an assignment rule of parameters (and earlier variables): the model's initial state
            # is what the specification evaluated for this point
            from mxlpy import InitialAssignment

            tree = d["init"][v]
            args = ast_syms(tree, [])
            m.add_variable(v, InitialAssignment(fn=RateFn(f"init_{v}", tree, args), args=args))
        else:
            m.add_variable(v, float((inits or env)[v]))
    rules = pt.get("pinit") or {}
    if rules:
        from mxlpy import InitialAssignment

        for name, tree in rules.items():      # a parameter declared by a rule of other parameters
            args = ast_syms(tree, [])
            m.add_parameter(name, InitialAssignment(fn=RateFn(f"rule_{name}", tree, args), args=args))
    for r in d["rxns"]:
        rate = ast_fold(r["rate"], rules) if rules else r["rate"]
        args = ast_syms(rate, [])
        m.add_reaction(r["name"], RateFn(r["name"], rate, args), args=args,
                       stoichiometry={k: float(v) for k, v in r["st"].items()})
    return m, env


def _stored(x) -> str:
    """What a raw parameter / variable stores: a number (exact) or an assignment RULE (function name and arguments)."""
    from mxlpy import InitialAssignment

    if isinstance(x, InitialAssignment):
        return f"rule:{getattr(x.fn, '__name__', '?')}({','.join(x.args)})"
    return float(x).hex()


def content_of(model) -> dict:
    """Parameter values and initial values as the property means them: what the model answers now, what it STORES
    (a rule must still be a rule), and what it answers after an edit of every parameter (a copy is edited, the model
    itself is only read): an initial value that follows a parameter must still follow it."""
    import copy

    out = {"parameters": {k: float(v) for k, v in model.get_parameter_values().items()},
           "initial": {k: float(v) for k, v in model.get_initial_conditions().items()},
           "stored_parameters": {k: _stored(p.value) for k, p in model.get_raw_parameters().items()},
           "stored_initial": {k: _stored(v.initial_value) for k, v in model.get_raw_variables().items()}}
    rules = [s for s in list(out["stored_initial"].values()) + list(out["stored_parameters"].values()) if s.startswith("rule:")]
    if rules:
        probe = copy.deepcopy(model)
        probe.update_parameters({k: 2.0 * float.fromhex(s) for k, s in out["stored_parameters"].items()
                                 if not s.startswith("rule:")})
        out["initial_after_doubling_every_parameter"] = {k: float(v) for k, v in probe.get_initial_conditions().items()}
        out["fluxes_after_doubling_every_parameter"] = {k: float(v) for k, v in probe.get_fluxes().items()}
    return out


def close(obs: float, exp: float, rel: float, abs_: float) -> bool:
    if obs != obs:
        return False
    return abs(obs - exp) <= rel * max(abs(obs), abs(exp)) + abs_


def cmp_frame(df, table: dict, cols: list[str], rows: list[str], rel: float, abs_of) -> dict | None:
    """table[col][row] (rationals) against df.loc[row, col]; abs_of(col, row) -> absolute tolerance.

    Undefined specification entries (vanishing flux / concentration in a scaled coefficient) are skipped."""
    if sorted(df.columns) != sorted(cols):
        return {"what": "columns", "expected": sorted(cols), "observed": [str(c) for c in df.columns]}
    if sorted(df.index) != sorted(rows):
        return {"what": "index", "expected": sorted(rows), "observed": [str(c) for c in df.index]}
    worst = 0.0
    for c in cols:
        for r in rows:
            e = fl(table[c][r])
            if e is None:
                continue
            o = float(df.loc[r, c])
            a = abs_of(c, r)
            if not close(o, e, rel, a):
                return {"what": "value", "column": c, "row": r, "expected": e, "observed": o, "abs_tol": a, "rel_tol": rel}
            den = rel * max(abs(o), abs(e)) + a
            if den > 0:
                worst = max(worst, abs(o - e) / den)          # fraction of the tolerance used
    return {"ok": True, "worst": worst}
