\* the wrong session instance (reactions of the base model remembered from the first build): TLC must find ThSess violated
CONSTANTS
    Tpls = {"bi"}
    Ords = {"std"}
    MaxNL = 3
    MaxL = 3
    Focus = TRUE
    OnlyInvolutive = FALSE
    DistAll = FALSE
    Dists = {1, 2, 3, 4}
    SessMemo = TRUE
    LinMode = "doc"
    EmitOn = FALSE
INIT Init
NEXT Next
INVARIANT ThSteady
INVARIANT ThDist
INVARIANT ThSess
CHECK_DEADLOCK FALSE
