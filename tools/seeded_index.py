#!/venv/bin/python
"""Regenerates /verif/seeded/INDEX.md from the meta.json files of the kept seeded changes."""
import json
from pathlib import Path

root = Path("/verif/seeded")
rows = []
for d in sorted(p for p in root.iterdir() if p.is_dir()):
    m = json.loads((d / "meta.json").read_text())
    summ = " ".join(m.get("check_summary", []))[:160].replace("|", "/")
    rows.append((d.name, m["property"], m.get("needs", m.get("idea", "")), m.get("demo_with_change_exit"),
                 m.get("tests_with_change", "n/a"), m.get("check_cmd", ""), "caught" if m.get("detected") else "MISSED",
                 m.get("caught_by_after_strengthening", ""), summ))
out = ["# Seeded changes (each confirmed in a scratch worktree; never committed to /repo)", "",
       "| id | property | what it needs to manifest | demo exit with change | repo tests with change | check run | verdict | note | check summary |",
       "|---|---|---|---|---|---|---|---|---|"]
for r in rows:
    out.append("| " + " | ".join(str(x) for x in r) + " |")
caught = sum(1 for r in rows if r[6] == "caught")
out += ["", f"{caught} of {len(rows)} seeded changes are caught by the registered quick checks."]
(root / "INDEX.md").write_text("\n".join(out) + "\n")
print("\n".join(out[-3:]))
