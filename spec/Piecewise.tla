------------------------------ MODULE Piecewise ------------------------------
(***************************************************************************)
(* Shared core (C06; reusable by C08/C12): the first-true-wins piecewise   *)
(* form that sympy / MathML offer as translation target, and a REFERENCE   *)
(* TRANSLATION of PyFn bodies into it by path-condition enumeration.       *)
(*                                                                         *)
(* INTERFACE                                                               *)
(*   a piecewise is a sequence of pieces [c |-> condition, e |-> value]    *)
(*   (both expressions of module Expr).                                    *)
(*     EvalPW(pw, env, ft)   value of the first piece whose condition is   *)
(*                           true; a bad condition value is the result;    *)
(*                           no true piece -> Undef                        *)
(*     ToPW(params, body, mode)  one piece per returning path: condition = *)
(*                           conjunction (short-circuit, program order) of *)
(*                           the tests taken / negated along the path,     *)
(*                           value = returned expression, both with every  *)
(*                           local replaced by its symbolic value ON THAT  *)
(*                           PATH (each branch works on its own copy of    *)
(*                           the symbol table); a path that falls off the  *)
(*                           end contributes no piece.                     *)
(*     PWExpr(pw)            the same as one nested Ite expression (the    *)
(*                           last alternative is Lit(Undef))               *)
(*     Inline(e, ft, mode)   e with every Call replaced by PWExpr of the   *)
(*                           callee's translation under SIMULTANEOUS       *)
(*                           substitution of the argument expressions      *)
(*     Translate(ft, f, mode) == inlined piecewise of function f           *)
(*   mode = [sim |-> BOOLEAN, eq |-> BOOLEAN]; RefMode is the reference.   *)
(*   sim = FALSE substitutes call arguments one after the other, eq =      *)
(*   FALSE decides == / != structurally (never equal) - the two            *)
(*   implementation-shaped WRONG instances used to show that the theorem   *)
(*   below has teeth.                                                      *)
(* THEOREM (checked by TLC in Translate.tla over the enumerated family):   *)
(*   PWAgrees(params, body, ft, env, mode): if Run returns v then the      *)
(*   translation evaluates to v; if Run falls off the end the translation  *)
(*   is Undef.  (Where Python raises, the translation may be defined:      *)
(*   `y = 1/x; return 0` - the property only speaks about points where     *)
(*   the function is defined.)  Aug is translated as an assignment, a For  *)
(*   over a literal range is unrolled, a body with a While (HasLoop) has   *)
(*   no translation: the reference translator refuses it.                  *)
(***************************************************************************)
EXTENDS PyFn

Piece(c, e) == [c |-> c, e |-> e]
RefMode == [sim |-> TRUE, eq |-> TRUE]

RECURSIVE EvalPWFrom(_, _, _, _)
EvalPWFrom(pw, i, env, ft) ==
    IF i > Len(pw) THEN Undef
    ELSE LET c == Eval(pw[i].c, env, ft)
         IN IF BadV(c) THEN c ELSE IF ~IsBoolV(c) THEN Skip
            ELSE IF c.b THEN Eval(pw[i].e, env, ft) ELSE EvalPWFrom(pw, i + 1, env, ft)
EvalPW(pw, env, ft) == EvalPWFrom(pw, 1, env, ft)

AndAll(cs) == IF cs = <<>> THEN BoolLit(TRUE) ELSE IF Len(cs) = 1 THEN cs[1] ELSE And(cs)

\* the structural reading of == / != (wrong instance): an == link is never true, a != link always
StructCmp(e) ==
    IF \E j \in DOMAIN e.ops : e.ops[j] = "eq" /\ ~(e.args[j].k = "num" /\ e.args[j + 1].k = "num")
    THEN BoolLit(FALSE)
    ELSE LET keep == {j \in DOMAIN e.ops : e.ops[j] # "ne" \/ (e.args[j].k = "num" /\ e.args[j + 1].k = "num")}
         IN IF keep = DOMAIN e.ops THEN e
            ELSE AndAll([j \in 1..Cardinality(keep) |->
                           LET m == CHOOSE m \in keep : Cardinality({q \in keep : q < m}) = j - 1
                           IN Cmp2(e.ops[m], e.args[m], e.args[m + 1])])

RECURSIVE Weaken(_)
Weaken(e) ==
    IF e.k = "cmp" THEN StructCmp([e EXCEPT !.args = [j \in DOMAIN e.args |-> Weaken(e.args[j])]])
    ELSE IF e.k \in UnOps THEN [e EXCEPT !.a = Weaken(e.a)]
    ELSE IF e.k \in BinOps THEN [e EXCEPT !.a = Weaken(e.a), !.b = Weaken(e.b)]
    ELSE IF e.k = "ite" THEN [e EXCEPT !.c = Weaken(e.c), !.a = Weaken(e.a), !.b = Weaken(e.b)]
    ELSE IF e.k \in NaryOps THEN [e EXCEPT !.args = [j \in DOMAIN e.args |-> Weaken(e.args[j])]]
    ELSE e

\* one argument after the other (wrong when an argument mentions a later parameter)
RECURSIVE SubstSeq(_, _, _, _)
SubstSeq(e, params, args, i) ==
    IF i > Len(params) THEN e
    ELSE SubstSeq(Subst(e, [x \in {params[i]} |-> args[i]]), params, args, i + 1)

RECURSIVE Paths(_, _, _), PWExprFrom(_, _), Unroll(_, _)

Unroll(s, j) == IF j >= s.e.v.n THEN <<>> ELSE <<Assign(s.name, Num(j))>> \o s.body \o Unroll(s, j + 1)

\* stmts: the statements still to execute on this path (the continuation is copied into both branches)
Paths(stmts, sigma, conds) ==
    IF stmts = <<>> THEN <<>>
    ELSE LET s == stmts[1]
             rest == Tail(stmts)
             e == Subst(s.e, sigma)
         IN CASE s.k = "assign" ->
                    Paths(rest, [x \in DOMAIN sigma \cup {s.name} |-> IF x = s.name THEN e ELSE sigma[x]], conds)
              [] s.k = "chain" ->
                    Paths(rest, [x \in DOMAIN sigma \cup SeqRange(s.names) |->
                                    IF x \in SeqRange(s.names) THEN e ELSE sigma[x]], conds)
              [] s.k = "aug" ->
                    Paths(<<Assign(s.name, Bin(s.op, Var(s.name), s.e))>> \o rest, sigma, conds)
              [] s.k = "for" ->      \* a literal range is unrolled
                    Paths(Unroll(s, 0) \o rest, sigma, conds)
              [] s.k = "while" -> <<>>     \* no translation: callers exclude bodies with HasLoop
              [] s.k = "ret" -> <<Piece(AndAll(conds), e)>>
              [] s.k = "if" ->
                    Paths(s.body \o rest, sigma, Append(conds, e))
                    \o Paths(s.orelse \o rest, sigma, Append(conds, Not(e)))

ToPW(params, body, mode) ==
    LET pw == Paths(body, [x \in SeqRange(params) |-> Var(x)], <<>>)
    IN IF mode.eq THEN pw ELSE [j \in DOMAIN pw |-> Piece(Weaken(pw[j].c), Weaken(pw[j].e))]

PWExprFrom(pw, i) ==
    IF i > Len(pw) THEN Lit(Undef)
    ELSE IF pw[i].c = BoolLit(TRUE) THEN pw[i].e
    ELSE Ite(pw[i].c, pw[i].e, PWExprFrom(pw, i + 1))
PWExpr(pw) == PWExprFrom(pw, 1)

\* named constants replaced by the values they have in the view ft (an inlined callee sees ITS bindings)
RECURSIVE ResolveConsts(_, _)
ResolveConsts(e, ft) ==
    IF e.k = "const" THEN (IF e.name \in DOMAIN ft /\ ft[e.name].k = "const" THEN Lit(ft[e.name].v) ELSE e)
    ELSE IF e.k \in UnOps THEN [e EXCEPT !.a = ResolveConsts(e.a, ft)]
    ELSE IF e.k \in BinOps THEN [e EXCEPT !.a = ResolveConsts(e.a, ft), !.b = ResolveConsts(e.b, ft)]
    ELSE IF e.k = "ite" THEN [e EXCEPT !.c = ResolveConsts(e.c, ft), !.a = ResolveConsts(e.a, ft), !.b = ResolveConsts(e.b, ft)]
    ELSE IF e.k \in NaryOps THEN [e EXCEPT !.args = [j \in DOMAIN e.args |-> ResolveConsts(e.args[j], ft)]]
    ELSE e

RECURSIVE Inline(_, _, _)
Inline(e, ft, mode) ==
    IF e.k = "call" /\ e.name \in DOMAIN ft /\ ft[e.name].k = "fn" /\ BindOk(ft[e.name], e)
    THEN LET f == ft[e.name]
             given == [j \in DOMAIN e.args |-> Inline(e.args[j], ft, mode)]
             \* one argument expression per parameter: bound positionally, by NAME, or the default value
             args == [m \in DOMAIN f.params |->
                         LET j == ArgFor(f, e, m)
                         IN IF j = 0 THEN Lit(DefsOf(f)[m - FirstDef(f) + 1]) ELSE given[j]]
             pw == ToPW(f.params, f.body, mode)
             cv == CalleeView(f, ft)           \* the callee resolves ITS names: module globals + its own scope chain
             inner == Inline(ResolveConsts(PWExpr(pw), cv), cv, mode)
         IN IF mode.sim
            THEN Subst(inner, [x \in SeqRange(f.params) |-> args[CHOOSE j \in DOMAIN f.params : f.params[j] = x]])
            ELSE SubstSeq(inner, f.params, args, 1)
    ELSE IF e.k \in UnOps THEN [e EXCEPT !.a = Inline(e.a, ft, mode)]
    ELSE IF e.k \in BinOps THEN [e EXCEPT !.a = Inline(e.a, ft, mode), !.b = Inline(e.b, ft, mode)]
    ELSE IF e.k = "ite" THEN [e EXCEPT !.c = Inline(e.c, ft, mode), !.a = Inline(e.a, ft, mode), !.b = Inline(e.b, ft, mode)]
    ELSE IF e.k \in NaryOps THEN [e EXCEPT !.args = [j \in DOMAIN e.args |-> Inline(e.args[j], ft, mode)]]
    ELSE e

TranslateBody(params, body, ft, mode) ==
    LET pw == ToPW(params, body, mode)
    IN [j \in DOMAIN pw |-> Piece(Inline(pw[j].c, ft, mode), Inline(pw[j].e, ft, mode))]
Translate(ft, f, mode) == TranslateBody(ft[f].params, ft[f].body, ft, mode)

\* ---- the theorem --------------------------------------------------------------------------
\* tr = TranslateBody(params, body, ft, mode), computed once by the caller for all points
PWAgreesT(tr, body, ft, env) ==
    LET r == Run(body, env, ft)
        t == EvalPW(tr, env, ft)
    IN /\ r.st = "ret"  => (t = r.v \/ t = Skip)
       /\ r.st = "none" => (t = Undef \/ t = Skip)
PWAgrees(params, body, ft, env, mode) == PWAgreesT(TranslateBody(params, body, ft, mode), body, ft, env)
=============================================================================
