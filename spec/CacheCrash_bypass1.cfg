\* C19: implementation-shaped wrong instance "a key set of size one bypasses the cache" (NKeys = 1): must VIOLATE NoRecompute
CONSTANTS
    NKeys = 1
    W = 1
    L = 1
    Design = "temp"
    Policy = "trust"
    RenameAt = "closed"
    BypassOne = TRUE
    MkdirAtBuild = FALSE
    Recover = FALSE
    Forwards = TRUE
    MaxDrop = 0
    LossyNames = FALSE
    Memo = FALSE
    MaxClear = 1
    MaxExtra = 1
    MaxCrash = 0
    Fifo = TRUE
    EmitOn = FALSE
INIT Init
NEXT Next
INVARIANT TypeOK
INVARIANT NoRecompute
CHECK_DEADLOCK TRUE
