#!/venv/bin/python
"""For kept seeded changes whose meta.json lacks the repository-test confirmation: apply, run the suite, restore."""
import json, os, subprocess
from pathlib import Path

for d in sorted(Path("/verif/seeded").iterdir()):
    mf = d / "meta.json"
    if not mf.exists():
        continue
    m = json.loads(mf.read_text())
    if m.get("tests_with_change"):
        continue
    wt = Path("/tmp") / d.name.split("-")[1]
    if not wt.exists():
        print("no worktree for", d.name)
        continue
    env = dict(os.environ, PYTHONPATH=str(wt / "src"))
    subprocess.run(f"git -C {wt} checkout -q -- src", shell=True)
    if subprocess.run(f"git -C {wt} apply {d / 'patch.diff'}", shell=True).returncode != 0:
        print("patch does not apply", d.name)
        continue
    try:
        t = subprocess.run("/venv/bin/python -m pytest -q -p no:cacheprovider -n 6 tests --deselect tests/sbml/test_import.py 2>&1 | tail -1",
                           shell=True, capture_output=True, text=True, env=env, cwd=wt)
        m["tests_with_change"] = t.stdout.strip()
    finally:
        subprocess.run(f"git -C {wt} checkout -q -- src", shell=True)
    mf.write_text(json.dumps(m, indent=1))
    print(d.name, m["tests_with_change"])
