------------------------- MODULE ModelDiffOracle -------------------------
(***************************************************************************)
(* code -> spec for E02: a seeded random driver built pairs of real models *)
(* (one seed content, two edit histories over a larger universe of names   *)
(* and values than the generator's menu), asked the library -- model_diff  *)
(* both ways, soft_eq both ways, _new_removed_changed on the raw derived /  *)
(* reaction containers -- and recorded the answers.  TLC recomputes the two *)
(* contents with ModelEdit's Eff and judges every recorded answer with the *)
(* SAME Diff / SoftEq / NRCStruct as the model-checked specification; one   *)
(* verdict per record (the first field that disagrees, or "accept").       *)
(***************************************************************************)
EXTENDS ModelDiff, IOUtils

Cases == JsonDeserialize(IOEnv.CASE_FILE)

VARIABLE tid
ovars == <<c, hist, seed, fin, c1, h1, h2, mode, ph, n1, n2, tid>>

ToSet(s) == {s[j] : j \in DOMAIN s}

\* a history the specification declines to judge (scaling an assignment-defined parameter of a content that cannot
\* be evaluated for reasons outside the dependency graph)
RECURSIVE Judged(_, _, _)
Judged(ops, j, cc) ==
    IF j > Len(ops) THEN TRUE
    ELSE IF ops[j].op # "plural" /\ Unjudgeable(ops[j], cc) THEN FALSE
    ELSE Judged(ops, j + 1, Eff(ops[j], cc).c)

SameFn(rec, f) == DOMAIN rec = DOMAIN f /\ \A n \in DOMAIN f : rec[n] = f[n]

DiffFields == <<"missing_parameters", "missing_variables", "missing_derived", "missing_reactions", "missing_readouts",
                "missing_surrogates", "different_parameters", "different_variables", "different_derived",
                "different_readouts", "different_reactions", "different_surrogates">>

FieldOK(name, rec, d) ==
    IF name \in {"missing_parameters", "missing_variables", "missing_derived", "missing_reactions",
                 "missing_readouts", "missing_surrogates"}
    THEN ToSet(rec[name]) = d[name]
    ELSE SameFn(rec[name], d[name])

FirstBad(rec, d, tag) ==
    LET bad == {j \in DOMAIN DiffFields : ~FieldOK(DiffFields[j], rec, d)}
    IN IF bad = {} THEN "" ELSE tag \o "." \o DiffFields[CHOOSE j \in bad : \A k \in bad : j <= k]

NRCPartOK(rec, x) == ToSet(rec.new) = x.new /\ ToSet(rec.removed) = x.removed /\ ToSet(rec.changed) = x.changed

Verdict(t) ==
    LET a == Run(t.h1, t.start)
        b == Run(t.h2, IF t.mode = "chain" THEN a ELSE t.start)
    IN IF ~Judged(t.h1, 1, t.start) \/ ~Judged(t.h2, 1, IF t.mode = "chain" THEN a ELSE t.start) THEN "unjudged"
       ELSE IF Ids(a) # t.ids1 \/ Ids(b) # t.ids2 THEN "content"
       ELSE LET x == FirstBad(t.d12, Diff(a, b), "d12")
                y == FirstBad(t.d21, Diff(b, a), "d21")
                r == NRCStruct(a, b)
            IN IF x # "" THEN x
               ELSE IF y # "" THEN y
               ELSE IF t.s12 # SoftEq(a, b) THEN (IF t.s12 = SoftEqLib(a, b) THEN "s12:lib" ELSE "s12")
               ELSE IF t.s21 # SoftEq(b, a) THEN (IF t.s21 = SoftEqLib(b, a) THEN "s21:lib" ELSE "s21")
               ELSE IF ~NRCPartOK(t.nrcs.derived, r.derived) THEN "nrcs.derived"
               ELSE IF ~NRCPartOK(t.nrcs.reactions, r.reactions) THEN "nrcs.reactions"
               ELSE "accept"

OInit ==
    /\ tid \in 1..Len(Cases)
    /\ c = EmptyContent /\ c1 = EmptyContent /\ hist = <<>> /\ seed = "oracle" /\ fin = FALSE
    /\ h1 = <<>> /\ h2 = <<>> /\ mode = "chain" /\ ph = "oracle" /\ n1 = 0 /\ n2 = 0
ONext == UNCHANGED ovars

OJudge == PrintT("@J@" \o ToJson([id |-> Cases[tid].id, verdict |-> Verdict(Cases[tid])]) \o "@E@")
=============================================================================
