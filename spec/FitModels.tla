----------------------------- MODULE FitModels -----------------------------
(***************************************************************************)
(* C20, "each residual equals the chosen loss between the data and the     *)
(* model's prediction at the candidate values": identifiable linear models *)
(* with CLOSED-FORM, EXACTLY RATIONAL predictions, the data generated from *)
(* them, and Residual (Losses.tla) for every shipped loss, scaled and      *)
(* unscaled, in both argument orientations.  TLC emits one scenario per    *)
(* (shape, true values, candidate values, data options) with the expected  *)
(* residuals; the harness drives fit.steady_state / time_course /          *)
(* protocol_time_course with a one-evaluation minimiser (the public        *)
(* MinimizerProtocol) and compares.                                        *)
(*                                                                         *)
(* shape "ss":  chain 0 -k_in-> x1 -k1-> x2 -k2-> ... -> 0, mass action;   *)
(*              steady state x_i = k_in / k_i (rational parameters).       *)
(* shape "tc":  independent pools x_i' = a_i - k_i x_i with a_i = A_i ln2, *)
(*              k_i = j_i ln2 (j_i natural): x_i(t) = A_i/j_i +            *)
(*              (x0_i - A_i/j_i) 2^(-j_i t), rational at integer times.    *)
(* shape "ptc": one pool whose inflow A follows a protocol of integer      *)
(*              durations; the same closed form piecewise.                 *)
(* The unit ln 2 is applied by the harness; every number TLC handles is    *)
(* rational, so the expected residual is exact (up to sqrt / log leaves).  *)
(***************************************************************************)
EXTENDS LossesCore

CONSTANTS Shapes,      \* subset of {"ss", "tc", "ptc"}
          MaxChain,    \* largest number of chain members (ss), >= 2
          MaxPools,    \* largest number of pools (tc), 1 or 2
          Rich,        \* TRUE: every source of the initial value also for two pools, more time grids
          EmitOn
VARIABLES sc, ph
fvars == <<sc, ph>>

Two(e) == R(1, 2 ^ e)                                   \* 2^(-e)
Pool(A, j, x0, t) == LET xs == RDiv(A, RInt(j)) IN RAdd(xs, RMul(RSub(x0, xs), Two(j * t)))

RECURSIVE PoolProt(_, _, _, _)
PoolProt(steps, j, x0, t) ==
    IF steps = <<>> \/ t <= 0 THEN x0
    ELSE LET s == Head(steps)
         IN  IF t <= s.dur THEN Pool(s.A, j, x0, t)
             ELSE PoolProt(Tail(steps), j, Pool(s.A, j, x0, s.dur), t - s.dur)

KS   == {1, 2, 4}                                           \* rate constants of the chain (fast relaxing: >= 1)
KIn  == RInt(2)
JT   == {1, 2}                                              \* true decay multiples of ln 2
JC   == {1, 2, 3}                                           \* candidate multiples
X0S  == {RInt(0), RInt(4)}
AS   == <<RInt(2), RInt(3)>>                                \* inflow multiples of ln 2, per pool
TimeSets == IF Rich THEN {<<1, 2, 3>>, <<0, 1, 2>>, <<1, 3>>} ELSE {<<1, 2, 3>>, <<0, 1, 2>>}
Prots == {<<[dur |-> 1, A |-> RInt(2)], [dur |-> 2, A |-> RInt(0)]>>,
          <<[dur |-> 2, A |-> RInt(0)], [dur |-> 1, A |-> RInt(4)]>>}
PTimes == IF Rich THEN {<<1, 2, 3>>, <<1, 3>>, <<2, 3>>, <<1, 2>>} ELSE {<<1, 2, 3>>, <<2, 3>>, <<1, 2>>}
MaxExp == 6                                                 \* largest j * t (keeps every intermediate below 2^31)
SeqMax(s) == IF s = <<>> THEN 0 ELSE CHOOSE x \in {s[i] : i \in 1..Len(s)} : \A i \in 1..Len(s) : s[i] <= x
Small(s, ts) == SeqMax(s.jc) * SeqMax(ts) <= MaxExp /\ SeqMax(s.jt) * SeqMax(ts) <= MaxExp
Offs(n) == {[i \in 1..n |-> RZero], [i \in 1..n |-> IF i = 1 THEN R(1, 2) ELSE RZero]}
Srcs == {"model", "y0", "p0"}

Blank == [shape |-> "", n |-> 0, jt |-> <<>>, jc |-> <<>>, x0 |-> <<>>, x0c |-> <<>>, src |-> "model",
          times |-> <<>>, prot |-> <<>>, off |-> <<>>]

Init == /\ ph = "shape"
        /\ \E s \in Shapes, n \in 1..MaxChain :
              /\ (s = "ss" => n >= 2) /\ (s = "ptc" => n = 1) /\ (s = "tc" => n <= MaxPools)
              /\ sc = [Blank EXCEPT !.shape = s, !.n = n]

Rates(s) == IF s = "ss" THEN KS ELSE JT
Cands(s) == IF s = "ss" THEN KS ELSE JC

\* one component per step, so that no step has more than a few dozen successors
AddTrue == /\ ph = "shape" /\ Len(sc.jt) < sc.n
           /\ \E j \in Rates(sc.shape), x \in (IF sc.shape = "ss" THEN {RZero} ELSE X0S) :
                 sc' = [sc EXCEPT !.jt = Append(@, j), !.x0 = Append(@, x)]
           /\ UNCHANGED ph
ToCand  == /\ ph = "shape" /\ Len(sc.jt) = sc.n
           /\ \E s \in (IF sc.shape = "ss" \/ (sc.n = 2 /\ ~Rich) THEN {"model"} ELSE Srcs) : sc' = [sc EXCEPT !.src = s]
           /\ ph' = "cand"
AddCand == /\ ph = "cand" /\ Len(sc.jc) < sc.n
           /\ \E j \in Cands(sc.shape), x \in (IF sc.src = "p0" THEN X0S ELSE {sc.x0[Len(sc.jc) + 1]}) :
                 sc' = [sc EXCEPT !.jc = Append(@, j), !.x0c = Append(@, x)]
           /\ UNCHANGED ph
Finish  == /\ ph = "cand" /\ Len(sc.jc) = sc.n
           /\ \E o \in Offs(sc.n) :
                CASE sc.shape = "ss"  -> sc' = [sc EXCEPT !.off = o]
                  [] sc.shape = "tc"  -> \E ts \in TimeSets : Small(sc, ts) /\ sc' = [sc EXCEPT !.off = o, !.times = ts]
                  [] sc.shape = "ptc" -> \E ts \in PTimes, pr \in Prots : Small(sc, ts) /\ sc' = [sc EXCEPT !.off = o, !.times = ts, !.prot = pr]
           /\ ph' = "done"
Next == AddTrue \/ ToCand \/ AddCand \/ Finish

(***************************************************************************)
(* closed-form tables: a sequence of groups (see Losses.tla)               *)
(***************************************************************************)
Val(s, j, x0, i, t) ==
    CASE s.shape = "ss"  -> RDiv(KIn, RInt(j[i]))
      [] s.shape = "tc"  -> Pool(AS[i], j[i], x0[i], t)
      [] s.shape = "ptc" -> PoolProt(s.prot, j[i], x0[i], t)

TruthT(s) == IF s.shape = "ss" THEN << [i \in 1..s.n |-> Val(s, s.jt, s.x0, i, 0)] >>
             ELSE [i \in 1..s.n |-> [r \in 1..Len(s.times) |-> Val(s, s.jt, s.x0, i, s.times[r])]]
\* the data: the truth, optionally displaced (first entry of the first group / first row of every displaced column)
DataT(s) ==  IF s.shape = "ss" THEN << [i \in 1..s.n |-> RAdd(TruthT(s)[1][i], s.off[i])] >>
             ELSE [i \in 1..s.n |-> [r \in 1..Len(s.times) |-> IF r = 1 THEN RAdd(TruthT(s)[i][r], s.off[i]) ELSE TruthT(s)[i][r]]]
PredT(s) ==  IF s.shape = "ss" THEN << [i \in 1..s.n |-> Val(s, s.jc, s.x0c, i, 0)] >>
             ELSE [i \in 1..s.n |-> [r \in 1..Len(s.times) |-> Val(s, s.jc, s.x0c, i, s.times[r])]]

Generated(s) == \A i \in 1..s.n : RIsZero(s.off[i])       \* the data were generated by the model
AtTruth(s)   == s.jc = s.jt /\ s.x0c = s.x0

\* a norm of a table is a vector norm only for a single column or a single row
OneVector(s) == s.shape = "ss" \/ s.n = 1
\* the percentage loss divides by entries of its first argument: cases within a factor 16 of a zero divisor are fragile
SmallDiv(name, cells) == name = "mean_absolute_percentage" /\
                         \E i \in 1..Len(cells) : RLt(RAbs(cells[i]), R(1, 16))

Expected(s) ==
    LET data == DataT(s)
        pred == PredT(s)
    IN  [nm \in AllLosses |->
            [scl \in {"plain", "scaled"} |->
                LET scaled == (scl = "scaled")
                    und == (nm = "cosine_similarity" /\ ~OneVector(s)) \/ (scaled /\ ~Scalable(data))
                    dpc == IF und THEN <<>> ELSE DPCells(data, pred, scaled)
                IN  [dp |-> IF und THEN Undef ELSE ResidualT(nm, data, pred, scaled, "dp"),
                     pd |-> IF und THEN Undef ELSE ResidualT(nm, data, pred, scaled, "pd"),
                     fragile |-> ~und /\ (SmallDiv(nm, [i \in 1..Len(dpc) |-> dpc[i].d])
                                          \/ SmallDiv(nm, [i \in 1..Len(dpc) |-> dpc[i].p]))]]]

\* sanity theorems of this module (checked on every scenario)
\* (exact sums: only for the one-group scenarios, whose numbers stay small)
SmallSc == sc.shape = "ss" \/ sc.n = 1
ZeroAtTruth == (ph = "done" /\ SmallSc /\ AtTruth(sc) /\ Generated(sc)) =>
    \A nm \in {"mean_squared", "rmse", "mae", "mean"} :
        Collapse(Expected(sc)[nm]["plain"].dp) = [k |-> "ssq", ts |-> <<>>]
SymmetricAgree == (ph = "done" /\ SmallSc) =>
    \A nm \in {"mean_squared", "rmse", "mae", "cosine_similarity"} : \A scl \in {"plain", "scaled"} :
        LET e == Expected(sc)[nm][scl]
            x == Collapse(e.dp)
            y == Collapse(e.pd)
        IN  x = y \/ (Leq(x, y) = "yes" /\ Leq(y, x) = "yes")

Emit == (EmitOn /\ ph = "done") =>
    PrintT("@J@" \o ToJson([sc |-> sc, kin |-> KIn, As |-> AS, data |-> DataT(sc), pred |-> PredT(sc),
                             generated |-> Generated(sc), exp |-> Expected(sc)]) \o "@E@")
=============================================================================
