\* C19: temp+rename with validating load
CONSTANTS
    NKeys = 3
    W = 2
    L = 2
    Design = "temp"
    Policy = "validate"
    RenameAt = "closed"
    BypassOne = FALSE
    MkdirAtBuild = FALSE
    Recover = FALSE
    Forwards = TRUE
    MaxDrop = 0
    LossyNames = FALSE
    Memo = FALSE
    MaxClear = 0
    MaxExtra = 0
    MaxCrash = 2
    Fifo = TRUE
    EmitOn = FALSE
INIT Init
NEXT Next
INVARIANT TypeOK
INVARIANT NoRaise
INVARIANT RightResults
INVARIANT Injective
INVARIANT NoRecompute
INVARIANT AllStored
INVARIANT ComputesExactlyMissing
INVARIANT FinalWhole
INVARIANT OneOwner
INVARIANT Emit
CHECK_DEADLOCK TRUE
