\* C09: every interleaving, 4 rows, <= 3 workers (thorough)
CONSTANTS
    Ns = {4}
    Ws = {1, 2, 3}
    Modes = {"seq", "par"}
    Variants = {"ia"}
    ColSets = {{"k", "x"}, {"x", "q"}}
    Kinds = {"time_course"}
    FailModes = {"intfail"}
    LabelSchemes = {"shuffled", "repeated"}
    KeyedByLabel = FALSE
    NameSchemes = {"plain"}
    Y0s = {0, 9}
    Y0Again = FALSE
    MaxDur = 1
    SharedInSeq = FALSE
    Timed = FALSE
    Fifo = TRUE
    EmitOn = FALSE
INIT Init
NEXT Next
INVARIANT RowIndependent
INVARIANT Aligned
INVARIANT FailedIsNaN
INVARIANT Bounded
INVARIANT CallerUntouched
INVARIANT Emit
CHECK_DEADLOCK TRUE
