\* C20 joint fits: a call that writes the shared defaults INTO the caller's settings objects: HistoryFree must fail
CONSTANTS
    Kinds = {"tc", "ptc", "ssc"}
    NExp = 2
    SettingsRule = "writeback"
    Rich = FALSE
    EmitOn = FALSE
INIT Init
NEXT Next
INVARIANT HistoryFree
CHECK_DEADLOCK FALSE
