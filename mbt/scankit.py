"""C09 helpers: render a ParMap.tla configuration into a real scan, run it under a logging/delaying worker passed
through the public ``worker=`` argument, and compute what an independent simulation / the closed form gives.

The model family is x' = v_in - v_out with v_out = k*x and v_in = kineff/g, where
  plain   : kineff = k_in
  ia      : kineff = k_in + q,  q = 2*x(0) a PARAMETER defined by an InitialAssignment over the initial value
            (a scan table may name q itself: the row's value then replaces the assignment)
  derived : kineff = kd,        kd = 2*k_in a derived parameter
g (normally 1) and a (normally 0) are failure switches: a row with g = 0 makes the rate law raise
ZeroDivisionError; for a row with a != 0 the worker wrapper hands the library an integrator that reports failure.
Nothing here imports mxlpy at module import time (the CLI sets the path of the tree under test afterwards).
"""

from __future__ import annotations

import copy
import inspect
import json
import math
import os
import time
from functools import partial

COLMAP = {"k": "k", "i": "k_in", "x": "x", "q": "q"}   # "q": the assignment-defined parameter itself (variant ia)
ORIGINAL = {"k": 1.0, "k_in": 2.0, "x": 1.0, "g": 1.0, "a": 0.0}
LABELS = [30, 10, 20, 50, 40]                 # non-monotonic row labels (index of the scan table)
TIME_POINTS = [0.0, 0.5, 1.0, 2.0]
PROTOCOL = [(1.0, 1.0), (2.0, 3.0)]           # (duration, k_in) per step
STEPS_PER = 3
PTC_POINTS = [0.5, 1.5, 2.5]
INNER = [1.5, 2.5]                            # inner table of mc.scan_steady_state (over k_in)
TICK = 0.1

# How the model's components are NAMED in the rendering (ParMap.tla is silent about names: every scheme must behave
# alike).  Internally everything is kept under the canonical names; real names appear only at the API boundary.
NAME_SCHEMES = {
    "plain": {},
    "keyword": {"k": "lambda", "x": "class", "q": "yield"},
    "underscore": {"k": "_k", "k_in": "_k_in", "x": "_x", "q": "_q", "g": "_g", "a": "_a"},
    "operator": {"k": "k+1", "k_in": "k-in", "x": "S*", "q": "q/2", "kd": "2*k_in"},
    "mixed": {"k": "k+1", "k_in": "lambda", "x": "_x", "q": "q 2"},
}


def real(sc_or_scheme, canon: str) -> str:
    scheme = sc_or_scheme if isinstance(sc_or_scheme, str) else sc_or_scheme["cfg"].get("names", "plain")
    return NAME_SCHEMES[scheme].get(canon, canon)


def real_dict(sc_or_scheme, d: dict) -> dict:
    return {real(sc_or_scheme, k): v for k, v in d.items()}


KIND_FN = {
    "steady_state": ("mxlpy.scan", "steady_state"), "time_course": ("mxlpy.scan", "time_course"),
    "protocol": ("mxlpy.scan", "protocol"), "protocol_time_course": ("mxlpy.scan", "protocol_time_course"),
    "mc.steady_state": ("mxlpy.mc", "steady_state"), "mc.time_course": ("mxlpy.mc", "time_course"),
    "mc.scan_steady_state": ("mxlpy.mc", "scan_steady_state"),
}


# ---- model functions (module level: the model is pickled for pool workers) -----------------------
def f_in(k_in, g):
    return k_in / g


def f_in_ia(k_in, q, g):
    return (k_in + q) / g


def f_out(x, k):
    return k * x


def f_twice(x):
    return 2.0 * x


def build_model(variant: str, scheme: str = "plain"):
    from mxlpy import Model
    from mxlpy.types import InitialAssignment

    def n(c):
        return real(scheme, c)

    m = Model()
    m.add_variable(n("x"), ORIGINAL["x"])
    m.add_parameters({n("k_in"): ORIGINAL["k_in"], n("k"): ORIGINAL["k"], n("g"): ORIGINAL["g"], n("a"): ORIGINAL["a"]})
    if variant == "ia":
        m.add_parameter(n("q"), InitialAssignment(fn=f_twice, args=[n("x")]))
        m.add_reaction("v_in", f_in_ia, args=[n("k_in"), n("q"), n("g")], stoichiometry={n("x"): 1.0})
    elif variant == "derived":
        m.add_derived(n("kd"), f_twice, args=[n("k_in")])
        m.add_reaction("v_in", f_in, args=[n("kd"), n("g")], stoichiometry={n("x"): 1.0})
    else:
        m.add_reaction("v_in", f_in, args=[n("k_in"), n("g")], stoichiometry={n("x"): 1.0})
    m.add_reaction("v_out", f_out, args=[n("x"), n("k")], stoichiometry={n("x"): -1.0})
    return m


def kineff(variant: str, k_in: float, x0: float, q: float | None = None) -> float:
    """q: value a scan row gave the assignment-defined parameter (None: the assignment 2*x(0) is in force)."""
    if variant == "ia":
        return k_in + (2.0 * x0 if q is None else q)
    return 2.0 * k_in if variant == "derived" else k_in


# ---- the failing integrator (public integrator= extension point) --------------------------------
_FAIL_CLS = None


def failing_integrator(rhs, y0, jacobian=None):
    """An integrator that reports failure for every request (what the default one does when the solver gives up)."""
    global _FAIL_CLS
    if _FAIL_CLS is None:
        from mxlpy.integrators import DefaultIntegrator
        from mxlpy.types import IntegrationFailure, NoSteadyState, Result

        class Failing(DefaultIntegrator):
            def integrate(self, *, t_end, steps=None):
                return Result(IntegrationFailure())

            def integrate_time_course(self, *, time_points):
                return Result(IntegrationFailure())

            def integrate_to_steady_state(self, **kw):
                return Result(NoSteadyState())

        _FAIL_CLS = Failing
    return _FAIL_CLS(rhs, y0, jacobian)


_LATE = {"n": 0}
_LATE_CLS = None


def late_failing_integrator(rhs, y0, jacobian=None):
    """The default integrator for the first integration request of a row, failure for every later one: a row that
    integrates its first protocol step and fails in a later step (the worker resets the count per row)."""
    global _LATE_CLS
    if _LATE_CLS is None:
        from mxlpy.integrators import DefaultIntegrator
        from mxlpy.types import IntegrationFailure, Result

        class Late(DefaultIntegrator):
            # (the default integrator's integrate() goes through integrate_time_course(): one count per request)
            def integrate_time_course(self, *, time_points):
                _LATE["n"] += 1
                return Result(IntegrationFailure()) if _LATE["n"] > 1 else super().integrate_time_course(time_points=time_points)

        _LATE_CLS = Late
    return _LATE_CLS(rhs, y0, jacobian)


# ---- tables ---------------------------------------------------------------------------------------
def row_values(sc: dict, i: int) -> dict:
    """Values the table holds for row i (1-based): the specification's values for the scanned columns plus the
    failure switch of the failing row."""
    vals = {COLMAP[c]: float(sc["vals"][i - 1][c]) for c in sc["cfg"]["cols"]}
    fm = sc["cfg"]["failmode"] if sc["cfg"]["fail"] else ""
    failing = i == sc["cfg"]["fail"]
    if fm == "raise":
        vals["g"] = 0.0 if failing else 1.0
    elif fm == "intfail":
        vals["a"] = 1.0 if failing else 0.0
    elif fm == "latestep":
        vals["a"] = 2.0 if failing else 0.0
    elif fm == "nosteady":
        if failing:
            vals["k"] = 0.0
        else:
            vals.setdefault("k", ORIGINAL["k"])
    return vals


def labels_of(sc: dict) -> list:
    """Row labels of the scan table by the configuration's label scheme.  Labels are only carried: rows are identified
    by position, so labels may repeat (two batches concatenated without re-indexing)."""
    n = sc["cfg"]["n"]
    scheme = sc["cfg"].get("labels", "shuffled")
    if scheme == "range":
        return list(range(n))
    if scheme == "strings":
        return [f"r{lab}" for lab in LABELS[:n]]
    if scheme == "repeated":
        return [("A", "B")[i % 2] for i in range(n)]
    return list(LABELS[:n])


def table(sc: dict):
    import pandas as pd

    n = sc["cfg"]["n"]
    rows = [row_values(sc, i) for i in range(1, n + 1)]
    cols = list(rows[0])
    df = pd.DataFrame({real(sc, c): [r[c] for r in rows] for c in cols})
    if sc["cfg"].get("labels", "shuffled") != "range":      # "range": the default RangeIndex
        df.index = pd.Index(labels_of(sc))
    return df


def protocol_frame(scheme: str = "plain"):
    from mxlpy import make_protocol

    return make_protocol([(d, {real(scheme, "k_in"): v}) for d, v in PROTOCOL])


def y0_of(sc: dict) -> dict | None:
    """The y0= argument of the configuration ({x: v} or None): base initial values the rows are applied on top of."""
    v = sc["cfg"].get("y0", 0)
    return {"x": float(v)} if v and v > 0 else None      # canonical name; renamed where it is handed to the library


def apply_row(model, vals: dict) -> None:
    """Public API, by membership: variables get initial values, the rest are parameters."""
    variables = set(model.get_variable_names())
    model.update_variables({k: v for k, v in vals.items() if k in variables})
    model.update_parameters({k: v for k, v in vals.items() if k not in variables})


# ---- the worker passed through worker= -----------------------------------------------------------
def _log(path: str, rec: dict) -> None:
    fd = os.open(path, os.O_WRONLY | os.O_CREAT | os.O_APPEND, 0o644)
    try:
        os.write(fd, (json.dumps(rec) + "\n").encode())
    finally:
        os.close(fd)


def _count_starts(path: str) -> int:
    try:
        with open(path) as fp:
            return sum(1 for ln in fp if '"start"' in ln)
    except FileNotFoundError:
        return 0


def _identify(model, rows: list[dict]) -> int:
    pars = model.get_raw_parameters(as_copy=False)
    varis = model.get_raw_variables(as_copy=False)
    for i, r in enumerate(rows, 1):
        ok = True
        for name, v in r.items():
            cur = varis[name].initial_value if name in varis else pars[name].value
            if not (isinstance(cur, (int, float)) and float(cur) == v):
                ok = False
                break
        if ok:
            return i
    return 0


def kit_worker(model, *args, _kit: dict, **kw):
    """Log (pid, row, start, end), realise the row's duration, delegate to the library's own default worker."""
    import importlib

    i = _identify(model, _kit["rows"])
    _log(_kit["log"], {"e": "start", "i": i, "pid": os.getpid(), "t": time.monotonic_ns()})
    if _kit["par"]:
        wave = _kit["wave"]
        if 0 < i <= wave:          # first wave: wait until all its rows have started (pool start-up skew)
            t0 = time.monotonic()
            while _count_starts(_kit["log"]) < wave and time.monotonic() - t0 < 10:
                time.sleep(0.002)
        time.sleep(_kit["dur"][i - 1] * TICK if i else 0)
    mod, fn = KIND_FN[_kit["kind"]]
    default = inspect.signature(getattr(importlib.import_module(mod), fn)).parameters["worker"].default
    raw = model.get_raw_parameters(as_copy=False)
    if _kit["a"] in raw and raw[_kit["a"]].value == 2.0:
        _LATE["n"] = 0
        kw["integrator"] = late_failing_integrator
    elif _kit["a"] in raw and raw[_kit["a"]].value != 0.0:
        kw["integrator"] = failing_integrator
    try:
        return default(model, *args, **kw)
    finally:
        _log(_kit["log"], {"e": "end", "i": i, "pid": os.getpid(), "t": time.monotonic_ns()})


def pre_evaluated(sc: dict) -> bool:
    """Half of the configurations (a fixed function of the configuration) hand the scan a model that was evaluated
    before; the specification is silent about it: both must behave alike."""
    import zlib

    return zlib.crc32(json.dumps([sc["cfg"], sc.get("dur")], sort_keys=True).encode()) % 2 == 0


def run_scan(sc: dict, log: str):
    """The real scan for a configuration (returns the library's container)."""
    import importlib
    import multiprocessing

    import numpy as np
    import pandas as pd

    cfg = sc["cfg"]
    kind, n, w = cfg["kind"], cfg["n"], cfg["w"]
    par = cfg["mode"] == "par"
    mod, fn = KIND_FN[kind]
    f = getattr(importlib.import_module(mod), fn)
    scheme = cfg.get("names", "plain")
    rows = [real_dict(scheme, row_values(sc, i)) for i in range(1, n + 1)]
    kit = {"a": real(scheme, "a"), "rows": rows, "log": log, "par": par, "wave": min(w, n), "dur": sc.get("dur") or [0] * n, "kind": kind}
    worker = partial(kit_worker, _kit=kit)
    model = build_model(cfg["variant"], scheme)
    if pre_evaluated(sc):
        # rendering choice: the caller inspected the model before the scan (its internal cache is already built)
        model.get_initial_conditions()
        model.get_args()
    tab = table(sc)
    kw: dict = {"worker": worker}
    if y0_of(sc) is not None:
        kw["y0"] = real_dict(scheme, y0_of(sc))
    if kind.startswith("mc."):
        kw["mc_to_scan"] = tab
        kw["max_workers"] = w
    else:
        kw["to_scan"] = tab
        kw["parallel"] = par
    if kind in ("time_course", "mc.time_course"):
        kw["time_points"] = np.array(TIME_POINTS)
    elif kind == "protocol":
        kw["protocol"] = protocol_frame(scheme)
        kw["time_points_per_step"] = STEPS_PER
    elif kind == "protocol_time_course":
        kw["protocol"] = protocol_frame(scheme)
        kw["time_points"] = np.array(PTC_POINTS)
    elif kind == "mc.scan_steady_state":
        kw["to_scan"] = pd.DataFrame({real(scheme, "k_in"): INNER})
    old = multiprocessing.cpu_count
    if par and not kind.startswith("mc."):
        multiprocessing.cpu_count = lambda: w   # scan.* has no worker-count argument: the pool reads the CPU count
    try:
        return f(model, **kw), model
    finally:
        multiprocessing.cpu_count = old


# ---- what an independent simulation of a fresh copy gives ----------------------------------------
def _frame(df) -> dict:
    return {"index": [float(t) for t in df.index], "cols": [str(c) for c in df.columns],
            "data": [[float(x) for x in r] for r in df.to_numpy()]}


def independent(sc: dict, i: int, inner: float | None = None) -> dict:
    """Fresh copy of the base model, row i applied, one Simulator run of the scan's kind."""
    import numpy as np

    from mxlpy import Simulator

    kind = sc["cfg"]["kind"]
    vals = row_values(sc, i) if i else {}
    scheme = sc["cfg"].get("names", "plain")
    m = copy.deepcopy(build_model(sc["cfg"]["variant"], scheme))
    if y0_of(sc) is not None:       # row values take precedence over y0, y0 over the model's own initial values
        m.update_variables(real_dict(scheme, y0_of(sc)))
    apply_row(m, real_dict(scheme, vals))
    if inner is not None:
        m.update_parameters({real(scheme, "k_in"): inner})
    integ = failing_integrator if vals.get("a", 0.0) != 0.0 else None
    if vals.get("a", 0.0) == 2.0:
        _LATE["n"] = 0
        integ = late_failing_integrator
    try:
        s = Simulator(m, integrator=integ)
        if kind in ("steady_state", "mc.steady_state", "mc.scan_steady_state"):
            s = s.simulate_to_steady_state()
        elif kind in ("time_course", "mc.time_course"):
            s = s.simulate_time_course(np.array(TIME_POINTS))
        elif kind == "protocol":
            s = s.simulate_protocol(protocol_frame(scheme), time_points_per_step=STEPS_PER)
        else:
            s = s.simulate_protocol_time_course(protocol_frame(scheme), time_points=np.array(PTC_POINTS))
        res = s.get_result().value
    except ZeroDivisionError:
        return {"failed": "raise"}
    if isinstance(res, Exception):
        return {"failed": type(res).__name__}
    v, f = res.variables, res.fluxes
    if kind in ("steady_state", "mc.steady_state", "mc.scan_steady_state"):
        v, f = v.iloc[-1:], f.iloc[-1:]
    return {"failed": None, "v": _frame(v), "f": _frame(f)}


def closed_form(sc: dict, i: int, times: list[float], inner: float | None = None) -> dict:
    """x(t), v_in, v_out of row i from x' = kineff - k*x (piecewise for protocols); steady kinds: times = [inf]."""
    cfg = sc["cfg"]
    vals = {**ORIGINAL, **(y0_of(sc) or {}), **row_values(sc, i)}
    if inner is not None:
        vals["k_in"] = inner
    k, x0, variant, q = vals["k"], vals["x"], cfg["variant"], vals.get("q")
    if cfg["kind"] in ("steady_state", "mc.steady_state", "mc.scan_steady_state"):
        ke = kineff(variant, vals["k_in"], x0, q)
        return {"x": [ke / k], "v_in": [ke], "v_out": [ke]}
    segs = []
    if cfg["kind"] in ("protocol", "protocol_time_course"):
        t = 0.0
        for d, kin in PROTOCOL:
            segs.append((t, t + d, kineff(variant, kin, x0, q)))
            t += d
    else:
        segs.append((0.0, math.inf, kineff(variant, vals["k_in"], x0, q)))
    xs, vin, vout = [], [], []
    for tt in times:
        x, last = x0, None
        for (a, b, ke) in segs:
            if tt <= a:
                break
            end = min(tt, b)
            xstar = ke / k
            x = xstar + (x - xstar) * math.exp(-k * (end - a))
            last = ke
        if last is None:
            last = segs[0][2]
        xs.append(x)
        vin.append(last)          # at a step boundary the in-force value is ambiguous: compared only off boundaries
        vout.append(k * x)
    return {"x": xs, "v_in": vin, "v_out": vout}
