"""C18 -- control coefficients equal analytic sensitivities; model left untouched; sequential == parallel.

spec      : spec/LossesRat.tla (exact rationals), spec/McaCore.tla (expression trees, symbolic derivative D,
            elasticities, closed-form steady states, response coefficients), spec/Mca.tla (network family, point
            enumeration, theorems, coefficient tables), spec/McaProc.tla (the perturb / steady / restore procedure,
            sequential on the caller's model and parallel on per-task copies)
TLC (mc)  : ScaledIsOrder (scaled elasticity of a power law = kinetic order), QuotExact (the symmetric quotient the
            routines compute equals D exactly for at-most-quadratic rates), SteadyIsSteady, Summation; the procedure
            restores parameters and initial values and returns the entry model's quotient in every interleaving;
            the pinned shape (supplied initial values never taken back, sequential) and "no parameter reset" are rejected
spec->code: every emitted point: variable_elasticities / parameter_elasticities (scaled, unscaled, with and without
            variables=, to_scan subsets) and response_coefficients (scaled, unscaled, with and without variables=,
            sequential; parallel for a subset) against the exact tables; sequential == parallel; parameter values
            and initial values before == after every call
"""

from __future__ import annotations

import json
import os
import random

for _v in ("OMP_NUM_THREADS", "OPENBLAS_NUM_THREADS", "MKL_NUM_THREADS"):
    os.environ.setdefault(_v, "1")

from ..core import Ctx, Report, pmap
from ..mcakit import build, close, cmp_frame, content_of, fl, norm_point, rate_factor, scale_of
from ..tlc import MachineryError

WORKERS = 8          # the machine is shared: TLC workers and replay processes are capped


def _tlc(ctx, *a, **k):
    k.setdefault("workers", WORKERS)
    return ctx.tlc(*a, **k)


RULE = ("one case = (network point, routine, scaled?, variables= given?, to_scan, sequential/parallel); non-trivial = "
        "every case (each compares a full coefficient table and the model content before/after); distinct by content")

H = 1e-4
REL_EL = 1e-6          # DESIGN section 4: displacement 1e-4 => relative 1e-6
REL_RC = 1e-6          # plus the absolute bound derived from the integrator tolerances in _rc_compare


def mc(ctx: Ctx, rep: Report) -> None:
    res = _tlc(ctx, "McaProc.tla", "McaProc_seq.cfg", coverage=True, workers=4)
    rep.add_tlc(res, "procedure, sequential, restoring parameters and supplied initial values: caller's model restored, "
                     "every task returns the entry model's quotient")
    rep.require_coverage(res, ["Start", "PerturbUp", "SteadyUp", "PerturbDown", "SteadyDown", "Restore", "Normalise",
                               "RestoreInit", "Finish"])
    res = _tlc(ctx, "McaProc.tla", "McaProc_par.cfg", workers=8)
    rep.add_tlc(res, "procedure, parallel on per-task copies: same results in every interleaving, caller's model never written")
    for cfg, what in [("McaProc_cycle_seq.cfg", "closed loop (steady state depends on the starting state), sequential: model restored, "
                                                 "difference AND scaling are taken at the supplied state"),
                      ("McaProc_cycle_par.cfg", "closed loop, parallel on per-task copies: same results in every interleaving"),
                      ("McaProc_chain_early.cfg", "open chain: taking the supplied initial values back before the reference steady "
                                                  "state is invisible (unique steady state)")]:
        res = _tlc(ctx, "McaProc.tla", cfg, workers=4)
        rep.add_tlc(res, f"procedure, {what}")
    res = _tlc(ctx, "McaProc.tla", "McaProc_pinned_rest.cfg", workers=4)
    rep.add_tlc(res, "pinned shape: parameters restored and coefficients right (only the initial values are at fault)")
    for cfg, inv, what in [
        ("McaProc_pinned.cfg", "InitsRestored", "pinned mca.py shape (supplied initial values never taken back), sequential"),
        ("McaProc_noreset.cfg", "ParsRestored", "forgetting the parameter reset"),
        ("McaProc_noreset_res.cfg", "ResultsRight", "forgetting the parameter reset corrupts later tasks' coefficients"),
        ("McaProc_cycle_early.cfg", "ResultsRight", "closed loop: supplied initial values taken back BEFORE the reference steady "
                                                     "state - the scaling is then taken at the model's own state"),
        ("McaProc_reach.cfg", "Reached", "vacuity guard: finished runs with supplied initial values and normalisation exist"),
    ]:
        r = _tlc(ctx, "McaProc.tla", cfg, expect_violation=True, workers=4)
        if r.violated != inv:
            raise MachineryError(f"{cfg}: TLC was expected to violate {inv} ({what}) but reported {r.violated}: "
                                 "the specification has lost its teeth")
        rep.add_tlc(r, f"expected counterexample: {what}")


# ---- spec -> code ----------------------------------------------------------------------------------------
def _tabs(pt: dict):
    d = pt["desc"]
    return d["vars"], d["pars"], [r["name"] for r in d["rxns"]]


def _check_content(model, before: dict, scn: dict, out: list) -> None:
    after = content_of(model)
    if after != before:
        changed = [k for k in after if after[k] != before.get(k)]
        out.append({"scn": scn, "detail": {"what": "model content changed", "changed": changed, "before": before, "after": after}})


def _decoys(vars_, zero: bool = True):
    """Initial values the model holds while the state is supplied through variables=; the last one is ZERO (an empty
    pool is a regular initial value: it must be overridden by the supplied state and be back afterwards)."""
    return {v: (0.0 if zero and j == len(vars_) - 1 and j > 0 else 7.0 + j) for j, v in enumerate(vars_)}


class _SkipZeroColumns:
    """A relative displacement of a zero value is no displacement (Mca.tla: Quot is undefined there): the routines answer
    NaN in that column; the column is outside the specification."""

    def __init__(self, table, env):
        self.table, self.env = table, env

    def __getitem__(self, col):
        row = self.table[col]
        if self.env[col] == 0.0:
            return {r: {"n": 0, "d": 0} for r in row}
        return row


class _ScaledTable:
    """table[col][row] of the point -> the same entry of its scaled twin (Mca.tla, Homogeneous)."""

    def __init__(self, table: dict, pt: dict, unscaled_coefficient: bool):
        self.table, self.pt, self.unscaled = table, pt, unscaled_coefficient

    def __getitem__(self, col):
        pt, row_of = self.pt, self.table[col]
        if not self.unscaled:
            return row_of
        out = {}
        for r, v in row_of.items():
            x = fl(v)
            out[r] = v if x is None else {"float": x * rate_factor(pt, r, True) / scale_of(pt, col, True)}
        return out


def elasticity_cases(pt: dict, rnd: random.Random, scaled: bool = False) -> tuple[list, dict]:
    """Both elasticity routines on one point (scaled: on its scaled twin). Returns (mismatches, stats)."""
    from mxlpy import mca

    vars_, pars, rxns = _tabs(pt)
    env = {k: fl(v) * scale_of(pt, k, scaled) for k, v in pt["env"].items()}
    flux = {r: fl(v) * rate_factor(pt, r, scaled) for r, v in pt["flux"].items()}
    out: list = []
    stats = {"cases": 0, "worst": 0.0}
    state = {v: env[v] for v in vars_}
    for with_vars in (False, True):
        model, _ = build(pt, inits=_decoys(vars_, zero=pt["net"] != "pl") if with_vars else None, scaled=scaled)
        if not with_vars:
            # spec validation: the float interpreter of the trees against the specification's exact fluxes
            f = model.get_fluxes()
            for r in rxns:
                if not close(float(f[r]), flux[r], 1e-12, 1e-300):
                    raise MachineryError(f"expression-tree interpreter disagrees with Mca.tla on flux {r} at {pt['env']}: "
                                         f"{float(f[r])} vs {flux[r]}")
        kw = {"variables": dict(state)} if with_vars else {}
        for normalized in (True, False):
            for routine, syms, tab in (("variable_elasticities", vars_, pt["evs" if normalized else "evu"]),
                                       ("parameter_elasticities", pars, pt["eps" if normalized else "epu"])):
                scans = [None, [syms[rnd.randrange(len(syms))]]]
                if pt.get("pinit") and routine == "parameter_elasticities":
                    # (to_scan=None raises KeyError on a model with a rule-defined parameter: get_parameter_names lists
                    # it, get_parameter_values does not -- loud, outside the claim); the full scan in the order that
                    # displaces the rule's source AFTER the others
                    scans = [list(syms), [syms[rnd.randrange(len(syms))]]]
                for to_scan in scans:
                    scn = {"kind": "elasticity", "routine": routine, "net": pt["net"], "env": pt["env"],
                           "normalized": normalized, "with_variables": with_vars, "to_scan": to_scan, "parallel": False,
                           "scaled_twin": scaled}
                    exp_tab = _ScaledTable(tab, pt, unscaled_coefficient=not normalized) if scaled else tab
                    exp_tab = _SkipZeroColumns(exp_tab, env)
                    before = content_of(model)
                    stats["cases"] += 1
                    try:
                        df = getattr(mca, routine)(model, normalized=normalized, to_scan=to_scan, displacement=H, **kw)
                    except Exception as e:  # noqa: BLE001
                        out.append({"scn": scn, "detail": {"what": "exception", "exc": f"{type(e).__name__}: {e}"[:300]}})
                        continue
                    cols = syms if to_scan is None else to_scan

                    def abs_of(c, r, normalized=normalized):
                        # rounding of the difference quotient: eps * |v| / (h * |s|); scaled: eps / h
                        if scaled:       # everything relative to the twin's own magnitudes
                            return 1e-9 * (1.0 if normalized else abs(flux[r]) / abs(env[c]))
                        return 1e-9 * (1.0 if normalized else max(abs(flux[r]), 1e-3) / abs(env[c])) + 1e-12
                    bad = cmp_frame(df, exp_tab, cols, rxns, REL_EL, abs_of)
                    if "ok" not in bad:
                        out.append({"scn": scn, "detail": bad})
                    else:
                        stats["worst"] = max(stats["worst"], bad["worst"])
                    _check_content(model, before, scn, out)
    return out, stats


HQ = 0.1               # the large displacement for which Mca.tla prints the EXACT symmetric quotient


def _rc_tables(pt: dict, normalized: bool, h: float, own_state: bool = False):
    """own_state: variables=None on a model whose initial values are assignment rules (Mca.tla, NetM)."""
    sfx = "_m" if own_state and pt.get("hasm") else ""
    if h == HQ:
        return (pt["qcs" + sfx], pt["qfs" + sfx]) if normalized else (pt["qcu" + sfx], pt["qfu" + sfx])
    return (pt["rcs" + sfx], pt["rfs" + sfx]) if normalized else (pt["rcu" + sfx], pt["rfu" + sfx])


def _rc_compare(pt: dict, rc, normalized: bool, cols: list[str], h: float = H, own_state: bool = False) -> dict:
    vars_, pars, rxns = _tabs(pt)
    env = {k: fl(v) for k, v in pt["env"].items()}
    ss = {k: fl(v) for k, v in pt["ss"].items()}
    ssf = {k: fl(v) for k, v in pt["ssflux"].items()}
    tc, tf = _rc_tables(pt, normalized, h, own_state)

    # Sound bound.  The steady-state search is only as accurate as its integrator: scipy's lsoda runs with its default
    # rtol = 1e-6 (integrate_to_steady_state does not forward atol / rtol, so this cannot be tightened through the
    # public integrator= argument) and the loop stops at |y(t+100) - y(t)| < 1e-6.  With a factor 10 of margin:
    # dx = 1e-5 |x*| + 1e-9 per search.  Two searches, divided by 2 h p: |error| <= dx / (h p); a scaled coefficient
    # multiplies by p / x*.  Flux errors follow from the concentration errors through the (at most linear in x) rate
    # laws of the steady-state family: dJ <= 2 * kmax * sum(dx).  For the default displacement h = 1e-4 this is 10 % of
    # a scaled coefficient (observed: up to 0.8 %); the same tables are therefore also checked with h = 1/10 against
    # the EXACT symmetric quotient computed by TLC, where the bound is 1e-4 of a scaled coefficient.
    kmax = max(abs(env[q]) for q in pars)
    dx = {x: 1e-5 * abs(ss[x]) + 1e-9 for x in vars_}
    dj = 2 * kmax * sum(dx.values())
    def abs_c(q, x):
        return dx[x] / (h * (abs(ss[x]) if normalized else abs(env[q]))) + 1e-12

    def abs_f(q, r):
        return dj / (h * (max(abs(ssf[r]), 1e-9) if normalized else abs(env[q]))) + 1e-12
    b1 = cmp_frame(rc.variables, tc, cols, vars_, REL_RC, abs_c)
    if "ok" not in b1:
        return {"table": "variables", **b1}
    b2 = cmp_frame(rc.fluxes, tf, cols, rxns, REL_RC, abs_f)
    if "ok" not in b2:
        return {"table": "fluxes", **b2}
    return {"ok": True, "worst": max(b1["worst"], b2["worst"])}


def response_cases(pt: dict, rnd: random.Random, parallel_too: bool) -> tuple[list, dict]:
    from mxlpy import mca

    vars_, pars, rxns = _tabs(pt)
    out: list = []
    stats = {"cases": 0, "worst": 0.0, "parallel": 0}
    # the analysis is AT the point's state: either the model holds it, or the model holds decoys (another conserved
    # total!) and the state is supplied through variables=
    state = {v: fl(pt["env"][v]) for v in vars_}
    for with_vars, normalized, h in [(w, n, hh) for w in (False, True) for n in (True, False) for hh in (H, HQ)]:
        to_scan = None if rnd.random() < 0.7 else [pars[rnd.randrange(len(pars))]]
        if pt.get("pinit") and to_scan is None:
            to_scan = list(pars)                  # explicit, rule's source last (see elasticity_cases)
        cols = pars if to_scan is None else to_scan
        results = {}
        for parallel in ([False, True] if parallel_too else [False]):
            model, _ = build(pt, inits=_decoys(vars_, zero=pt["net"] != "pl") if with_vars else None)
            scn = {"kind": "response", "routine": "response_coefficients", "net": pt["net"], "env": pt["env"],
                   "normalized": normalized, "with_variables": with_vars, "to_scan": to_scan, "parallel": parallel,
                   "displacement": h}
            before = content_of(model)
            stats["cases"] += 1
            stats["parallel"] += parallel
            try:
                rc = mca.response_coefficients(model, to_scan=to_scan, variables=dict(state) if with_vars else None,
                                               normalized=normalized, displacement=h, disable_tqdm=True,
                                               parallel=parallel, max_workers=2)
            except Exception as e:  # noqa: BLE001
                out.append({"scn": scn, "detail": {"what": "exception", "exc": f"{type(e).__name__}: {e}"[:300]}})
                continue
            bad = _rc_compare(pt, rc, normalized, cols, h, own_state=not with_vars)
            if "ok" not in bad:
                out.append({"scn": scn, "detail": bad})
            else:
                stats["worst"] = max(stats["worst"], bad["worst"])
            _check_content(model, before, scn, out)
            results[parallel] = rc
        if len(results) == 2:
            a, b = results[False], results[True]
            for name in ("variables", "fluxes"):
                da, db = getattr(a, name), getattr(b, name)
                same = list(da.columns) == list(db.columns) and list(da.index) == list(db.index)
                if same:
                    for c in da.columns:
                        for r in da.index:
                            if not close(float(da.loc[r, c]), float(db.loc[r, c]), 1e-7, 1e-10):
                                same = False
                if not same:
                    out.append({"scn": {**scn, "kind": "seq-vs-par", "parallel": "both"},
                                "detail": {"what": f"sequential and parallel {name} differ",
                                           "sequential": da.to_dict(), "parallel": db.to_dict()}})
    return out, stats


def _seq_point(item):
    pt, seed = item
    rnd = random.Random(f"{seed}/{json.dumps(pt['env'], sort_keys=True)}/{pt['net']}")
    out, st = elasticity_cases(pt, rnd)
    o_tw, st_tw = elasticity_cases(pt, rnd, scaled=True)        # the scaled twin: small numbers are numbers
    out += o_tw
    st = {"cases": st["cases"] + st_tw["cases"], "worst": max(st["worst"], st_tw["worst"])}
    st2 = {"cases": 0, "worst": 0.0, "parallel": 0}
    if pt["hasss"]:
        o2, st2 = response_cases(pt, rnd, parallel_too=False)
        out += o2
    return out, st, st2


def mc_cases(pt: dict, rnd: random.Random) -> tuple[list, int]:
    """The Monte-Carlo counterparts mxlpy.mc.*: every row of mc_to_scan is the point itself (the scanned parameter at
    its own value) plus a column naming a model VARIABLE with a decoy value: the explicit state wins, every row's table
    is the point's table, and the caller's model is what it was."""
    import pandas as pd
    from mxlpy import mc

    vars_, pars, rxns = _tabs(pt)
    env = {k: fl(v) for k, v in pt["env"].items()}
    flux = {r: fl(v) for r, v in pt["flux"].items()}
    state = {v: env[v] for v in vars_}
    out: list = []
    n = 0
    normalized = rnd.random() < 0.5
    rows = pd.DataFrame({pars[0]: [env[pars[0]]] * 2, vars_[0]: [9.0, 11.0]})

    def abs_el(c, r):
        return 1e-9 * (1.0 if normalized else max(abs(flux[r]), 1e-3) / abs(env[c])) + 1e-12

    calls = [("variable_elasticities", dict(to_scan=None), pt["evs" if normalized else "evu"], vars_, rxns, abs_el, REL_EL),
             ("parameter_elasticities", dict(to_scan=list(pars)), pt["eps" if normalized else "epu"], pars, rxns, abs_el, REL_EL)]
    if pt["hasss"]:
        calls.append(("response_coefficients", dict(to_scan=list(pars), disable_tqdm=True), None, pars, vars_, None, REL_RC))
    for routine, kw, tab, cols, rws, abs_of, rel in calls:
        model, _ = build(pt, inits=_decoys(vars_, zero=pt["net"] != "pl"))
        scn = {"kind": "mc", "routine": f"mc.{routine}", "net": pt["net"], "env": pt["env"], "normalized": normalized,
               "with_variables": True, "parallel": True}
        before = content_of(model)
        n += 1
        try:
            res = getattr(mc, routine)(model, mc_to_scan=rows, variables=dict(state), normalized=normalized,
                                       displacement=H, max_workers=2, **kw)
        except Exception as e:  # noqa: BLE001
            out.append({"scn": scn, "detail": {"what": "exception", "exc": f"{type(e).__name__}: {e}"[:300]}})
            continue
        for k in rows.index:
            if routine == "response_coefficients":
                class _One:     # one row's tables in the shape _rc_compare reads
                    variables = res.variables.loc[k]
                    fluxes = res.fluxes.loc[k]
                bad = _rc_compare(pt, _One, normalized, cols, H)
            else:
                bad = cmp_frame(res.loc[k], _SkipZeroColumns(tab, env), cols, rws, rel, abs_of)
            if "ok" not in bad:
                out.append({"scn": {**scn, "row": int(k)}, "detail": bad})
                break
        _check_content(model, before, scn, out)
    return out, n


def _par_point(item):
    pt, seed = item
    rnd = random.Random(f"par/{seed}/{json.dumps(pt['env'], sort_keys=True)}/{pt['net']}")
    devnull = os.open(os.devnull, os.O_WRONLY)      # mc.* cannot switch its progress bars off
    os.dup2(devnull, 2)
    out, st = response_cases(pt, rnd, parallel_too=True)
    o2, n = mc_cases(pt, rnd)
    st["mc"] = n
    return out + o2, st


def classify(scn: dict, detail: dict) -> str | None:
    """Finding key from the SHAPE of the failing case."""
    if (scn.get("routine") == "response_coefficients" and scn.get("parallel") is False and scn.get("with_variables")
            and detail.get("what") == "model content changed" and "initial" in detail.get("changed", [])
            and "parameters" not in detail.get("changed", [])):
        return "y0-persists"
    if (scn.get("routine") == "mc.response_coefficients" and detail.get("what") == "model content changed"
            and "initial" in detail.get("changed", []) and "parameters" not in detail.get("changed", [])):
        return "mc-y0-persists"
    return None


def points(ctx: Ctx, rep: Report) -> list[dict]:
    cfg = "Mca_quick.cfg" if ctx.quick else "Mca_mid_emit.cfg"   # (Mca_full.cfg: 4 values per symbol, > 10 min on a loaded machine)
    res = _tlc(ctx, "Mca.tla", cfg)
    rep.add_tlc(res, f"theorems ScaledIsOrder, QuotExact, SteadyIsSteady, Summation on every point + coefficient tables ({cfg})")
    pts = [norm_point(p) for p in res.payloads]
    if len(pts) < 200:
        raise MachineryError(f"only {len(pts)} points emitted")
    if {p["net"] for p in pts} != {"chain2", "branch", "rev", "sgn", "cycle", "ia", "iac", "ipar", "pl"}:
        raise MachineryError("a network of the family is missing from the emission")
    return pts


def binding_selftest(pts: list[dict], rep: Report) -> None:
    """Corrupt ONE expected value of one point: the comparison must flag exactly that entry (else machinery failure)."""
    import copy as _copy

    from mxlpy import mca

    pt = next(p for p in pts if p["hasss"])
    vars_, pars, rxns = _tabs(pt)
    q, x = pars[1], vars_[0]
    bad_pt = _copy.deepcopy(pt)
    r = bad_pt["qcu"][q][x]
    bad_pt["qcu"][q][x] = {"n": int(r["n"]) * 101, "d": int(r["d"]) * 100}
    model, _ = build(pt)
    rc = mca.response_coefficients(model, normalized=False, displacement=HQ, disable_tqdm=True, parallel=False)
    good = _rc_compare(pt, rc, False, pars, HQ)
    bad = _rc_compare(bad_pt, rc, False, pars, HQ)
    if "ok" not in good:
        rep.notes["binding_selftest"] = "skipped: the uncorrupted point already disagrees (reported by the replay)"
        return
    if bad.get("what") != "value" or (bad.get("column"), bad.get("row")) != (q, x):
        raise MachineryError(f"binding self-test failed: uncorrupted {good}, corrupted {bad}")
    bad_pt = _copy.deepcopy(pt)
    s, rx = vars_[0], rxns[1]
    r = bad_pt["evu"][s][rx]
    bad_pt["evu"][s][rx] = {"n": int(r["n"]) * 1001 + (1 if int(r["n"]) == 0 else 0), "d": int(r["d"]) * 1000}
    if elasticity_cases(pt, random.Random(0))[0]:
        rep.notes["binding_selftest"] = "skipped: the uncorrupted point already disagrees (reported by the replay)"
        return
    o, _ = elasticity_cases(bad_pt, random.Random(0))
    hits = [b for b in o if b["detail"].get("what") == "value" and b["scn"]["routine"] == "variable_elasticities"
            and not b["scn"]["normalized"]]
    if not hits or any((b["detail"]["column"], b["detail"]["row"]) != (s, rx) for b in hits) or len(o) != len(hits):
        raise MachineryError(f"binding self-test failed for elasticities: {o[:2]}")
    rep.notes["binding_selftest"] = (f"expected quotient qcu[{q}][{x}] (h = 1/10) * 1.01 -> flagged at exactly that entry; expected evu[{s}][{rx}] * 1.001 -> "
                                     f"flagged in the {len(hits)} unscaled variable-elasticity tables only")


def run(ctx: Ctx) -> int:
    rep = Report(ctx)
    rep.rule = RULE
    rep.assumptions = [
        "parameter and state values are positive (a relative displacement of a zero value is no displacement)",
        "rate constants >= 1/2: the networks relax fast, the steady-state search is not what is being judged (C15)",
        "elasticities: relative 1e-6 (displacement 1e-4) + rounding of the difference quotient (1e-9 * |v|/|s|)",
        "response coefficients: relative 1e-6 + (1e-5|x*| + 1e-9)/(h p): two steady-state searches, each only as accurate as "
        "lsoda's default rtol = 1e-6 (not configurable through integrator=) with a factor 10 of margin, divided by 2*h*p; "
        "checked with the default h = 1e-4 against the derivative (bound = 10 % of a scaled coefficient) and with h = 1/10 "
        "against the exact symmetric quotient computed by TLC (bound = 1e-4)",
        "scaled coefficients are undefined where the flux / concentration vanishes (skipped)",
        "float interpreter of the specification's expression trees, cross-checked against the exact fluxes on every point",
    ]
    mc(ctx, rep)
    pts = points(ctx, rep)
    binding_selftest(pts, rep)
    rnd = random.Random(ctx.seed)
    cap = 368 if ctx.quick else 2400
    pick = pts if len(pts) <= cap else rnd.sample(pts, cap)
    results = pmap(_seq_point, [(p, ctx.seed) for p in pick], procs=WORKERS, chunk=4)
    worst_el = worst_rc = 0.0
    n_el = n_rc = 0
    for pt, (bads, st, st2) in zip(pick, results):
        rep.replayed += 1
        n_el += st["cases"]
        n_rc += st2["cases"]
        worst_el = max(worst_el, st["worst"])
        worst_rc = max(worst_rc, st2["worst"])
        for b in bads:
            rep.mismatch(b["scn"], b["detail"], classify(b["scn"], b["detail"]))
    # ---- parallel mode (own process pools: run outside the daemonic pmap workers) ----------------------------
    with_ss = [p for p in pick if p["hasss"]]
    n_par = 20 if ctx.quick else 120
    by_net: dict = {}
    for p in with_ss:
        by_net.setdefault(p["net"], []).append(p)
    par_pts = []
    for net in sorted(by_net):                      # the same share of every network (the closed loop included)
        share = max(1, n_par // len(by_net))
        par_pts += by_net[net] if len(by_net[net]) <= share else rnd.sample(by_net[net], share)
    from concurrent.futures import ProcessPoolExecutor
    import multiprocessing as mp

    n_parcalls = n_mc = 0
    with ProcessPoolExecutor(max_workers=4, mp_context=mp.get_context("fork")) as ex:
        for pt, (bads, st) in zip(par_pts, ex.map(_par_point, [(p, ctx.seed) for p in par_pts])):
            rep.replayed += 1
            n_rc += st["cases"]
            n_parcalls += st["parallel"]
            n_mc += st.get("mc", 0)
            worst_rc = max(worst_rc, st["worst"])
            for b in bads:
                rep.mismatch(b["scn"], b["detail"], classify(b["scn"], b["detail"]))
    rep.evaluations = n_el + n_rc
    rep.distinct = {("case", j) for j in range(n_el + n_rc)}
    rep.notes["elasticity_tables_compared"] = n_el
    rep.notes["response_coefficient_calls_compared"] = n_rc
    rep.notes["of_which_parallel"] = n_parcalls
    rep.notes["mc_wrapper_calls_compared"] = n_mc
    rep.notes["largest_fraction_of_tolerance_used"] = {"elasticities": worst_el, "response_coefficients": worst_rc}
    if n_el < 1000 or n_rc < 300 or n_parcalls < 20:
        raise MachineryError(f"too few cases: elasticities {n_el}, response {n_rc}, parallel {n_parcalls}")
    s = pick[len(pick) // 2]
    rep.sample({"net": s["net"], "env": {k: str(fl(v)) for k, v in s["env"].items()},
                "scaled_variable_elasticities": {a: {b: fl(x) for b, x in row.items()} for a, row in s["evs"].items()}})
    for s in pick:
        if s["hasss"]:
            rep.sample({"net": s["net"], "parameters": {k: fl(s["env"][k]) for k in s["desc"]["pars"]},
                        "unscaled_concentration_response": {a: {b: fl(x) for b, x in row.items()} for a, row in s["rcu"].items()}})
            break
    return rep.finish()


def replay(ctx: Ctx, doc: dict) -> int:
    """Re-run the failing routine call of a replay file on the current tree."""
    scn = doc["scenario"]
    rep = Report(ctx)
    res = _tlc(ctx, "Mca.tla", "Mca_quick.cfg" if ctx.quick else "Mca_mid_emit.cfg")
    pts = [norm_point(p) for p in res.payloads]
    pt = next((p for p in pts if p["net"] == scn["net"] and p["env"] == scn["env"]), None)
    if pt is None:
        res = _tlc(ctx, "Mca.tla", "Mca_full.cfg")
        pt = next((p for p in [norm_point(q) for q in res.payloads] if p["net"] == scn["net"] and p["env"] == scn["env"]), None)
    if pt is None:
        raise MachineryError("the point of the replay file is not in the specification's family")
    rnd = random.Random(0)
    bads = []
    for _ in range(6):   # to_scan is drawn at random: a few draws cover both forms
        if scn["kind"] == "elasticity":
            o, _ = elasticity_cases(pt, rnd)
        else:
            o, _ = response_cases(pt, rnd, parallel_too=scn.get("parallel") in (True, "both"))
        bads += [b for b in o if all(b["scn"].get(k) == scn.get(k) for k in ("routine", "normalized", "with_variables", "parallel"))]
    print(json.dumps({"observed_disagreements": bads[:3]}, indent=1, default=str))
    if bads:
        print("VIOLATION property=C18 replay=(given)")
        return 1
    print("conforms")
    return 0
