---------------------------- MODULE ModelEdit ----------------------------
(***************************************************************************)
(* C03 -- edit histories.  The public mutators of mxlpy.Model as ONE pure  *)
(* effect operator Eff(op, c) over model content (MxlModel.tla), the       *)
(* observation Obs(c) every query must return (it depends on the content   *)
(* only, hence "as a freshly built model with the same content would"),    *)
(* and a generator of edit histories.  ModelEditTrace.tla validates        *)
(* histories recorded from the real Model with the same Eff / Obs.         *)
(*                                                                         *)
(* Contract of an edit (from the property):                                *)
(*   add_X(n)     accepted iff n is free in the single name space, != time *)
(*   remove/update/scale/make_*(n)  accepted iff n is an X                 *)
(*   rejected  => nothing changes;  a removed name is free again           *)
(*   plural forms = left-to-right composition of the singular edit,        *)
(*                  stopping at the first rejection                        *)
(***************************************************************************)
EXTENDS Integers, Sequences, FiniteSets, TLC, Json, FnLib, Functions

M == INSTANCE MxlModel WITH Apply <- FApply, VAdd <- FAdd, VMul <- FMul, VZero <- 0

Empty == [n \in {} |-> 0]
EmptyContent ==
    [vars |-> <<>>, init |-> Empty, pars |-> Empty, der |-> Empty, rxn |-> Empty,
     sur |-> Empty, ro |-> Empty, data |-> Empty]

Drop(f, n) == [m \in DOMAIN f \ {n} |-> f[m]]
Put(f, n, v) == [m \in DOMAIN f \cup {n} |-> IF m = n THEN v ELSE f[m]]
DropSeq(s, n) == SelectSeq(s, LAMBDA e : e # n)

(***************************************************************************)
(* The single name space                                                   *)
(***************************************************************************)
SurOutNames(c) == UNION {M!SeqRange(c.sur[s].outs) : s \in DOMAIN c.sur}

Ids(c) ==
    [n \in DOMAIN c.pars \cup M!VarSet(c) \cup DOMAIN c.der \cup DOMAIN c.rxn \cup DOMAIN c.ro
           \cup DOMAIN c.sur \cup SurOutNames(c) \cup DOMAIN c.data |->
        IF n \in DOMAIN c.pars THEN "parameter"
        ELSE IF n \in M!VarSet(c) THEN "variable"
        ELSE IF n \in DOMAIN c.der THEN "derived"
        ELSE IF n \in DOMAIN c.rxn THEN "reaction"
        ELSE IF n \in DOMAIN c.ro THEN "readout"
        ELSE IF n \in DOMAIN c.data THEN "data"
        ELSE "surrogate"]

Free(c, n) == n # "time" /\ n \notin DOMAIN Ids(c)

Acc(c) == [ok |-> TRUE, c |-> c]
Rej(c) == [ok |-> FALSE, c |-> c]

(***************************************************************************)
(* Singular edits                                                          *)
(***************************************************************************)
StripVar(c, n) ==       \* remove variable n from every stoichiometry
    [c EXCEPT
       !.rxn = [r \in DOMAIN c.rxn |-> [c.rxn[r] EXCEPT !.st = Drop(@, n)]],
       !.sur = [s \in DOMAIN c.sur |->
                  [c.sur[s] EXCEPT !.st = [o \in DOMAIN c.sur[s].st |-> Drop(c.sur[s].st[o], n)]]]]

RemoveVar(c, n) ==
    LET d == StripVar(c, n) IN [d EXCEPT !.vars = DropSeq(@, n), !.init = Drop(@, n)]

AddVar(c, n, v) == [c EXCEPT !.vars = Append(@, n), !.init = Put(@, n, v)]

SurFluxOwnerOf(c, f) == CHOOSE s \in DOMAIN c.sur : f \in DOMAIN c.sur[s].st

AddStoich(c, n, st) ==  \* st : [flux name -> integer]; every key is a reaction or a surrogate flux
    [c EXCEPT
       !.rxn = [r \in DOMAIN c.rxn |->
                  IF r \in DOMAIN st THEN [c.rxn[r] EXCEPT !.st = Put(@, n, M!Num(st[r]))] ELSE c.rxn[r]],
       !.sur = [s \in DOMAIN c.sur |->
                  [c.sur[s] EXCEPT !.st = [o \in DOMAIN c.sur[s].st |->
                        IF o \in DOMAIN st THEN Put(c.sur[s].st[o], n, M!Num(st[o])) ELSE c.sur[s].st[o]]]]]

\* the library's first sanity check when it prepares a model for evaluation: every initial assignment, derived
\* quantity, reaction and readout names as many arguments as its function takes (else every query raises
\* ArityMismatchError, whatever else is wrong with the content)
ArityCalls(c) ==
    {[fn |-> c.der[d].fn, args |-> c.der[d].args] : d \in DOMAIN c.der}
    \cup {[fn |-> c.rxn[r].fn, args |-> c.rxn[r].args] : r \in DOMAIN c.rxn}
    \cup {[fn |-> c.ro[r].fn, args |-> c.ro[r].args] : r \in DOMAIN c.ro}
    \cup {[fn |-> c.pars[p].fn, args |-> c.pars[p].args] : p \in M!IAPars(c)}
    \cup {[fn |-> c.init[v].fn, args |-> c.init[v].args] : v \in M!IAVars(c)}
ArityBad(c) == \E cl \in ArityCalls(c) : Len(cl.args) # FnArity[cl.fn]

Eff1(op, c) ==
    CASE op.op = "add_parameter" ->
           IF Free(c, op.n) THEN Acc([c EXCEPT !.pars = Put(@, op.n, op.v)]) ELSE Rej(c)
      [] op.op = "remove_parameter" ->
           IF op.n \in DOMAIN c.pars THEN Acc([c EXCEPT !.pars = Drop(@, op.n)]) ELSE Rej(c)
      [] op.op = "update_parameter" ->
           IF op.n \in DOMAIN c.pars THEN Acc([c EXCEPT !.pars = Put(@, op.n, op.v)]) ELSE Rej(c)
      [] op.op = "scale_parameter" ->
           IF op.n \notin DOMAIN c.pars THEN Rej(c)
           ELSE IF c.pars[op.n].k = "num"
                THEN Acc([c EXCEPT !.pars = Put(@, op.n, M!Num(c.pars[op.n].v * op.f))])
                \* an assignment-defined parameter is scaled from its (frozen) computed value, which
                \* exists only if the model can be evaluated at all
                ELSE IF ArityBad(c) THEN Rej(c)
                ELSE IF M!WellFormed(c)
                     THEN Acc([c EXCEPT !.pars = Put(@, op.n, M!Num(M!InitEnv(c)[op.n] * op.f))])
                     ELSE Rej(c)
      [] op.op = "make_parameter_dynamic" ->
           IF op.n \notin DOMAIN c.pars THEN Rej(c)
           ELSE IF ~(DOMAIN op.st \subseteq DOMAIN c.rxn \cup M!SurFluxes(c)) THEN Rej(c)
           ELSE LET v == IF op.iv.k = "none" THEN c.pars[op.n] ELSE op.iv
                    d == AddVar([c EXCEPT !.pars = Drop(@, op.n)], op.n, v)
                IN Acc(AddStoich(d, op.n, op.st))
      [] op.op = "add_variable" ->
           IF Free(c, op.n) THEN Acc(AddVar(c, op.n, op.v)) ELSE Rej(c)
      [] op.op = "remove_variable" ->
           IF op.n \in M!VarSet(c) THEN Acc(RemoveVar(c, op.n)) ELSE Rej(c)
      [] op.op = "remove_variable_keepst" ->   \* remove_variable(n, remove_stoichiometries=False): the reactions keep
           IF op.n \in M!VarSet(c)               \* addressing the name (the content cannot be evaluated until it is declared again)
           THEN Acc([c EXCEPT !.vars = DropSeq(@, op.n), !.init = Drop(@, op.n)]) ELSE Rej(c)
      [] op.op = "update_variable" ->
           IF op.n \in M!VarSet(c) THEN Acc([c EXCEPT !.init = Put(@, op.n, op.v)]) ELSE Rej(c)
      [] op.op = "make_variable_static" ->
           IF op.n \notin M!VarSet(c) THEN Rej(c)
           ELSE LET v == IF op.iv.k = "none" THEN c.init[op.n] ELSE op.iv
                    d == RemoveVar(c, op.n)
                IN Acc([d EXCEPT !.pars = Put(@, op.n, v)])
      [] op.op = "add_derived" ->
           IF Free(c, op.n) THEN Acc([c EXCEPT !.der = Put(@, op.n, op.call)]) ELSE Rej(c)
      [] op.op = "update_derived" ->      \* mode "both" | "fn" (function only) | "args" (arguments only)
           IF op.n \notin DOMAIN c.der THEN Rej(c)
           ELSE LET old == c.der[op.n]
                    cl == [fn   |-> IF op.mode \in {"both", "fn"} THEN op.call.fn ELSE old.fn,
                           args |-> IF op.mode \in {"both", "args"} THEN op.call.args ELSE old.args]
                IN Acc([c EXCEPT !.der = Put(@, op.n, cl)])
      [] op.op = "remove_derived" ->
           IF op.n \in DOMAIN c.der THEN Acc([c EXCEPT !.der = Drop(@, op.n)]) ELSE Rej(c)
      [] op.op = "add_reaction" ->
           IF Free(c, op.n)
           THEN Acc([c EXCEPT !.rxn = Put(@, op.n, [fn |-> op.call.fn, args |-> op.call.args, st |-> op.st])])
           ELSE Rej(c)
      [] op.op = "update_reaction" ->      \* call / st may be "none" = keep
           IF op.n \notin DOMAIN c.rxn THEN Rej(c)
           ELSE LET old == c.rxn[op.n]
                    cl == IF op.call.fn = "none" THEN [fn |-> old.fn, args |-> old.args]
                          ELSE [fn   |-> IF op.mode \in {"both", "fn"} THEN op.call.fn ELSE old.fn,
                                args |-> IF op.mode \in {"both", "args"} THEN op.call.args ELSE old.args]
                    st == IF op.keepst THEN old.st ELSE op.st
                IN Acc([c EXCEPT !.rxn = Put(@, op.n, [fn |-> cl.fn, args |-> cl.args, st |-> st])])
      [] op.op = "remove_reaction" ->
           IF op.n \in DOMAIN c.rxn THEN Acc([c EXCEPT !.rxn = Drop(@, op.n)]) ELSE Rej(c)
      [] op.op = "add_readout" ->
           IF Free(c, op.n) THEN Acc([c EXCEPT !.ro = Put(@, op.n, op.call)]) ELSE Rej(c)
      [] op.op = "remove_readout" ->
           IF op.n \in DOMAIN c.ro THEN Acc([c EXCEPT !.ro = Drop(@, op.n)]) ELSE Rej(c)
      [] op.op = "add_surrogate" ->
           LET outs == M!SeqRange(op.sur.outs) IN
           IF /\ Free(c, op.n) /\ \A o \in outs : Free(c, o)
              /\ op.n \notin outs /\ Cardinality(outs) = Len(op.sur.outs)
           THEN Acc([c EXCEPT !.sur = Put(@, op.n, op.sur)]) ELSE Rej(c)
      [] op.op = "update_surrogate" ->     \* new args / outputs+stoichiometries; "keep" flags
           IF op.n \notin DOMAIN c.sur THEN Rej(c)
           ELSE LET old == c.sur[op.n]
                    without == [c EXCEPT !.sur = Drop(@, op.n)]
                    outs == IF op.keepouts THEN old.outs ELSE op.outs
                    oset == M!SeqRange(outs)
                    new == [fns |-> old.fns,
                            args |-> IF op.keepargs THEN old.args ELSE op.args,
                            outs |-> outs,
                            st |-> IF op.keepst THEN old.st ELSE op.st]
                IN IF /\ \A o \in oset : Free(without, o) /\ o # op.n
                      /\ Cardinality(oset) = Len(outs)
                   THEN Acc([c EXCEPT !.sur = Put(@, op.n, new)]) ELSE Rej(c)
      [] op.op = "replace_surrogate" ->    \* update_surrogate(n, <another surrogate object>), no further keywords
           IF op.n \notin DOMAIN c.sur THEN Rej(c)
           ELSE LET without == [c EXCEPT !.sur = Drop(@, op.n)]
                    oset == M!SeqRange(op.sur.outs)
                IN IF /\ \A o \in oset : Free(without, o) /\ o # op.n
                      /\ Cardinality(oset) = Len(op.sur.outs)
                   THEN Acc([c EXCEPT !.sur = Put(@, op.n, op.sur)]) ELSE Rej(c)
      [] op.op = "remove_surrogate" ->
           IF op.n \in DOMAIN c.sur THEN Acc([c EXCEPT !.sur = Drop(@, op.n)]) ELSE Rej(c)
      [] op.op = "add_data" ->
           IF Free(c, op.n) THEN Acc([c EXCEPT !.data = Put(@, op.n, op.d)]) ELSE Rej(c)
      [] op.op = "update_data" ->
           IF op.n \in DOMAIN c.data THEN Acc([c EXCEPT !.data = Put(@, op.n, op.d)]) ELSE Rej(c)
      [] op.op = "remove_data" ->
           IF op.n \in DOMAIN c.data THEN Acc([c EXCEPT !.data = Drop(@, op.n)]) ELSE Rej(c)

\* plural forms: fold of the singular edit, stopping at the first rejection (its earlier
\* members stay applied: the property demands all-or-nothing of each singular edit only)
RECURSIVE FoldOps(_, _, _)
FoldOps(ops, j, c) ==
    IF j > Len(ops) THEN Acc(c)
    ELSE LET r == Eff1(ops[j], c)
         IN IF r.ok THEN FoldOps(ops, j + 1, r.c) ELSE [ok |-> FALSE, c |-> r.c]

Eff(op, c) == IF op.op = "plural" THEN FoldOps(op.ops, 1, c) ELSE Eff1(op, c)

(***************************************************************************)
(* What every query must answer: a function of the content alone           *)
(***************************************************************************)
CoefArgs(c) ==
    UNION {UNION {IF c.rxn[r].st[v].k = "calc" THEN M!SeqRange(c.rxn[r].st[v].args) ELSE {}
                  : v \in DOMAIN c.rxn[r].st} : r \in DOMAIN c.rxn}
StoichTargets(c) ==
    UNION {DOMAIN c.rxn[r].st : r \in DOMAIN c.rxn}
    \cup UNION {UNION {DOMAIN c.sur[s].st[o] : o \in DOMAIN c.sur[s].st} : s \in DOMAIN c.sur}

\* the content can be evaluated as a whole: dependency graph fine, every coefficient resolvable,
\* every stoichiometry addresses a variable, surrogate fluxes are surrogate outputs
\* data sets are series, not numbers: only dsum may (and must) take one
AllCalls(c) ==
    {[fn |-> c.der[d].fn, args |-> c.der[d].args] : d \in DOMAIN c.der}
    \cup {[fn |-> c.rxn[r].fn, args |-> c.rxn[r].args] : r \in DOMAIN c.rxn}
    \cup {[fn |-> c.pars[p].fn, args |-> c.pars[p].args] : p \in M!IAPars(c)}
    \cup {[fn |-> c.init[v].fn, args |-> c.init[v].args] : v \in M!IAVars(c)}
    \cup UNION {{[fn |-> c.sur[s].fns[j], args |-> c.sur[s].args] : j \in DOMAIN c.sur[s].fns} : s \in DOMAIN c.sur}
DataOK(c) ==
    \A cl \in AllCalls(c) :
        IF cl.fn = "dsum" THEN M!SeqRange(cl.args) \subseteq DOMAIN c.data
        ELSE M!SeqRange(cl.args) \cap DOMAIN c.data = {}

Evaluable(c) ==
    /\ ~ArityBad(c)
    /\ M!WellFormed(c)
    /\ DataOK(c)
    /\ CoefArgs(c) \cap DOMAIN c.data = {}
    /\ CoefArgs(c) \subseteq M!Reported(c)
    /\ StoichTargets(c) \subseteq M!VarSet(c)
    /\ \A s \in DOMAIN c.sur : DOMAIN c.sur[s].st \subseteq M!SeqRange(c.sur[s].outs)

\* the stoichiometry table at the declared initial state, non-zero entries only
StoichNZ(c) ==
    LET S == M!Stoichiometry(c, M!InitialValues(c), 0)
        rows == [v \in DOMAIN S |-> [f \in {g \in DOMAIN S[v] : S[v][g] # 0} |-> S[v][f]]]
    IN [v \in {w \in DOMAIN rows : DOMAIN rows[w] # {}} |-> rows[v]]

Obs(c) ==
    [ids  |-> Ids(c),
     vars |-> c.vars,
     pars |-> DOMAIN c.pars, der |-> DOMAIN c.der, rxn |-> DOMAIN c.rxn, ro |-> DOMAIN c.ro,
     sur  |-> DOMAIN c.sur, data |-> DOMAIN c.data,
     q    |-> IF Evaluable(c)
              THEN [kind |-> {"ok"},
                    args |-> [n \in M!Reported(c) |-> M!InitEnv(c)[n]],
                    rhs  |-> M!Rhs(c, M!InitialValues(c), 0),
                    stoich |-> StoichNZ(c),
                    init |-> M!InitialValues(c),
                    parvals |-> M!ParameterValues(c),
                    static |-> M!Static(c)]
              ELSE [kind |-> IF ArityBad(c) THEN {"arity"}
                             ELSE IF M!WellFormed(c) THEN {"error"} ELSE M!OutcomeKinds(c)]]

\* scaling an assignment-defined parameter reads its computed value; when the content cannot be
\* evaluated for reasons outside the dependency graph (a non-dsum function applied to a data set, ...)
\* nothing is promised about that value, so such a call is neither generated nor judged
Unjudgeable(op, c) ==
    /\ op.op = "scale_parameter"
    /\ op.n \in DOMAIN c.pars
    /\ c.pars[op.n].k = "ia"
    /\ M!WellFormed(c) /\ ~Evaluable(c)

(***************************************************************************)
(* Generator of histories                                                  *)
(***************************************************************************)
CONSTANTS
    Depth,          \* length of a history
    Seeds,          \* set of seed identifiers (see SeedContent)
    OpSet,          \* "all" | "core": which part of the mutator alphabet
    EmitOn

VARIABLES c, hist, seed, fin
vars == <<c, hist, seed, fin>>

Num(v) == M!Num(v)
IAv(f, a) == [k |-> "ia", fn |-> f, args |-> a]
Call(f, a) == [fn |-> f, args |-> a]
None == [k |-> "none"]
NoCall == [fn |-> "none", args |-> <<>>]

Names  == {"a", "b", "c"}        \* the name universe of generated histories
NamesT == Names \cup {"time"}
First  == "a"
Other(n) == IF n = "a" THEN "b" ELSE "a"

ValueMenu(n) == {Num(5), Num(3), Num(0), IAv("inc", <<Other(n)>>), IAv("two", <<>>)}   \* 0 is a value like any other
CallMenu(n) ==
    {Call("two", <<>>)} \cup {Call("inc", <<a>>) : a \in NamesT \ {n}}
    \cup {Call("mul", <<a, b>>) : a \in Names \ {n}, b \in NamesT \ {n}}
    \cup {Call("inc", <<n>>)}                   \* self-reference: circular
    \cup {Call("inc", <<Other(n), Other(n)>>)}  \* one argument too many: arity mismatch

\* partial updates (function only / arguments only) keep the arity of the component as it is now
SameArity(k) == CASE k = 0 -> {"one", "two"} [] k = 1 -> {"inc", "dbl", "neg"} [] k = 2 -> {"mul", "add"} [] OTHER -> {"mad"}
PartialMenu(tab, n) ==
    IF n \in DOMAIN tab
    THEN LET k == Len(tab[n].args)
         IN {Call(f, a) : f \in SameArity(k) \ {tab[n].fn}, a \in {[j \in 1..k |-> Other(n)], [j \in 1..k |-> IF j = 1 THEN "time" ELSE Other(n)]}}
            \* a function-only / arguments-only update that changes the arity of one side only
            \cup {Call(IF k = 2 THEN "inc" ELSE "mul", [j \in 1..(IF k = 2 THEN 1 ELSE 2) |-> Other(n)])}
    ELSE {Call("inc", <<Other(n)>>)}

VarsOf(cc) == M!VarSet(cc)
StMenu(cc) ==
    {Empty} \cup {(v :> Num(0 - 1)) : v \in VarsOf(cc)}
    \cup {(pr[1] :> Num(2)) @@ (pr[2] :> Num(0 - 1)) :
              pr \in {q \in VarsOf(cc) \X VarsOf(cc) : q[1] # q[2]}}
    \cup {(v :> [k |-> "calc", fn |-> "id", args |-> <<p>>]) : v \in VarsOf(cc), p \in DOMAIN cc.pars}
    \cup {(v :> [k |-> "calc", fn |-> "neg", args |-> <<v>>]) : v \in VarsOf(cc)}       \* state-dependent
    \cup {(v :> [k |-> "calc", fn |-> "inc", args |-> <<"time">>]) : v \in VarsOf(cc)}  \* time-dependent

\* a stoichiometry may address a name that is not (yet, or no longer) a variable: the library accepts the
\* declaration and cannot evaluate the model until the variable exists
DangleMenu(cc) == {(x :> Num(1)) : x \in Names \ VarsOf(cc)}

SurMenu(cc) ==
    LET W == VarsOf(cc) IN
    {[fns |-> <<"inc", "dbl">>, args |-> <<a>>, outs |-> o, st |-> Empty] :
        a \in NamesT, o \in {<<"o1", "o2">>, <<"o1", First>>, <<"o2", "o2">>}}
    \cup {[fns |-> <<"inc", "dbl">>, args |-> <<a>>, outs |-> <<"o1", "o2">>, st |-> ("o1" :> (v :> Num(1)))] :
        a \in NamesT, v \in W}

\* the variable-only alphabet (OpSet = "vars"): deep histories around declared / removed / dangling variables
VarOps(cc) ==
    UNION {
      {[op |-> "add_variable", n |-> n, v |-> v] : v \in {Num(5), IAv("inc", <<Other(n)>>)}}
      \cup {[op |-> "remove_variable", n |-> n], [op |-> "remove_variable_keepst", n |-> n],
            [op |-> "update_variable", n |-> n, v |-> Num(3)]}
      \cup {[op |-> "make_variable_static", n |-> n, iv |-> iv] : iv \in {None, Num(4)}}
      : n \in Names}

SingularOps(cc) ==
    IF OpSet = "vars" THEN VarOps(cc) ELSE
    UNION {
      {[op |-> "add_parameter", n |-> n, v |-> v] : v \in ValueMenu(n)}
      \cup {[op |-> "remove_parameter", n |-> n]}
      \cup {[op |-> "update_parameter", n |-> n, v |-> v] : v \in ValueMenu(n)}
      \cup (IF Unjudgeable([op |-> "scale_parameter", n |-> n, f |-> 2], cc) THEN {}
            ELSE {[op |-> "scale_parameter", n |-> n, f |-> 2], [op |-> "scale_parameter", n |-> n, f |-> 0]})
      \cup {[op |-> "make_parameter_dynamic", n |-> n, iv |-> iv, st |-> st] :
               iv \in {None, Num(4), Num(0)},
               st \in {Empty} \cup {(r :> 2) : r \in DOMAIN cc.rxn \cup M!SurFluxes(cc) \cup {"nosuch"}}}
      \cup {[op |-> "add_variable", n |-> n, v |-> v] : v \in ValueMenu(n)}
      \cup {[op |-> "remove_variable", n |-> n], [op |-> "remove_variable_keepst", n |-> n]}
      \cup {[op |-> "update_variable", n |-> n, v |-> v] : v \in ValueMenu(n)}
      \cup {[op |-> "make_variable_static", n |-> n, iv |-> iv] : iv \in {None, Num(4), Num(0)}}
      \cup {[op |-> "add_derived", n |-> n, call |-> cl] : cl \in CallMenu(n)}
      \cup {[op |-> "update_derived", n |-> n, call |-> cl, mode |-> "both"] : cl \in CallMenu(n)}
      \cup {[op |-> "update_derived", n |-> n, call |-> cl, mode |-> md] : cl \in PartialMenu(cc.der, n), md \in {"fn", "args"}}
      \cup {[op |-> "remove_derived", n |-> n]}
      \cup {[op |-> "add_reaction", n |-> n, call |-> cl, st |-> st] : cl \in CallMenu(n), st \in StMenu(cc)}
      \cup {[op |-> "add_reaction", n |-> n, call |-> cl, st |-> st, dangle |-> TRUE] :
               cl \in {Call("two", <<>>), Call("inc", <<Other(n)>>)}, st \in DangleMenu(cc)}
      \cup {[op |-> "update_reaction", n |-> n, call |-> cl, mode |-> "both", keepst |-> TRUE, st |-> Empty] :
               cl \in {NoCall, Call("two", <<>>), Call("inc", <<Other(n)>>)}}
      \cup {[op |-> "update_reaction", n |-> n, call |-> cl, mode |-> md, keepst |-> TRUE, st |-> Empty] :
               cl \in PartialMenu(cc.rxn, n), md \in {"fn", "args"}}
      \cup {[op |-> "update_reaction", n |-> n, call |-> cl, mode |-> "both", keepst |-> FALSE, st |-> st] :
               cl \in {NoCall, Call("inc", <<Other(n)>>)}, st \in StMenu(cc)}
      \cup {[op |-> "remove_reaction", n |-> n]}
      \cup (IF OpSet = "all" THEN
              {[op |-> "add_readout", n |-> n, call |-> cl] :
                   cl \in {Call("two", <<>>), Call("inc", <<Other(n)>>), Call("mul", <<Other(n)>>)}}
              \cup {[op |-> "remove_readout", n |-> n]}
              \cup {[op |-> "add_surrogate", n |-> n, sur |-> s] : s \in SurMenu(cc)}
              \cup {[op |-> "update_surrogate", n |-> n, keepargs |-> FALSE, args |-> <<a>>,
                     keepouts |-> TRUE, outs |-> <<"o1", "o2">>, keepst |-> TRUE, st |-> Empty] : a \in NamesT}
              \cup {[op |-> "update_surrogate", n |-> n, keepargs |-> TRUE, args |-> <<"time">>,
                     keepouts |-> FALSE, outs |-> o, keepst |-> FALSE, st |-> Empty] :
                       o \in {<<"o2", "o1">>, <<"o1", First>>, <<"p1", "p2">>}}
              \cup {[op |-> "update_surrogate", n |-> n, keepargs |-> TRUE, args |-> <<"time">>,
                     keepouts |-> TRUE, outs |-> <<"o1", "o2">>, keepst |-> FALSE, st |-> st] :
                       st \in {Empty} \cup {("o1" :> (v :> Num(0 - 3))) : v \in VarsOf(cc)}}
              \cup {[op |-> "replace_surrogate", n |-> n, sur |-> sr] :
                       sr \in {[fns |-> <<"dbl", "inc">>, args |-> <<a>>, outs |-> o, st |-> Empty] :
                                 a \in {First, "time"},
                                 o \in {<<"o1", "o2">>, <<"o2", "o1">>, <<"o1", "p1">>, <<"o1", First>>, <<"p1", "p2">>}}}
              \cup {[op |-> "remove_surrogate", n |-> n]}
              \cup {[op |-> "add_data", n |-> n, d |-> 13]}
              \cup {[op |-> "update_data", n |-> n, d |-> 17]}
              \cup {[op |-> "remove_data", n |-> n]}
            ELSE {})
      : n \in NamesT}

PluralOps(cc) ==
    LET a == First  b == Other(First) IN
    IF OpSet = "vars" THEN {} ELSE
    {o \in {[op |-> "plural", name |-> "add_parameters",
      ops |-> <<[op |-> "add_parameter", n |-> a, v |-> Num(5)], [op |-> "add_parameter", n |-> b, v |-> Num(3)]>>],
     [op |-> "plural", name |-> "update_parameters",
      ops |-> <<[op |-> "update_parameter", n |-> a, v |-> Num(3)], [op |-> "update_parameter", n |-> b, v |-> Num(5)]>>],
     \* the same plural forms with the second name alone / first (in most seed contents the first name is a variable, so
     \* the two-element forms above stop at their first member)
     [op |-> "plural", name |-> "update_parameters", ops |-> <<[op |-> "update_parameter", n |-> b, v |-> Num(5)]>>],
     [op |-> "plural", name |-> "update_parameters",
      ops |-> <<[op |-> "update_parameter", n |-> b, v |-> Num(0)], [op |-> "update_parameter", n |-> a, v |-> Num(5)]>>],
     [op |-> "plural", name |-> "scale_parameters", ops |-> <<[op |-> "scale_parameter", n |-> b, f |-> 3]>>],
     [op |-> "plural", name |-> "update_variables", ops |-> <<[op |-> "update_variable", n |-> a, v |-> Num(5)]>>],
     [op |-> "plural", name |-> "remove_parameters",
      ops |-> <<[op |-> "remove_parameter", n |-> a], [op |-> "remove_parameter", n |-> b]>>],
     [op |-> "plural", name |-> "scale_parameters",
      ops |-> <<[op |-> "scale_parameter", n |-> a, f |-> 2], [op |-> "scale_parameter", n |-> b, f |-> 3]>>],
     [op |-> "plural", name |-> "add_variables",
      ops |-> <<[op |-> "add_variable", n |-> b, v |-> Num(5)], [op |-> "add_variable", n |-> a, v |-> Num(3)]>>],
     [op |-> "plural", name |-> "update_variables",
      ops |-> <<[op |-> "update_variable", n |-> a, v |-> Num(3)], [op |-> "update_variable", n |-> b, v |-> Num(5)]>>],
     [op |-> "plural", name |-> "remove_variables",
      ops |-> <<[op |-> "remove_variable", n |-> b], [op |-> "remove_variable", n |-> a]>>]}
     : \A j \in DOMAIN o.ops : ~Unjudgeable(o.ops[j], cc)}

Ops(cc) == SingularOps(cc) \cup PluralOps(cc)

\* representative seed contents (each mutator is then applied to each of them)
SeedContent(s) ==
    LET a == First  b == Other(First)
        ab == {a, b}
        cN == "c"
        base == [EmptyContent EXCEPT !.vars = <<a>>, !.init = (a :> Num(2)), !.pars = (b :> Num(7))]
    IN CASE s = "empty" -> EmptyContent
         [] s = "vp"    -> base
         [] s = "vpr"   -> [base EXCEPT !.rxn = (cN :> [fn |-> "mul", args |-> <<a, b>>, st |-> (a :> Num(0 - 1))])]
         [] s = "vpd"   -> [base EXCEPT !.der = (cN :> Call("inc", <<b>>))]
         [] s = "vpdyn" -> [base EXCEPT !.der = (cN :> Call("mul", <<a, b>>))]
         [] s = "iap"   -> [base EXCEPT !.pars = (b :> Num(7)) @@ (cN :> IAv("inc", <<a>>))]
         [] s = "iav"   -> [base EXCEPT !.vars = <<a, cN>>, !.init = (a :> Num(2)) @@ (cN :> IAv("inc", <<b>>))]
         [] s = "vv"    -> [base EXCEPT !.vars = <<a, cN>>, !.init = (a :> Num(2)) @@ (cN :> Num(3)),
                                        !.rxn = ("r" :> [fn |-> "mul", args |-> <<a, b>>,
                                                         st |-> (a :> Num(0 - 1)) @@ (cN :> Num(1))])]
         [] s = "named" -> [base EXCEPT !.rxn = (cN :> [fn |-> "inc", args |-> <<a>>,
                                                        st |-> (a :> [k |-> "calc", fn |-> "id", args |-> <<b>>])])]
         [] s = "dyn"   -> [base EXCEPT !.vars = <<a, cN>>, !.init = (a :> Num(2)) @@ (cN :> Num(3)),
                                        !.rxn = ("r" :> [fn |-> "mul", args |-> <<a, b>>,
                                                         st |-> (a :> [k |-> "calc", fn |-> "neg", args |-> <<cN>>])
                                                                @@ (cN :> Num(1))])]
         [] s = "sur"   -> [base EXCEPT !.sur = (cN :> [fns |-> <<"inc", "dbl">>, args |-> <<a>>, outs |-> <<"o1", "o2">>,
                                                        st |-> ("o1" :> (a :> Num(1)))])]
         [] s = "surd"  -> [base EXCEPT !.sur = ("s" :> [fns |-> <<"inc", "dbl">>, args |-> <<b>>, outs |-> <<"o1", "o2">>,
                                                         st |-> Empty]),
                                        !.der = (cN :> Call("inc", <<"o2">>))]
         [] s = "data"  -> [base EXCEPT !.data = (cN :> 13), !.der = ("d" :> Call("dsum", <<cN>>))]
         [] s = "dataia" -> [base EXCEPT !.data = (cN :> 13),
                                         !.pars = (b :> Num(7)) @@ ("d" :> IAv("dsum", <<cN>>)),
                                         !.der = ("e" :> Call("inc", <<"d">>))]
         [] s = "dangle" -> [base EXCEPT !.rxn = ("r" :> [fn |-> "mul", args |-> <<a, b>>,      \* c is addressed, not declared
                                                           st |-> (a :> Num(0 - 1)) @@ (cN :> Num(1))])]
         [] s = "ro"    -> [base EXCEPT !.ro = (cN :> Call("inc", <<a>>))]

Init ==
    /\ seed \in Seeds
    /\ c = SeedContent(seed)
    /\ hist = <<>>
    /\ fin = FALSE

Step ==
    /\ Len(hist) < Depth
    /\ \E op \in Ops(c) :
          LET r == Eff(op, c)
          IN /\ c' = r.c
             /\ hist' = Append(hist, op)
    /\ UNCHANGED <<seed, fin>>

\* a separate last step, so that in -simulate mode (invariants are evaluated on every generated
\* successor) exactly one history per behaviour is emitted
Finish == Len(hist) = Depth /\ ~fin /\ fin' = TRUE /\ UNCHANGED <<c, hist, seed>>

Next == Step \/ Finish

Done == fin

(***************************************************************************)
(* Properties of the contract itself (TLC)                                 *)
(***************************************************************************)
\* every stoichiometry addresses a variable and surrogate fluxes are outputs, whatever the history
\* ... unless the caller asked for it (a removal keeping the stoichiometries, a reaction declared before its variable)
Tame == /\ seed # "dangle"
        /\ \A j \in DOMAIN hist : hist[j].op # "remove_variable_keepst" /\ "dangle" \notin DOMAIN hist[j]
StoichClosed == Tame => StoichTargets(c) \subseteq M!VarSet(c)
\* the name space is exactly the union of the containers, no name in two of them
OneNameSpace ==
    LET sets == <<DOMAIN c.pars, M!VarSet(c), DOMAIN c.der, DOMAIN c.rxn, DOMAIN c.ro, DOMAIN c.data,
                  DOMAIN c.sur \cup SurOutNames(c)>>
    IN /\ \A x, y \in DOMAIN sets : x # y => sets[x] \cap sets[y] = {}
       /\ "time" \notin DOMAIN Ids(c)
       /\ Len(c.vars) = Cardinality(M!VarSet(c))
\* a rejected edit changes nothing; an accepted removal frees the name (action property)
RejectedUnchanged ==
    [][\A op \in Ops(c) : LET r == Eff(op, c) IN
          /\ (~r.ok /\ op.op # "plural") => r.c = c
          /\ (r.ok /\ op.op \in {"remove_parameter", "remove_variable", "remove_variable_keepst", "remove_derived", "remove_reaction",
                                 "remove_readout", "remove_data", "remove_surrogate"}) => Free(r.c, op.n)]_vars

\* the history with the specification's predictions: hist holds the ops only (cheap successors),
\* acceptance and observations are recomputed at emission
RECURSIVE Predict(_, _, _)
Predict(cc, ops, j) ==
    IF j > Len(ops) THEN <<>>
    ELSE LET r == Eff(ops[j], cc)
         IN <<[op |-> ops[j], ok |-> r.ok, obs |-> Obs(r.c)]>> \o Predict(r.c, ops, j + 1)

Emit == (EmitOn /\ Done) => PrintT("@J@" \o ToJson([seed |-> seed, start |-> SeedContent(seed),
                                                    startobs |-> Obs(SeedContent(seed)),
                                                    hist |-> Predict(SeedContent(seed), hist, 1)]) \o "@E@")
=============================================================================
