\* E02 mc (thorough): every pair with |h1| <= 1, |h2| <= 2 (chain and fork) over the menu DOps; laws of Diff / SoftEq
CONSTANTS
    Depth = 0
    Seeds = {"full", "sur"}
    OpSet = "all"
    EmitOn = FALSE
    Variant = "doc"
    L1 = 1
    L2 = 2
    Modes = {"chain", "fork"}
    Exact = FALSE
    Heavy = {}
INIT DInit
NEXT DNext
INVARIANT SelfEmpty
INVARIANT TwoWayEmptyIffAgree
INVARIANT OneSided
INVARIANT Swapped
INVARIANT SoftEqLaws
INVARIANT SoftLibGap
INVARIANT SingleEditLaw
CHECK_DEADLOCK FALSE
