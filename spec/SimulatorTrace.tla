--------------------------- MODULE SimulatorTrace ---------------------------
(***************************************************************************)
(* code -> spec for C04 and C14: batched validation of recorded call       *)
(* sequences of the real mxlpy.Simulator.  A driver (mbt/simkit.py) logs,  *)
(* per call: the operation with its arguments (integer ticks, base 0),     *)
(* whether it raised, and the resulting segments (index in ticks and the   *)
(* recorded parameter values per segment; once the history has read the   *)
(* computed views, also their index).  Each event must be what the         *)
(* SAME effect operator Eff of Simulator.tla yields from the state reached *)
(* so far; the steady-state time stamp is bound from the log and only has  *)
(* to be later than the time reached.  One line per state is printed:      *)
(* the trace id and how many events have been matched; a trace is accepted *)
(* when all its events were matched (the final history is printed so that  *)
(* the harness can compare the recorded values with the closed form).      *)
(***************************************************************************)
EXTENDS Simulator, IOUtils

Traces == JsonDeserialize(IOEnv.TRACE_FILE)

VARIABLES tid, l

\* logged times are single integers: 1000 * ticks + epsilons
Tm(v) == [b |-> 0, o |-> v \div 1000, e |-> v % 1000]
Tms(s) == [j \in 1..Len(s) |-> Tm(s[j])]

ToOp(e) ==
    CASE e.k = "sim"   -> OpSim(Tm(e.te), e.n)
      [] e.k = "tc"    -> OpTc(Tms(e.pts))
      [] e.k = "proto" -> OpProto(e.steps, e.n)
      [] e.k = "ptc"   -> IF e.rel THEN OpPtcRel(e.steps, e.pts) ELSE OpPtcAbs(e.steps, Tms(e.pts))
      [] e.k = "upd"   -> OpUpd(e.name, e.v)
      [] e.k = "scale" -> OpScale(e.name, e.f)
      [] e.k = "ov"    -> OpOv(e.v)
      [] e.k = "ss"    -> OpSs(Tm(e.tau))
      [] e.k = "clear" -> OpClear
      [] e.k = "read"  -> OpRead

Ticks(ts) == [j \in 1..Len(ts) |-> 1000 * ts[j].o + ts[j].e]

\* the starting row of the very first segment is not demanded by the statement
SegMatches(g, o, first) ==
    /\ g.p.kin = o.kin /\ g.p.kk = o.kk
    /\ \/ Ticks(g.times) = o.times
       \/ first /\ g.times[1] = g.t0 /\ Len(g.times) > 1 /\ Tail(Ticks(g.times)) = o.times
SegsMatch(segs, obs) ==
    /\ Len(segs) = Len(obs)
    /\ \A i \in 1..Len(segs) : SegMatches(segs[i], obs[i], i = 1)

\* when the recorded history has read the computed views (variables / fluxes / args tables), their index
\* must be the whole accumulated axis
AllTicks(segs) == FlattenSeq([i \in 1..Len(segs) |-> Ticks(segs[i].times)])
ViewsMatch(segs, e) ==
    e.vread => \/ e.views = AllTicks(segs)
               \/ segs # <<>> /\ segs[1].times[1] = segs[1].t0 /\ Len(segs[1].times) > 1 /\ e.views = Tail(AllTicks(segs))

TInit == /\ tid \in 1..Len(Traces)
         /\ l = 1
         /\ st = [Fresh EXCEPT !.p = P(Traces[tid].p0.kin, Traces[tid].p0.kk)]   \* the model's values at construction
         /\ h = <<>>

TStep == /\ l <= Len(Traces[tid].ev)
         /\ LET e == Traces[tid].ev[l]
                r == Eff(ToOp(e.op), st)
            IN /\ r.legal
               /\ r.raised = e.raised
               /\ SegsMatch(r.st.segs, e.segs)
               /\ ViewsMatch(r.st.segs, e)
               /\ (e.err => r.st.segs = <<>>)          \* get_result() may only be a failure value when there is no segment
               /\ st' = r.st
         /\ l' = l + 1
         /\ UNCHANGED <<tid, h>>

Progress ==
    PrintT("@J@" \o ToJson([id |-> tid, matched |-> l - 1, done |-> l > Len(Traces[tid].ev),
                             st |-> IF l > Len(Traces[tid].ev) THEN st ELSE Fresh]) \o "@E@")
=============================================================================
