---------------------------- MODULE ResultViews ----------------------------
(***************************************************************************)
(* C10 -- the views of a simulation result as pure operators.              *)
(*                                                                         *)
(* A result is a sequence of SEGMENTS; a segment carries the parameter     *)
(* values that were in force while it was integrated and its rows (time,   *)
(* integer state).  Every view is a function of the result alone:          *)
(* the value reported for a row is the model's value (MxlModel semantics   *)
(* over the integer function library FnLib) at that row's state and time   *)
(* under THE ROW'S SEGMENT's parameter values.                             *)
(*                                                                         *)
(*   res = [variant, segs : Seq([pars : [Name -> Int],                     *)
(*                               rows : Seq([t : Int, y : [Var -> Int]])]),*)
(*          fscalar : Int, fseg : Seq(Int) (one per segment),              *)
(*          frow : Seq(Int) (one per row of the whole result)]             *)
(*   op  = [view, flags : SUBSET Group, v : Var, scaled, concat, norm]     *)
(*                                                                         *)
(* An answer always has the shape Seq(Seq(row)), row = [t, d, v] where v   *)
(* maps the reported names to integer NUMERATORS and d is the row's        *)
(* divisor (normalisation factor), i.e. the reported number is v[n] / d.   *)
(* A per-segment answer has one inner sequence per segment, a concatenated *)
(* answer (and new_y0) exactly one.                                        *)
(*                                                                         *)
(* No variables here: ResultViewsMC (model checking + scenario emission)   *)
(* and ResultViewsTrace (code -> spec) both build on these operators.      *)
(***************************************************************************)
EXTENDS Integers, Sequences, FiniteSets, FiniteSetsExt, Functions, TLC, FnLib

M == INSTANCE MxlModel WITH Apply <- FApply, VAdd <- FAdd, VMul <- FMul, VZero <- 0

Calc(f, a) == [k |-> "calc", fn |-> f, args |-> a]
NoFn == [n \in {} |-> 0]

(***************************************************************************)
(* The model family: two variables, two parameters, a derived parameter    *)
(* dp = 2p, a derived variable d1 = x + q, a readout ro = d1 * dp, two     *)
(* reactions.  The variants differ in the stoichiometric coefficients:     *)
(*   par   : computed from parameters (named q, named derived parameter    *)
(*           dp, and -p) -- they change from segment to segment            *)
(*   state : x is produced by r2 with coefficient time * y + p (state- and  *)
(*           time-dependent); d1 = x * time + q depends on time as well    *)
(*   sur   : as par's r2, plus a two-output surrogate (one flux s1         *)
(*           producing y with the parameter-computed coefficient 2p --     *)
(*           the only computed coefficient of y; one surrogate variable s2)*)
(*   lin   : state-independent rates (the exact flow is linear in time:    *)
(*           used to bind the Simulator path, see SimResult)               *)
(*   linia : lin with the parameter p DEFINED BY AN ASSIGNMENT from the    *)
(*           declared initial value of x and the parameter q; a segment's  *)
(*           "parameters in force" contain its resolved value (or the      *)
(*           number it was overridden with), see ResolveSteps              *)
(***************************************************************************)
Variants == {"par", "state", "sur", "lin", "linia"}
IsLin(variant) == variant \in {"lin", "linia"}

Content(variant) ==
    [vars |-> <<"x", "y">>,
     init |-> [v \in {"x", "y"} |-> M!Num(IF v = "x" THEN 2 ELSE 3)],
     pars |-> [n \in {"p", "q"} |->
                 IF n = "p" /\ variant = "linia"
                 THEN [k |-> "ia", fn |-> "add", args |-> <<"x", "q">>]   \* assignment-defined: p = x(0) + q
                 ELSE M!Num(IF n = "p" THEN 7 ELSE 11)],
     der  |-> [n \in {"dp", "d1"} |->
                 IF n = "dp" THEN [fn |-> "dbl", args |-> <<"p">>]
                 ELSE IF variant = "state" THEN [fn |-> "mad", args |-> <<"x", "time", "q">>]
                 ELSE [fn |-> "add", args |-> <<"x", "q">>]],
     rxn  |-> [n \in {"r1", "r2"} |->
                 IF n = "r1"
                 THEN [fn   |-> IF IsLin(variant) THEN "id" ELSE "mul",
                       args |-> IF IsLin(variant) THEN <<"p">> ELSE <<"p", "x">>,
                       st   |-> ("x" :> M!Num(0 - 1)) @@
                                ("y" :> IF variant = "par" THEN Calc("id", <<"dp">>) ELSE M!Num(2))]
                 ELSE [fn   |-> IF IsLin(variant) THEN "two" ELSE "add",
                       args |-> IF IsLin(variant) THEN <<>> ELSE <<"d1", "y">>,
                       st   |-> ("y" :> IF variant = "par" THEN Calc("neg", <<"p">>) ELSE M!Num(0 - 1)) @@
                                ("x" :> IF variant = "state" THEN Calc("mad", <<"time", "y", "p">>)
                                                             ELSE Calc("id", <<"q">>))]],
     sur  |-> IF variant = "sur"
              THEN ("s" :> [fns |-> <<"add", "sub">>, args |-> <<"x", "p">>, outs |-> <<"s1", "s2">>,
                            st |-> ("s1" :> ("y" :> Calc("dbl", <<"p">>)))])
              ELSE NoFn,
     ro   |-> ("ro" :> [fn |-> "mul", args |-> <<"d1", "dp">>]),
     data |-> NoFn]

\* the content with the parameter values pv in force (pv may be partial)
WithPars(c, pv) ==
    [c EXCEPT !.pars = [n \in DOMAIN c.pars |-> IF n \in DOMAIN pv THEN M!Num(pv[n]) ELSE c.pars[n]]]

\* parameters and derived parameters of a content without assignment-defined parameters (= M!Frozen) and the
\* argument table built on them (= M!ArgsAt for a content without data; both equalities are checked by TLC on
\* every row of every result, see NvIsRhs; MxlModel's own operators re-evaluate the initial environment for
\* every name and are too slow to be used at every read)
FrozenFast(cs) == M!Saturate(cs, M!Static(cs), [n \in DOMAIN cs.pars |-> cs.pars[n].v])
ArgsFast(cs, fr, row) == M!Saturate(cs, M!Dynamic(cs), ("time" :> row.t) @@ row.y @@ fr)

\* everything the model can report at one row: the argument table plus the readouts
FullRowF(cs, fr, row) == LET a == ArgsFast(cs, fr, row) IN M!Readouts(cs, a) @@ a
FullRow(cs, row) == FullRowF(cs, FrozenFast(cs), row)

(***************************************************************************)
(* Name groups (the include_* flags of the public API)                     *)
(***************************************************************************)
Groups == {"var", "par", "dpar", "dvar", "rxn", "svar", "sflux", "ro"}
SurOutsAll(c) == UNION {M!SeqRange(c.sur[s].outs) : s \in DOMAIN c.sur}
Group(c, g) ==
    CASE g = "var"   -> M!VarSet(c)
      [] g = "par"   -> DOMAIN c.pars
      [] g = "dpar"  -> M!Static(c)
      [] g = "dvar"  -> DOMAIN c.der \ M!Static(c)
      [] g = "rxn"   -> DOMAIN c.rxn
      [] g = "sflux" -> M!SurFluxes(c)
      [] g = "svar"  -> SurOutsAll(c) \ M!SurFluxes(c)
      [] g = "ro"    -> DOMAIN c.ro
Names(c, G) == UNION {Group(c, g) : g \in G}

\* the columns of a table view
Sel(c, op) ==
    CASE op.view = "args"      -> Names(c, op.flags)
      [] op.view = "variables" -> Names(c, {"var"} \cup (op.flags \cap {"dvar", "svar", "ro"}))
      [] op.view = "fluxes"    -> Names(c, {"rxn"} \cup (op.flags \cap {"sflux"}))
      [] op.view = "combined"  -> Names(c, {"var", "dvar", "svar", "ro", "rxn", "sflux"})

VarIdx(c, v) == CHOOSE j \in DOMAIN c.vars : c.vars[j] = v

\* producers (sgn = 1) / consumers (sgn = -1) of variable v at the table a
Touching(cs, a, v, sgn) ==
    {f \in M!FluxNames(cs) : v \in DOMAIN M!StoichOf(cs, f) /\ sgn * M!N(cs, a, v, f) > 0}

(***************************************************************************)
(* One row of a view, from the segment's content cs (parameters in force), *)
(* the row's table of reported values a, and the table ca at which the     *)
(* stoichiometric coefficients are evaluated (in the specification ca = a; *)
(* the implementation-shaped machine of ResultViewsMC evaluates them under *)
(* whatever parameters the shared model holds at the time of the read).    *)
(* rhs is computed from the TABLE (reported fluxes times coefficients),    *)
(* which is what makes "stoichiometry times reported fluxes = reported     *)
(* derivatives" a theorem to check against MxlModel's Rhs, not a           *)
(* definition.                                                             *)
(***************************************************************************)
RowVals(cs, op, a, ca) ==
    CASE op.view \in {"args", "variables", "fluxes", "combined"} -> [n \in Sel(cs, op) |-> a[n]]
      [] op.view = "rhs" ->
            [v \in M!VarSet(cs) |->
                FoldSet(LAMBDA f, acc : acc + M!N(cs, ca, v, f) * a[f], 0,
                        {f \in M!FluxNames(cs) : v \in DOMAIN M!StoichOf(cs, f)})]
      [] op.view \in {"producers", "consumers"} ->
            LET sgn == IF op.view = "producers" THEN 1 ELSE 0 - 1
            IN [f \in Touching(cs, ca, op.v, sgn) |->
                   IF op.scaled THEN a[f] * sgn * M!N(cs, ca, op.v, f) ELSE a[f]]

NSeg(res) == Len(res.segs)
NRows(res, i) == Len(res.segs[i].rows)
RECURSIVE Offset(_, _)
Offset(res, i) == IF i = 1 THEN 0 ELSE Offset(res, i - 1) + NRows(res, i - 1)
TotalRows(res) == Offset(res, NSeg(res)) + NRows(res, NSeg(res))

Factor(res, op, i, j) ==
    CASE op.norm = "none"   -> 1
      [] op.norm = "scalar" -> res.fscalar
      [] op.norm = "seg"    -> res.fseg[i]
      [] op.norm = "row"    -> res.frow[Offset(res, i) + j]

RECURSIVE Flatten(_)
Flatten(ss) == IF ss = <<>> THEN <<>> ELSE Head(ss) \o Flatten(Tail(ss))

\* the tables of a result under the parameter source ps (one parameter record per segment)
SegTable(cs, fr, rows) == [j \in DOMAIN rows |-> FullRowF(cs, fr, rows[j])]
Tables(c, res, ps) ==
    [i \in 1..NSeg(res) |-> SegTable(WithPars(c, ps[i]), FrozenFast(WithPars(c, ps[i])), res.segs[i].rows)]

\* general form: the reported values come from tabs[i][j]; coefficients are evaluated at that table with
\* the parameter-like entries (parameters, derived parameters) as they are under ps[i]
Over(a, fr) == fr @@ a
NeedsCoef(op) == op.view \in {"rhs", "producers", "consumers"}
ViewG(c, op, res, ps, tabs) ==
    IF op.view = "newy0"
    THEN LET r == res.segs[NSeg(res)].rows[NRows(res, NSeg(res))]
         IN <<<<[t |-> r.t, d |-> 1, v |-> r.y]>>>>
    ELSE LET per == [i \in 1..NSeg(res) |->
                        LET cs == WithPars(c, ps[i])
                            fr == IF NeedsCoef(op) THEN FrozenFast(cs) ELSE NoFn
                        IN [j \in 1..NRows(res, i) |->
                              [t |-> res.segs[i].rows[j].t, d |-> Factor(res, op, i, j),
                               v |-> RowVals(cs, op, tabs[i][j], Over(tabs[i][j], fr))]]]
         IN IF op.concat THEN <<Flatten(per)>> ELSE per

SegPars(res) == [i \in 1..NSeg(res) |-> res.segs[i].pars]

(***************************************************************************)
(* THE SPECIFICATION of a read: a function of the result and nothing else. *)
(* SpecTables(res) is the table of everything the model reports at every   *)
(* row under the row's segment's parameters; ViewT selects from it.  (The  *)
(* tables are passed around explicitly only because TLC does not memoise   *)
(* operator applications.)                                                 *)
(***************************************************************************)
SpecTables(res) == Tables(Content(res.variant), res, SegPars(res))
ViewT(op, res, tabs) == ViewG(Content(res.variant), op, res, SegPars(res), tabs)
View(op, res) == ViewT(op, res, SpecTables(res))

IsRead(op) == op.view # "update"

(***************************************************************************)
(* Theorems about the views (checked by TLC on every result of the menu    *)
(* in ResultViewsMC and on every recorded result in ResultViewsTrace);     *)
(* tabs = SpecTables(res)                                                  *)
(***************************************************************************)
BaseOp(view) == [view |-> view, flags |-> Groups, v |-> "x", scaled |-> FALSE, concat |-> FALSE, norm |-> "none"]

\* stoichiometry times REPORTED fluxes equals REPORTED derivatives, and both equal MxlModel's Rhs
NvIsRhs(res, tabs) ==
    LET c  == Content(res.variant)
        fl == ViewT(BaseOp("fluxes"), res, tabs)
        rh == ViewT(BaseOp("rhs"), res, tabs)
    IN \A i \in 1..NSeg(res) : \A j \in 1..NRows(res, i) :
          LET cs  == WithPars(c, res.segs[i].pars)
              row == res.segs[i].rows[j]
              a   == M!ArgsAt(cs, row.y, row.t)
          IN /\ DOMAIN fl[i][j].v = M!FluxNames(cs)
             /\ \A n \in DOMAIN a : tabs[i][j][n] = a[n]
             /\ \A v \in M!VarSet(cs) :
                   /\ rh[i][j].v[v] = FoldSet(LAMBDA f, acc : acc + M!N(cs, a, v, f) * fl[i][j].v[f], 0, M!FluxNames(cs))
                   /\ rh[i][j].v[v] = M!Rhs(cs, row.y, row.t)[VarIdx(cs, v)]

\* concatenated = per-segment stacked in order, for an arbitrary read
ConcatIsStack(op, res, tabs) ==
    ViewT([op EXCEPT !.concat = TRUE], res, tabs) = <<Flatten(ViewT([op EXCEPT !.concat = FALSE], res, tabs))>>

\* producers / consumers are exactly the fluxes with positive / negative coefficient, scaled by |coefficient|
\* on request; scaled producers minus scaled consumers is the derivative
ProdCons(res, tabs, v) ==
    LET c  == Content(res.variant)
        fl == ViewT(BaseOp("fluxes"), res, tabs)
        rh == ViewT(BaseOp("rhs"), res, tabs)
        pv(view, sc) == ViewT([BaseOp(view) EXCEPT !.v = v, !.scaled = sc], res, tabs)
        Pa == pv("producers", FALSE)
        Qa == pv("consumers", FALSE)
        PSa == pv("producers", TRUE)
        QSa == pv("consumers", TRUE)
    IN \A i \in 1..NSeg(res) : \A j \in 1..NRows(res, i) :
          LET cs  == WithPars(c, res.segs[i].pars)
              a   == tabs[i][j]
              pos == {f \in M!FluxNames(cs) : M!N(cs, a, v, f) > 0}
              neg == {f \in M!FluxNames(cs) : M!N(cs, a, v, f) < 0}
              P   == Pa[i][j].v
              Q   == Qa[i][j].v
              PS  == PSa[i][j].v
              QS  == QSa[i][j].v
              Sum(F) == FoldSet(LAMBDA f, acc : acc + F[f], 0, DOMAIN F)
          IN /\ DOMAIN P = pos /\ DOMAIN Q = neg /\ DOMAIN PS = pos /\ DOMAIN QS = neg
             /\ \A f \in pos : P[f] = fl[i][j].v[f] /\ PS[f] = M!N(cs, a, v, f) * fl[i][j].v[f]
             /\ \A f \in neg : Q[f] = fl[i][j].v[f] /\ QS[f] = (0 - M!N(cs, a, v, f)) * fl[i][j].v[f]
             /\ Sum(PS) - Sum(QS) = rh[i][j].v[v]

\* the producer / consumer columns are the same in every row (else a table with fixed columns is ill-defined):
\* a well-formedness condition of the result family, not a property of the code
SignStable(res, tabs, v) ==
    \A view \in {"producers", "consumers"} :
        LET t == Flatten(ViewT([BaseOp(view) EXCEPT !.v = v], res, tabs))
        IN \A j \in DOMAIN t : DOMAIN t[j].v = DOMAIN t[1].v

\* normalisation divides: numerators are those of the unnormalised view, the divisor is the factor of the shape;
\* the three shapes agree when their factors describe the same division
RepeatRows(res, fseg) == Flatten([i \in 1..NSeg(res) |-> [j \in 1..NRows(res, i) |-> fseg[i]]])
NormLaws(op, res, tabs) ==
    LET un == ViewT([op EXCEPT !.norm = "none"], res, tabs)
        nv(shape, r) == ViewT([op EXCEPT !.norm = shape], r, tabs)
        Same(a, b) == /\ Len(a) = Len(b)
                      /\ \A i \in DOMAIN a : /\ Len(a[i]) = Len(b[i])
                                             /\ \A j \in DOMAIN a[i] : a[i][j].t = b[i][j].t /\ a[i][j].v = b[i][j].v
    IN /\ \A shape \in {"scalar", "seg", "row"} : Same(nv(shape, res), un)
       /\ \A i \in DOMAIN un : \A j \in DOMAIN un[i] : un[i][j].d = 1
       /\ nv("seg", [res EXCEPT !.fseg = [i \in 1..NSeg(res) |-> res.fscalar]]) = nv("scalar", res)
       /\ nv("row", [res EXCEPT !.frow = RepeatRows(res, res.fseg)]) = nv("seg", res)
       /\ LET flat == Flatten(nv("row", res))        \* the k-th row of the whole result is divided by frow[k]
          IN Len(flat) = TotalRows(res) /\ \A k \in DOMAIN flat : flat[k].d = res.frow[k]
       /\ LET per == ViewT([op EXCEPT !.norm = "seg", !.concat = FALSE], res, tabs)   \* every row of segment i by fseg[i]
          IN \A i \in 1..NSeg(res) : \A j \in DOMAIN per[i] : per[i][j].d = res.fseg[i]
(***************************************************************************)
(* The menus of results shared by ResultViewsMC and ResultViewsSession      *)
(***************************************************************************)
Row(t, x, y) == [t |-> t, y |-> ("x" :> x) @@ ("y" :> y)]
PQ(p, q) == ("p" :> p) @@ ("q" :> q)

Layouts == <<
    \* one segment
    << [pars |-> PQ(7, 11), rows |-> <<Row(0, 2, 3), Row(1, 3, 0), Row(2, 1, 4)>>] >>,
    \* two segments, both parameters change; the switch point t = 2 is stored in BOTH (last row of the first,
    \* first row of the second: same state, other parameters), as results built directly with Simulation(...) may
    << [pars |-> PQ(7, 11), rows |-> <<Row(0, 2, 3), Row(1, 3, 0), Row(2, 1, 4)>>],
       [pars |-> PQ(5, 13), rows |-> <<Row(2, 1, 4), Row(5, 4, 1)>>] >>,
    \* three segments (2 + 1 + 3 rows), the last one back to the first one's p
    << [pars |-> PQ(3, 11), rows |-> <<Row(0, 2, 3), Row(2, 5, 1)>>],
       [pars |-> PQ(3, 2),  rows |-> <<Row(3, 1, 1)>>],
       [pars |-> PQ(7, 4),  rows |-> <<Row(4, 0, 2), Row(6, 3, 3), Row(7, 2, 6)>>] >> >>

(***************************************************************************)
(* The Simulator path: simulate, update a parameter, simulate again, for   *)
(* the variant whose rates do not depend on the state, so that the exact   *)
(* flow is linear in time and integer at integer times.                    *)
(***************************************************************************)
SimScenario == [y0 |-> ("x" :> 2) @@ ("y" :> 3),
                steps |-> << [pars |-> PQ(7, 11), times |-> <<0, 1, 2>>],
                             [pars |-> PQ(5, 11), times |-> <<3, 4>>],
                             [pars |-> PQ(5, 3),  times |-> <<6>>] >>]

LinFlow(cs, y0, t0, t) ==
    [v \in M!VarSet(cs) |-> y0[v] + M!Rhs(cs, y0, t0)[VarIdx(cs, v)] * (t - t0)]

RECURSIVE SimSegs(_, _, _, _)
SimSegs(c, steps, y0, t0) ==
    IF steps = <<>> THEN <<>>
    ELSE LET s    == Head(steps)
             cs   == WithPars(c, s.pars)
             rows == [j \in DOMAIN s.times |-> [t |-> s.times[j], y |-> LinFlow(cs, y0, t0, s.times[j])]]
             last == rows[Len(rows)]
         IN <<[pars |-> s.pars, rows |-> rows]>> \o SimSegs(c, Tail(steps), last.y, last.t)

\* A scenario may give its steps as EDITS (set = the parameters updated before the step, by numbers): the
\* parameters in force during the step are all parameters of the declaration as it then stands, assignment-defined
\* ones resolved (MxlModel: evaluated once, at time 0, from the declared initial state)
ApplySet(c, set) == [c EXCEPT !.pars = [n \in DOMAIN c.pars |-> IF n \in DOMAIN set THEN M!Num(set[n]) ELSE c.pars[n]]]
InForce(c) == [n \in DOMAIN c.pars |-> M!InitEnv(c)[n]]
RECURSIVE ResolveSteps(_, _)
ResolveSteps(c, steps) ==
    IF steps = <<>> THEN <<>>
    ELSE LET c2 == ApplySet(c, Head(steps).set)
         IN <<[pars |-> InForce(c2), times |-> Head(steps).times]>> \o ResolveSteps(c2, Tail(steps))

\* the Simulator session with an assignment-defined parameter: q updated (p follows), then p overridden by a number
IaScenario == [y0 |-> ("x" :> 2) @@ ("y" :> 3),
               steps |-> << [set |-> ("q" :> 11), times |-> <<0, 1, 2>>],
                            [set |-> ("q" :> 3),  times |-> <<3, 4>>],
                            [set |-> ("p" :> 7),  times |-> <<6>>] >>]

FSeg == <<2, 5, 3>>
FRow == <<2, 3, 5, 7, 11, 13>>
MkRes(variant, segs) ==
    LET r0 == [variant |-> variant, segs |-> segs, fscalar |-> 3, fseg |-> <<>>, frow |-> <<>>]
    IN [r0 EXCEPT !.fseg = SubSeq(FSeg, 1, NSeg(r0)), !.frow = SubSeq(FRow, 1, TotalRows(r0))]

=============================================================================
