"""C11 -- model -> generated MxlPy source -> model preserves behaviour, or fails.

spec      : spec/ModelEval.tla + MxlModel.tla (surrogate-free family; the specification's initial values, parameter
            values and full tables at three states)
spec->code: exec(generate_mxlpy_code(model))['create_model']() for every emitted model; the rebuilt model must have
            the same names and kinds and answer every query with the specification's numbers.  The family uses
            each library function for several components with different / permuted / repeated arguments, and a
            third of the models render two different functions under one ``__name__`` (mbt/fnlib_alias.py).
"""

from __future__ import annotations

import json
import random

from .. import fnlib_alias, modelkit
from ..core import Ctx, Report, pmap
from ..modelkit import build_model, cmp_table, cmp_vector, norm_content
from ..tlc import MachineryError, fn_to_dict
from . import codegen_common as cg


def calls_of(c: dict) -> list[dict]:
    out = [dict(fn=d["fn"], args=d["args"]) for d in c["der"].values()]
    for r in c["rxn"].values():
        out.append(dict(fn=r["fn"], args=r["args"]))
        out += [dict(fn=co["fn"], args=co["args"]) for co in r["st"].values() if co["k"] == "calc"]
    out += [dict(fn=v["fn"], args=v["args"]) for v in list(c["init"].values()) + list(c["pars"].values()) if v["k"] == "ia"]
    return out


def features(c: dict, alias: bool) -> dict:
    calls = calls_of(c)
    used = {cl["fn"] for cl in calls}
    clash = (alias == 1 and (({"inc", "dbl"} <= used) or ({"add", "sub"} <= used))) \
        or (alias == 2 and len({"inc", "dbl", "neg", "id"} & used) >= 2)
    return {"repeated_argument": any(len(set(cl["args"])) < len(cl["args"]) for cl in calls),
            "same_name_functions": bool(clash),
            "untranslatable": sorted(used & cg.UNTRANSLATABLE)}


def roundtrip(scn: dict) -> dict:
    from mxlpy.meta import generate_mxlpy_code

    c = scn["c"]
    rnd = random.Random(f"{scn['seed']}/{scn['idx']}")
    # 1: same __name__, other module; 2: same module and same qualified name (two closures of one factory); 0: none
    alias = (1, 2, 0)[scn["idx"] % 3]
    modelkit.FN_OVERRIDE = dict(fnlib_alias.ALIAS) if alias == 1 else dict(fnlib_alias.TWIN) if alias == 2 else {}
    try:
        m, order = build_model(c, rnd)
    finally:
        modelkit.FN_OVERRIDE = {}
    feat = features(c, alias)
    rec = {"idx": scn["idx"], "features": feat, "order": order, "alias": alias}
    try:
        code = generate_mxlpy_code(m)
    except Exception as e:  # noqa: BLE001
        rec["raised"] = f"{type(e).__name__}: {str(e)[:150]}"
        return rec
    rec["code"] = code
    if feat["untranslatable"]:
        rec["bad"] = {"what": "untranslatable function did not make generation raise"}
        return rec
    ns: dict = {}
    try:
        exec(compile(code, "<generated mxlpy source>", "exec"), ns)  # noqa: S102
        m2 = ns["create_model"]()
    except Exception as e:  # noqa: BLE001
        rec["bad"] = {"what": "generated source cannot be executed", "exception": f"{type(e).__name__}: {str(e)[:150]}"}
        return rec
    try:
        if dict(m2.ids) != dict(m.ids):
            rec["bad"] = {"what": "names and kinds", "expected": dict(m.ids), "observed": dict(m2.ids)}
            return rec
        if list(m2.get_variable_names()) != list(c["vars"]):
            rec["bad"] = {"what": "variable order", "expected": c["vars"], "observed": list(m2.get_variable_names())}
            return rec
        bad = cmp_table(fn_to_dict(scn["init"]), dict(m2.get_initial_conditions()), "initial values") \
            or cmp_table(fn_to_dict(scn["parvals"]), dict(m2.get_parameter_values()), "parameter values")
        if bad:
            rec["bad"] = bad
            return rec
        for p in scn["pts"]:
            y = {v: float(fn_to_dict(p["y"])[v]) for v in c["vars"]}
            t = float(p["t"])
            bad = cmp_table(fn_to_dict(p["args"]), m2.get_args(y, t).to_dict(), f"get_args @t={t}") \
                or cmp_table(fn_to_dict(p["fluxes"]), m2.get_fluxes(y, t).to_dict(), f"get_fluxes @t={t}") \
                or cmp_vector(list(p["rhs"]), m2.get_right_hand_side(y, t).to_numpy(), f"get_right_hand_side @t={t}")
            if bad:
                rec["bad"] = {**bad, "point": p}
                return rec
    except Exception as e:  # noqa: BLE001
        rec["bad"] = {"what": "rebuilt model cannot be evaluated", "exception": f"{type(e).__name__}: {str(e)[:150]}"}
    return rec


def classify(rec: dict) -> str | None:
    f = rec["features"]
    what = rec["bad"].get("what", "")
    if f["repeated_argument"] and what == "generated source cannot be executed" and "SyntaxError" in rec["bad"].get("exception", ""):
        return "repeated-argument"
    if f["same_name_functions"] and not what.startswith("untranslatable"):
        return "same-name-functions"
    return None


def run(ctx: Ctx) -> int:
    rep = Report(ctx)
    rep.rule = ("one case = one model of the surrogate-free ModelEval family (every third one rendered with two "
                "different functions under one __name__); non-trivial = generation did not refuse and the model has a "
                "reaction; distinct by content")
    rep.assumptions = ["a model whose functions fn_to_sympy refuses is outside the antecedent (generation must raise)"]
    n = 20 if ctx.quick else 400
    parts = [
        dict(maxv=3, maxd=3, maxr=3, maxia=2, maxiv=1, maxc=4, fns=cg.TRANSLATABLE, fwd=True, num=n),
        dict(maxv=2, maxd=2, maxr=2, maxia=1, maxiv=1, maxc=5, fns=cg.TRANSLATABLE + ["loopinc"] + cg.OPTIONAL, fwd=False, num=n),
    ]
    scns = cg.generate(ctx, rep, parts)
    recs = pmap(roundtrip, scns, chunk=8)
    n_ok = n_raise = 0
    for scn, rec in zip(scns, recs):
        rep.evaluations += 1
        base = {"c": scn["c"], "idx": scn["idx"], "seed": scn["seed"], "init": scn["init"], "parvals": scn["parvals"],
                "pts": scn["pts"], "alias": rec["alias"]}
        if "raised" in rec:
            n_raise += 1     # a visible failure is always acceptable
            rep.replayed += 1
            continue
        rep.replayed += 1
        if scn["c"]["rxn"]:
            rep.distinct.add(json.dumps(scn["c"], sort_keys=True))
        if "bad" in rec:
            rep.mismatch(base, {**rec["bad"], "features": rec["features"], "code": rec.get("code")}, classify(rec))
        else:
            n_ok += 1
    rep.notes["round_trips_conforming"] = n_ok
    rep.notes["generation_raised"] = n_raise
    if n_ok < 50 and not rep.violations:
        raise MachineryError(f"vacuity: only {n_ok} round trips conformed")
    for s in scns[:2]:
        rep.sample({"content": s["c"]})
    return rep.finish()


def replay(ctx: Ctx, doc: dict) -> int:
    scn = doc["scenario"]
    scn["c"] = norm_content(scn["c"])
    rec = roundtrip(scn)
    print(json.dumps({k: v for k, v in rec.items()}, indent=1, default=str))
    if "bad" in rec:
        print("VIOLATION property=C11 replay=(given)")
        return 1
    return 0
