"""C04 -- continued simulation: absolute strictly increasing time axis, piecewise-exact states, refusal exactly
when the requested end is not later than the time reached.

spec      : spec/Simulator.tla (state machine, pure effects Eff), spec/SimulatorFlow.tla (flow terms compose),
            spec/SimulatorTrace.tla (code -> spec)
TLC (mc)  : on every reachable state of every call history in the bound and for every operation of the menu:
            axis strictly increasing; refusal <=> requested end <= time reached (and nothing changes); an accepted
            call adds exactly the requested points later than the time reached, each once; every segment starts
            where the previous one ended under the parameters recorded for it; protocol == composed single steps.
            Two implementation-shaped wrong instances (what the pinned commit did) must be refuted by TLC.
spec->code: every emitted history (exhaustive depth 2/3 over the menu, depth 4 over a reduced menu, seeded
            -simulate behaviours of depth 8) is driven through the real Simulator with the default integrator;
            after every call: raised / not raised, the result's index, segment count, raw_parameters per
            segment, values against the closed form x* + (x0 - x*) exp(-k dt); fluxes at the end.
code->spec: a seeded random driver records call sequences of the real Simulator (arguments, raised?, resulting
            index and parameters per segment); TLC validates them in batches with the same Eff; recorded values
            of accepted traces are compared with the closed form along the history TLC reconstructed.
"""

from __future__ import annotations

import collections
import copy
import json
import random
from concurrent.futures import ThreadPoolExecutor

from .. import simkit
from ..core import Ctx, Report, pmap
from ..tlc import MachineryError

PROP = "C04"
INVS = ["AxisIncreasing", "RefusalIff", "PointsOnce", "SegChain", "NowIsLast", "StepIntervals",
        "ProtocolIsComposition"]


# ---- spec validation ------------------------------------------------------------------------------------------
def flow_crosscheck(ctx: Ctx, rep: Report) -> None:
    """SimulatorFlow.tla: exact dyadic flows compose; the Python closed form reproduces TLC's table."""
    import math

    res = ctx.tlc("SimulatorFlow.tla", "SimulatorFlow.cfg", workers=1)
    rep.add_tlc(res, "spec validation: flow terms compose on the exact dyadic sub-family; table for the closed form")
    n = 0
    for table in res.payloads:
        for by_a in table.values():
            for row in by_a.values():
                got = simkit.flow(row["s"] * math.log(2.0), math.log(2.0), float(row["m"]), float(row["x0"]))
                if abs(got - row["v"]) > 1e-9 * max(1.0, abs(row["v"])):
                    raise MachineryError(f"closed-form flow disagrees with the exact dyadic value: {row} vs {got}")
                n += 1
    if n < 50:
        raise MachineryError(f"flow cross-check covered only {n} rows")
    rep.notes["flow_crosscheck_rows"] = n


def refute_variants(ctx: Ctx, rep: Report) -> None:
    for cfg, inv, what in (("Simulator_shiftcmp.cfg", "RefusalIff",
                            "requested end minus override shift compared with the absolute time reached"),
                           ("Simulator_ssreset.cfg", "AxisIncreasing",
                            "steady-state run does not advance the integrator")):
        res = ctx.tlc("Simulator.tla", cfg, expect_violation=True, workers=4)
        if res.violated != inv:
            raise MachineryError(f"wrong instance {cfg} should violate {inv} (got {res.violated}): the "
                                 "specification has lost its teeth")
        rep.add_tlc(res, f"wrong instance refuted: {what} -> {inv} violated")
    rep.notes["pinned_commit_instances_refuted"] = ["shiftcmp -> RefusalIff", "ssreset -> AxisIncreasing"]


# ---- generation ---------------------------------------------------------------------------------------------
def show_time(q: dict):
    v = q["o"] if not q.get("e") else f"{q['o']}+{q['e']}eps"
    return v if q["b"] == 0 else f"tau{q['b']}+{v}"


def hist_key(h: list) -> str:
    return json.dumps([s["op"] for s in h], sort_keys=True)


def generate(ctx: Ctx, rep: Report) -> list:
    jobs = []
    if ctx.quick:
        jobs.append(("exh", "Simulator.tla", "Simulator_depth2.cfg", {},
                     "all call histories of depth 2 over the 35-operation menu; 7 invariants at every state"))
        jobs.append(("exh3s", "Simulator.tla", "Simulator_depth3s.cfg", {},
                     "all call histories of depth 3 over the reduced 17-operation menu; 7 invariants at every state"))
        jobs.append(("deep", "Simulator.tla", "Simulator_deep.cfg",
                     dict(simulate="num=3", depth=9, seed=ctx.seed, workers=8),
                     "seeded -simulate behaviours of depth 8 (and the siblings of their last call)"))
    else:
        jobs.append(("exh", "Simulator.tla", "Simulator_depth3.cfg", {},
                     "all call histories of depth 3 over the 35-operation menu; 7 invariants at every state"))
        jobs.append(("exh4", "Simulator.tla", "Simulator_depth4.cfg", {},
                     "all call histories of depth 4 over the reduced 17-operation menu; 7 invariants at every state"))
        jobs.append(("deep", "Simulator.tla", "Simulator_deep.cfg",
                     dict(simulate="num=30", depth=9, seed=ctx.seed, workers=8),
                     "seeded -simulate behaviours of depth 8 (and the siblings of their last call)"))

    jobs.append(("warm", "Simulator.tla", "Simulator_warm.cfg", {},
                 "all call histories of depth 2 over the full menu continuing a twice-overridden simulator "
                 "(simulate, override, simulate, override; time reached an odd number of ticks)"))

    def go(job):
        tag, mod, cfg, kw, _ = job
        return ctx.tlc(mod, cfg, tag=tag, **{"workers": 8, **kw})

    with ThreadPoolExecutor(len(jobs)) as ex:
        results = list(ex.map(go, jobs))
    hs = {}
    for job, res in zip(jobs, results):
        rep.add_tlc(res, job[4])
        if not res.payloads:
            raise MachineryError(f"no behaviours emitted by {job[2]}")
        rep.notes[f"behaviours_{job[0]}"] = len(res.payloads)
        if job[0].startswith("exh"):
            rep.exhaustive = True
        for h in res.payloads:
            hs.setdefault(hist_key(h), h)
    hs = list(hs.values())
    # vacuity: every kind of call, refused and accepted where both exist
    seen = collections.Counter()
    for h in hs:
        for s in h:
            seen[(s["op"]["k"], s["raised"])] += 1
    need = [(k, False) for k in ("sim", "tc", "proto", "ptc", "upd", "scale", "ov", "ss", "ssfail", "clear", "read")] + \
           [(k, True) for k in ("sim", "tc", "ptc")]
    for n in need:
        if seen[n] == 0:
            raise MachineryError(f"vacuity: no emitted history contains {n}")
    zero_upd = sum(1 for h in hs for s in h if s["op"]["k"] == "upd" and s["op"]["v"] == 0)
    zero_step = sum(1 for h in hs for s in h if s["op"]["k"] in ("proto", "ptc") and not s["raised"]
                    and any(st["p"]["kin"] == 0 for st in s["op"]["steps"]))
    if zero_upd == 0 or zero_step == 0:
        raise MachineryError("vacuity: zero never occurs as a parameter value (update / protocol step)")
    rep.notes["calls_setting_a_parameter_to_zero"] = {"update": zero_upd, "protocol_with_zero_step": zero_step}
    rep.notes["calls_emitted(kind,raised)"] = {f"{k}/{'refused' if r else 'accepted'}": v for (k, r), v in sorted(seen.items())}
    return hs


def nontrivial(h: list) -> bool:
    """A continuation happened: a result-producing call was accepted or refused when a result already existed."""
    have = False
    for s in h:
        if s["op"]["k"] in simkit.ADVANCING + ("ss",):
            if have:
                return True
            if not s["raised"]:
                have = True
        if s["op"]["k"] == "clear":
            have = False
    return False


def read_then_continue(h: list) -> bool:
    """result-producing call, then the views are read, then a continuation"""
    have = read = False
    for s in h:
        k = s["op"]["k"]
        if k == "clear":
            have = read = False
        elif k == "read" and have:
            read = True
        elif k in simkit.ADVANCING + ("ss",) and not s["raised"]:
            if read:
                return True
            have = True
    return False


def rendering_notes(rep: Report, outs: list) -> None:
    """How the protocol tables of the replayed histories were written down (vacuity guard)."""
    keys = ("protocol_key_order_varies", "protocol_step_omits_a_parameter", "protocol_by_make_protocol",
            "protocol_by_hand_made_dataframe")
    tot = {k: sum(st.get(k, 0) for _, st in outs) for k in keys}
    rep.notes["protocol_tables_written"] = tot
    fam = {"histories_with_time_dependent_inflow": sum(st.get("ramp", 0) for _, st in outs),
           "histories_with_assignment_defined_initial_value": sum(st.get("ia", 0) for _, st in outs),
           "histories_with_use_jacobian": sum(st.get("jac", 0) for _, st in outs),
           "histories_with_derived_parameter_and_computed_coefficient": sum(st.get("derived", 0) for _, st in outs),
           "histories_with_mirror_variable(two overrides in a row)": sum(st.get("mirror", 0) for _, st in outs),
           "integer_typed_time_grids": sum(st.get("integer_typed_grids", 0) for _, st in outs)}
    rep.notes["model_family_members"] = fam
    rep.notes["start_state_of_a_simulator_that_has_not_run(assignment-defined, parameters updated first)"] = {
        "as_at_construction": sum(st.get("start_state_as_at_construction", 0) for _, st in outs),
        "follows_current_parameters": sum(st.get("start_state_follows_current_parameters", 0) for _, st in outs)}
    if not rep.violations and (min(tot.values()) == 0 or min(fam.values()) == 0):
        raise MachineryError(f"vacuity: a way of writing protocol tables / a family member is never used: {tot} {fam}")


def _replay(h):
    return simkit.replay_renderings(h)


def selftest_replayer(hs: list, seed: int) -> int:
    """Binding teeth, spec -> code: a history whose prediction was corrupted must be reported as a mismatch."""
    rnd = random.Random(seed)
    pool = [h for h in hs if h[-1]["st"]["segs"] and not h[-1]["raised"] and nontrivial(h)
            and all(s["op"]["k"] != "ssfail" for s in h)]
    n = 0
    for h in rnd.sample(pool, min(6, len(pool))):
        for kind in ("time", "raised", "par"):
            c = copy.deepcopy(h)
            if kind == "time":
                c[-1]["st"]["segs"][-1]["times"][-1]["o"] += 1
            elif kind == "raised":
                c[-1]["raised"] = not c[-1]["raised"]
            else:
                c[-1]["st"]["segs"][-1]["p"]["kk"] += 64
            bad, _ = simkit.replay_history(c)
            if bad is None:
                raise MachineryError(f"replayer accepted a corrupted prediction ({kind}): {hist_key(h)[:300]}")
            n += 1
    if n == 0:
        raise MachineryError("replayer self-test had nothing to corrupt")
    return n


# ---- code -> spec ---------------------------------------------------------------------------------------------
def _record(job):
    seed, length, weights = job
    return simkit.record_trace(seed, length, weights)


class _Flat:
    """Time mapping for recorded traces (everything in base 0)."""

    bases = {0: 0.0}

    def __init__(self, r, ramp=False):
        self.r = r
        self.ramp = simkit.ramp_rate(r) if ramp else 0.0
        self.ia = False

    def t(self, tm):
        return tm["o"] * self.r.ts + tm.get("e", 0) * self.r.eps

    def enc(self, v):
        return (v // 1000) * self.r.ts + (v % 1000) * self.r.eps


def corrupt(trace: dict, rnd: random.Random) -> dict | None:
    c = copy.deepcopy(trace)
    evs = [j for j, e in enumerate(c["ev"]) if e["segs"]]
    if not evs:
        return None
    j = rnd.choice(evs)
    e = c["ev"][j]
    kind = rnd.choice(["raised", "time", "par"])
    if kind == "raised":
        e["raised"] = not e["raised"]
    elif kind == "time":
        e["segs"][-1]["times"][-1] += 1
    else:
        e["segs"][-1]["kk"] += 64
    c["corruption"] = {"event": j, "kind": kind}
    return c


def validate_traces(ctx: Ctx, rep: Report, traces: list, tag: str, batch: int = 3000) -> list:
    """Returns per trace: {'accepted': bool, 'matched': n, 'st': final spec state or None}."""
    jobs = []
    for lo in range(0, len(traces), batch):
        tf = ctx.work / f"traces_{tag}_{lo}.json"
        tf.write_text(json.dumps([{"ev": t["ev"], "p0": t.get("p0", simkit.P0)} for t in traces[lo:lo + batch]]))
        jobs.append((lo, tf))

    def go(job):
        lo, tf = job
        return ctx.tlc("SimulatorTrace.tla", "SimulatorTrace.cfg", tag=f"trace_{tag}_{lo}", env={"TRACE_FILE": str(tf)},
                       workers=1)

    with ThreadPoolExecutor(max(1, min(6, len(jobs)))) as ex:
        results = list(ex.map(go, jobs))
    out = [{"accepted": False, "matched": 0, "st": None} for _ in traces]
    for (lo, _), res in zip(jobs, results):
        rep.add_tlc(res, f"trace validation ({tag}): recorded call sequences of the real Simulator against Eff")
        for p in res.payloads:
            o = out[lo + p["id"] - 1]
            o["matched"] = max(o["matched"], p["matched"])
            if p["done"]:
                o["accepted"] = True
                o["st"] = p["st"]
    return out


def trace_direction(ctx: Ctx, rep: Report, prop: str, n: int, length: int, weights: dict | None, tag: str) -> None:
    jobs = [(f"{prop}/{ctx.seed}/{j}", length, weights) for j in range(n)]
    traces = pmap(_record, jobs, chunk=8)
    ongrid = [t for t in traces if not t["offgrid"]]
    for t in traces:
        if t["offgrid"]:
            scn = {"trace": t["ev"], "seed": t["seed"], "rendering": t["rendering"]}
            det = {"what": "trace", "step": len(t["ev"]) - 1, "observed": t["offgrid"]}
            rep.mismatch(scn, det, simkit.classify([{"op": e["op"]} for e in t["ev"]], det))
    verdicts = validate_traces(ctx, rep, ongrid, tag)
    kinds = collections.Counter()
    n_acc = 0
    for t, v in zip(ongrid, verdicts):
        rep.evaluations += 1
        for e in t["ev"]:
            kinds[(e["op"]["k"], e["raised"])] += 1
        steps = [{"op": e["op"], "raised": e["raised"]} for e in t["ev"]]
        if nontrivial(steps):
            rep.distinct.add("trace:" + json.dumps([e["op"] for e in t["ev"]], sort_keys=True))
        if not v["accepted"]:
            j = v["matched"]
            scn = {"trace": t["ev"][:j + 1], "seed": t["seed"], "rendering": t["rendering"]}
            det = {"what": "trace", "step": j, "matched_events": j,
                   "rejected_event": t["ev"][j] if j < len(t["ev"]) else None}
            rep.mismatch(scn, det, simkit.classify(steps, det))
            continue
        # values along the history TLC reconstructed
        st = v["st"]
        obs = []
        last = t["ev"][-1]["segs"] if t["ev"] else []
        flat = _Flat(simkit.RENDERINGS[t["rendering"]], t.get("ramp", False))
        for seg, xs in zip(last, t["values"]):
            obs.append({"t": [flat.enc(o) for o in seg["times"]], "x": xs,
                        "p": {"kin": seg["kin"] * flat.r.ps, "k": seg["kk"] * flat.r.ps,
                              **({"r": flat.ramp} if flat.ramp else {})}})
        bad = simkit.compare(flat, st, obs if obs else None)
        if bad:
            det = {**bad, "step": len(t["ev"]) - 1, "rendering": t["rendering"] + ("+ramp" if t.get("ramp") else "")}
            rep.mismatch({"trace": t["ev"], "seed": t["seed"], "rendering": t["rendering"]}, det,
                         simkit.classify(steps, det))
            continue
        n_acc += 1
        rep.traces += 1
    rep.notes[f"trace_calls_{tag}(kind,raised)"] = {f"{k}/{'refused' if r else 'accepted'}": c
                                                     for (k, r), c in sorted(kinds.items())}
    rep.notes[f"traces_{tag}_by_rendering"] = dict(collections.Counter(t["rendering"] for t in ongrid))
    rep.notes[f"traces_{tag}_reading_views_between_calls"] = sum(
        1 for t in ongrid if any(e["vread"] and e["op"]["k"] in simkit.ADVANCING for e in t["ev"]))
    # (a tree on which many recorded sequences are cut short by a mismatch is judged by those mismatches)
    if not rep.violations and not rep.known_hits and \
            (any(kinds[(k, False)] == 0 for k in ("sim", "tc", "proto", "ptc", "upd", "ov", "read")) or
             any(kinds[(k, True)] == 0 for k in ("sim", "tc"))):
        raise MachineryError(f"random driver ({tag}) does not exercise all calls: {dict(kinds)}")
    # binding teeth, code -> spec: corrupted copies of accepted traces must be rejected
    rnd = random.Random(ctx.seed)
    acc = [t for t, v in zip(ongrid, verdicts) if v["accepted"]]
    cor = [c for c in (corrupt(t, rnd) for t in rnd.sample(acc, min(40, len(acc)))) if c]
    if not cor:
        raise MachineryError("no accepted trace to corrupt")
    cv = validate_traces(ctx, rep, cor, tag + "_corrupted")
    wrongly = [c["corruption"] for c, v in zip(cor, cv) if v["accepted"]]
    if wrongly:
        raise MachineryError(f"trace validator accepted corrupted traces: {wrongly[:3]}")
    rep.notes[f"corrupted_traces_rejected_{tag}"] = len(cor)
    if n_acc and acc:
        rep.sample({"recorded_trace": acc[0]["ev"][:4], "verdict": "accepted"})


def repo_tests_direction(ctx: Ctx, rep: Report, only_protocols: bool = False, tests: str = "tests/simulator",
                         minimum: int | None = None) -> None:
    """The repository's own tests/simulator run under a recorder (mbt/simrecorder.py); every Simulator instance
    they create is one trace; TLC judges the bookkeeping (index, refusal, parameters per segment)."""
    import os
    import subprocess
    import sys

    from .. import simrecorder
    from ..core import ROOT, repo_root

    out = ctx.work / "repo_tests_raw.json"
    env = dict(os.environ)
    env["PYTHONPATH"] = os.pathsep.join([str(ROOT), str(repo_root() / "src")])
    env["SIMREC_OUT"] = str(out)
    p = subprocess.run([sys.executable, "-m", "pytest", "-q", "-p", "no:cacheprovider", "-p", "mbt.simrecorder",
                        tests], cwd=repo_root(), env=env, capture_output=True, text=True, timeout=900)
    if p.returncode not in (0, 1) or not out.exists():
        raise MachineryError(f"could not run tests/simulator under the recorder (rc={p.returncode}):\n{p.stdout[-800:]}{p.stderr[-800:]}")
    raws = json.loads(out.read_text())
    traces, na = [], collections.Counter()
    for r in raws:
        t, why = simrecorder.convert(r)
        if t is None:
            na[why] += 1
        elif not only_protocols or any(e["op"]["k"] in ("proto", "ptc") for e in t["ev"]):
            traces.append(t)
    rep.notes["repo_tests_simulators_recorded"] = len(raws)
    rep.notes["repo_tests_not_applicable"] = dict(na)
    rep.notes["repo_tests_pytest_exit"] = p.returncode
    if len(traces) < ((8 if only_protocols else 20) if minimum is None else minimum):
        raise MachineryError(f"only {len(traces)} repository test traces are applicable: {dict(na)}")
    verdicts = validate_traces(ctx, rep, traces, "repo_tests")
    for t, v in zip(traces, verdicts):
        rep.evaluations += 1
        steps = [{"op": e["op"], "raised": e["raised"]} for e in t["ev"]]
        if nontrivial(steps):
            rep.distinct.add("repo:" + t["test"] + json.dumps([e["op"] for e in t["ev"]], sort_keys=True))
        if v["accepted"]:
            rep.traces += 1
        else:
            j = v["matched"]
            det = {"what": "trace", "step": j, "matched_events": j, "test": t["test"],
                   "rejected_event": t["ev"][j] if j < len(t["ev"]) else None}
            rep.mismatch({"trace": t["ev"][:j + 1], "p0": t["p0"], "tick": t["tick"], "test": t["test"]}, det,
                         simkit.classify(steps, det))
    rep.notes["repo_tests_traces_validated"] = len(traces)


# ---- the check ------------------------------------------------------------------------------------------------
def run(ctx: Ctx) -> int:
    import mxlpy  # noqa: F401  (before forking)

    rep = Report(ctx)
    rep.rule = ("one case = one call history of Simulator operations (with arguments) carrying the specification's "
                "prediction after every call, or one recorded call sequence of the real Simulator; non-trivial = a "
                "continuation happened (a result-producing call was accepted or refused when a result already "
                "existed); distinct by the operation sequence")
    rep.assumptions = [
        "model family x' = kin - k*x (one variable, two parameters); times in ticks of 0.5 plus epsilons of 2^-9, "
        "parameter values in units of 1/64 (dyadic and whole nanoseconds: every float the harness passes is exact); "
        "histories with an epsilon point and no steady-state run are replayed a second time with ticks of 512 (an "
        "epsilon is then a relative 1e-6 of the absolute time) and rates scaled by 1/1024 (same k*dt per tick)",
        "rows with |x| < 1e-1 (relative budget below 10 x the integrator's atol 1e-8; pure decay with kin = 0 gets there) are judged at 1e-7 absolute and counted",
        "the steady-state point's time stamp is free (only later than the time reached); its value is compared "
        "with the flow over the observed interval at 1e-4 relative and then taken as observed (accuracy is C15)",
        "clear_results: the state restarted from is not specified; it is read from the first row afterwards",
        "the starting row of the first segment is accepted but not demanded",
        "default integrator (Scipy LSODA, atol = rtol = 1e-8); values compared at 1e-6 relative + 1e-9 absolute",
    ]
    flow_crosscheck(ctx, rep)
    refute_variants(ctx, rep)
    hs = generate(ctx, rep)
    rep.notes["replayer_selftest_corruptions_detected"] = selftest_replayer(hs, ctx.seed)
    outs = pmap(_replay, hs, chunk=32)
    worst = 0.0
    nvals = 0
    rep.notes["histories_with_a_point_just_after_a_boundary"] = sum(1 for h in hs if simkit.has_eps(h))
    rep.notes["histories_replayed_at_large_absolute_times"] = sum(1 for _, st in outs if st.get("large"))
    rep.notes["histories_reading_views_before_a_continuation"] = sum(1 for h in hs if read_then_continue(h))
    rep.notes["histories_with_a_failing_call_after_a_successful_segment"] = sum(
        1 for h, (_, st) in zip(hs, outs) if st.get("fails") and any(s["st"]["failed"] and s["st"]["segs"] for s in h))
    rep.notes["histories_not_replayed(successful_and_failing_steady_state_run_in_one_history)"] = sum(
        st.get("skipped_success_and_failure_of_steady_state", 0) for _, st in outs)
    if rep.notes["histories_with_a_failing_call_after_a_successful_segment"] == 0:
        raise MachineryError("vacuity: no history has a failing call after a successful segment")
    if min(rep.notes["histories_with_a_point_just_after_a_boundary"],
           rep.notes["histories_reading_views_before_a_continuation"]) == 0:
        raise MachineryError("vacuity: no history with an epsilon point / a read between continuations")
    for h, (bad, stats) in zip(hs, outs):
        rep.replayed += 1
        rep.evaluations += 1
        if nontrivial(h):
            rep.distinct.add(hist_key(h))
        if bad is not None:
            rep.mismatch({"history": h}, bad, simkit.classify(h, bad))
        else:
            worst = max(worst, stats.get("worst", 0.0))
            nvals += stats.get("n", 0)
    rep.notes["values_compared_with_closed_form"] = nvals
    rep.notes["worst_error_over_tolerance"] = round(worst, 4)
    rep.notes["fragile_rows_judged_at_integrator_atol(|x|<1e-1)"] = sum(st.get("fragile", 0) for _, st in outs)
    rendering_notes(rep, outs)
    for h in hs[:: max(1, len(hs) // 3)][:3]:
        rep.sample({"calls": [s["op"] for s in h], "refused": [s["raised"] for s in h],
                    "predicted_index_ticks": [[show_time(q) for q in g["times"]] for g in h[-1]["st"]["segs"]]})
    trace_direction(ctx, rep, PROP, 600 if ctx.quick else 6000, 8 if ctx.quick else 10, None, "driver")
    repo_tests_direction(ctx, rep)
    return rep.finish()


def replay(ctx: Ctx, doc: dict) -> int:
    import mxlpy  # noqa: F401

    scn = doc["scenario"]
    if "history" in scn:
        bad, _ = simkit.replay_history(scn["history"])
        print(json.dumps({"calls": [s["op"] for s in scn["history"]], "disagreement": bad}, indent=1))
    elif "test" in scn:
        # a trace recorded from a repository test: run that test under the recorder again, TLC judges
        rep = Report(ctx)
        repo_tests_direction(ctx, rep, tests=scn["test"], minimum=1)
        bad = rep.violations[0]["detail"] if rep.violations else None
        print(json.dumps({"test": scn["test"], "disagreement": bad}, indent=1))
    else:
        # a recorded trace: run the same calls again on the current tree and have TLC judge the new recording
        t = simkit.record_trace(scn.get("seed", "replay"), 0, None, ops=[e["op"] for e in scn["trace"]],
                                rendering=scn.get("rendering", "small"))
        rep = Report(ctx)
        v = validate_traces(ctx, rep, [t], "replay")[0] if not t["offgrid"] else {"accepted": False, "matched": len(t["ev"]) - 1}
        bad = None if v["accepted"] else {"what": "trace", "matched_events": v["matched"], "offgrid": t["offgrid"]}
        print(json.dumps({"recorded_now": t["ev"], "disagreement": bad}, indent=1))
    if bad:
        print(f"VIOLATION property={ctx.prop.replace('_replay', '')} replay=(given)")
        return 1
    print("conforms")
    return 0
