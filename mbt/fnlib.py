"""Python twins of spec/FnLib.tla (cross-checked against TLC by ``fnlib_crosscheck``).

Formal parameters deliberately carry names that generated models also use (x, y, p, q, d1), in other positions:
every translator that renames a function's parameters to model names is then exercised with overlapping names."""

import math

import numpy as np

# module-level floats that share their names with formal parameters of the functions below: a translator must
# resolve a name to the function's own parameter / local first, and to a module constant only otherwise
p = 0.25
q = 0.5
d1 = 1.5


def one():
    return 1.0


def two():
    return 2.0


def id(x):  # noqa: A001
    return x


def neg(y):
    return -y


def dbl(p):
    return 2 * p


def inc(q):
    return q + 1


def step(x):
    return 1.0 if x > 2 else 0.0


def pos(y):
    return y + 1 if y >= 0 else 0.0


def lg2(x):
    return x * math.log2(8.0)


def loopinc(a):
    i = 0
    while i < 1:
        i += 1
    return a + i


def _scaled(s, k=3):
    return s * k


def dflt(a):
    return _scaled(a)


def _aff(s, k=3, off=0):
    return s * k + off


def kwo(x, y):
    return _aff(x, off=y)


def dsum(d):
    return float(d.sum())


def add(x, y):
    return x + y


def sub(y, x):
    return y - x


def mul(p, x):
    return p * x


def sel(q, p):
    if q > p:
        return q - p
    return 3 * p


def cut(y, d1):
    v = y
    if y > d1:
        v = v - d1
    return v


def cap(a, b):
    return np.minimum(a, b)


def swp(x, y):
    x, y = y, x
    return 2 * x - y


def mad(x, p, y):
    return x * p + y


ARITY = {"one": 0, "two": 0, "id": 1, "neg": 1, "dbl": 1, "inc": 1, "step": 1, "pos": 1, "lg2": 1, "dsum": 1, "loopinc": 1, "dflt": 1,
         "add": 2, "sub": 2, "mul": 2, "sel": 2, "cut": 2, "cap": 2, "swp": 2, "kwo": 2, "mad": 3}
FNS = {n: globals()[n] for n in ARITY}


def pair(f1: str, f2: str):
    """Two-output surrogate function built from two library functions over the same arguments."""
    a, b = FNS[f1], FNS[f2]

    def both(*args):
        return (a(*args), b(*args))

    both.__name__ = f"pair_{f1}_{f2}"
    return both
