\* C17 sessions (wrong instance 'read memo keyed by path'): Read d, Rewrite d, Read d hands out the first text's model; TLC must report ReadAlone violated
CONSTANTS
    Docs = {1, 2, 3, 4}
    MaxOps = 4
    Registry = "pathmemo"
    RewriteDocs = {1}
    EmitOn = FALSE
INIT Init
NEXT Next
INVARIANT ReadAlone
INVARIANT Emit
CHECK_DEADLOCK FALSE
