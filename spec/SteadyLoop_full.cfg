\* C15 thorough: the contract loop over the full grid (relaxing + accumulating networks), with emission
CONSTANTS
    MaxSteps = 1000
    Loop = "copy"
    Family = "all"
    Tier = "thorough"
    NanRule = "notconverged"
    FluxRule = "segment"
    ScanNorm = "asked"
    Reporter = "contract"
    EmitOn = TRUE
INIT Init
NEXT Next
INVARIANT SuccessIsSteady
INVARIANT AccumFails
INVARIANT RelaxConverges
INVARIANT GridIsOK
INVARIANT Plumbing
INVARIANT UndefinedIsNotConvergence
INVARIANT FluxesBalance
INVARIANT Emit
CHECK_DEADLOCK FALSE
