--------------------------- MODULE ResultViewsMC ---------------------------
(***************************************************************************)
(* C10 -- model checking and scenario emission for the result views.       *)
(*                                                                         *)
(* State machine: a finished result (chosen in Init from a menu of         *)
(* variants x segment layouts, plus one result PREDICTED for a real        *)
(* two-segment simulation of the linear-flow variant) is read through the  *)
(* view alphabet in any order, interleaved with UpdateParameter on the     *)
(* model AFTER the simulation.  The machine is implementation-shaped: it   *)
(* has the model's current parameter values mp and a lazily filled         *)
(* argument table `cache` (Simulation.raw_args), so that "the answers      *)
(* depend only on the result" is a property TLC has to check and not a     *)
(* definition:                                                             *)
(*   Mode = "reapply" : every cache-backed read first re-applies the       *)
(*                      segment's parameters to the shared model           *)
(*   Mode = "stale"   : it does not (a plausible wrong implementation);    *)
(*                      TLC must find the counterexample (the spec has     *)
(*                      teeth)                                             *)
(* Invariants: HistoryFree (every answer = View(op, result)), Repeatable   *)
(* (asking any earlier read again now gives the answer it gave then:       *)
(* idempotence and commutation), and the theorems of ResultViews on every  *)
(* result of the menu.                                                     *)
(* Emission: one "table" record per result (ops and expected answers) and  *)
(* one "seq" record per maximal read sequence.                             *)
(***************************************************************************)
EXTENDS ResultViews, Json

CONSTANTS
    MaxLen,       \* longest read sequence
    Mode,         \* "reapply" | "stale"
    RawNorm,      \* "copy" | "inplace": does per-segment normalisation of the state-only view work on copies, or
                  \* does it divide the result's STORED state frames (a plausible wrong implementation: must be refuted)
    ResultIds,    \* which results of the menu
    EmitOn

VARIABLES rid, tabs, mp, cache, hist, answers, rawdiv, taint
vars == <<rid, tabs, mp, cache, hist, answers, rawdiv, taint>>
\* rawdiv[i] : what the stored state frame of segment i has been divided by so far (1 = untouched: "reading never
\*             changes the result");  taint[i] : rawdiv[i] at the moment the argument table was filled (values
\*             computed from divided states are REPRESENTED by that divisor on the row -- only the wrong instance
\*             ever has a divisor other than 1, and the code is never judged against it)
\* tabs = SpecTables(Res): a function of rid, kept in the state only so that it is computed once per result

\* Row, PQ, Layouts, SimScenario, SimSegs, MkRes: see ResultViews (shared with ResultViewsSession)

Results ==
    [k \in 1..9 |-> MkRes(<<"par", "state", "sur">>[((k - 1) \div 3) + 1], Layouts[((k - 1) % 3) + 1])]
    \o << MkRes("lin", SimSegs(Content("lin"), SimScenario.steps, SimScenario.y0, 0)) >>

Res == Results[rid]
C   == Content(Res.variant)

(***************************************************************************)
(* The read alphabet                                                       *)
(***************************************************************************)
Op(view, flags, v, scaled) ==
    [view |-> view, flags |-> flags, v |-> v, scaled |-> scaled, concat |-> TRUE, norm |-> "none", val |-> 0]

TableViews == <<
    Op("variables", {"dvar", "svar", "ro"}, "x", FALSE),
    Op("variables", {}, "x", FALSE),
    Op("variables", {"ro"}, "x", FALSE),
    Op("fluxes", {"sflux"}, "x", FALSE),
    Op("fluxes", {}, "x", FALSE),
    Op("args", {"var", "dvar", "rxn"}, "x", FALSE),
    Op("args", Groups, "x", FALSE),
    Op("args", {"par", "dpar"}, "x", FALSE),
    Op("args", {"ro", "svar", "sflux"}, "x", FALSE),
    Op("rhs", {}, "x", FALSE),
    Op("producers", {}, "x", FALSE),
    Op("producers", {}, "x", TRUE),
    Op("producers", {}, "y", TRUE),
    Op("consumers", {}, "y", FALSE),
    Op("consumers", {}, "y", TRUE),
    Op("consumers", {}, "x", TRUE) >>
Norms == <<"none", "scalar", "seg", "row">>
NT == Len(TableViews) * 8

PlainOps == <<
    Op("variables_prop", {}, "x", FALSE), Op("fluxes_prop", {}, "x", FALSE),
    Op("combined", {}, "x", FALSE), Op("newy0", {}, "x", FALSE) >>
Update(p, val) == [Op("update", {}, p, FALSE) EXCEPT !.val = val]
Updates == << Update("p", 99), Update("q", 0 - 4) >>

Ops ==
    [k \in 1..NT |->
        LET tv == TableViews[((k - 1) \div 8) + 1]
            n  == Norms[(((k - 1) % 8) \div 2) + 1]
        IN [tv EXCEPT !.norm = n, !.concat = ((k - 1) % 2 = 0)]]
    \o PlainOps \o Updates
NOps == Len(Ops)

\* the properties are the two views with their documented flags
Canon(op) ==
    CASE op.view = "variables_prop" -> [op EXCEPT !.view = "variables", !.flags = {"dvar", "svar", "ro"}]
      [] op.view = "fluxes_prop"    -> [op EXCEPT !.view = "fluxes", !.flags = {"sflux"}]
      [] OTHER -> op

IdOf(view, flags, v, scaled, norm, concat) ==
    CHOOSE k \in 1..NOps :
        /\ Ops[k].view = view /\ Ops[k].flags = flags /\ Ops[k].v = v /\ Ops[k].scaled = scaled
        /\ Ops[k].norm = norm /\ Ops[k].concat = concat

\* the interaction alphabet of the longer sequences
Reduced == {
    IdOf("variables", {}, "x", FALSE, "none", TRUE),
    IdOf("variables", {}, "x", FALSE, "seg", TRUE),
    IdOf("variables", {}, "x", FALSE, "row", FALSE),
    IdOf("variables", {}, "x", FALSE, "scalar", TRUE),
    IdOf("variables", {"dvar", "svar", "ro"}, "x", FALSE, "row", TRUE),
    IdOf("fluxes", {"sflux"}, "x", FALSE, "seg", FALSE),
    IdOf("args", Groups, "x", FALSE, "none", TRUE),
    IdOf("args", {"par", "dpar"}, "x", FALSE, "scalar", TRUE),
    IdOf("rhs", {}, "x", FALSE, "none", TRUE),
    IdOf("rhs", {}, "x", FALSE, "row", FALSE),
    IdOf("producers", {}, "x", TRUE, "none", TRUE),
    IdOf("producers", {}, "x", FALSE, "scalar", FALSE),
    IdOf("consumers", {}, "y", TRUE, "seg", TRUE),
    NT + 1, NT + 2, NT + 3, NT + 4, NT + 5, NT + 6 }

(***************************************************************************)
(* The implementation-shaped machine                                       *)
(***************************************************************************)
UsesCache(op) ==
    \/ op.view \in {"args", "fluxes", "combined", "rhs", "producers", "consumers"}
    \/ op.view = "variables" /\ op.flags \cap {"dvar", "svar", "ro"} # {}

InitPars == [n \in {"p", "q"} |-> C.pars[n].v]
LastPars == Res.segs[NSeg(Res)].pars
Merge(base, over) == [n \in DOMAIN base |-> IF n \in DOMAIN over THEN over[n] ELSE base[n]]

\* the parameter values the model holds while segment i is processed
ParSrc(m) == [i \in 1..NSeg(Res) |-> IF Mode = "reapply" THEN Merge(m, Res.segs[i].pars) ELSE m]

\* tables good enough for the reads that do not touch the cache (raw variables, new_y0)
RawTabs == [i \in 1..NSeg(Res) |-> [j \in 1..NRows(Res, i) |-> Res.segs[i].rows[j].y]]

Ones == [i \in 1..NSeg(Res) |-> 1]
SegOfRow(k) == CHOOSE i \in 1..NSeg(Res) : Offset(Res, i) < k /\ k <= Offset(Res, i) + NRows(Res, i)
\* attach the divisors dv (one per segment) to the rows of an answer
Divide(op, ans, dv) ==
    IF op.view = "newy0" THEN <<<<[ans[1][1] EXCEPT !.d = @ * dv[NSeg(Res)]]>>>>
    ELSE IF op.concat THEN <<[k \in DOMAIN ans[1] |-> [ans[1][k] EXCEPT !.d = @ * dv[SegOfRow(k)]]]>>
    ELSE [i \in DOMAIN ans |-> [j \in DOMAIN ans[i] |-> [ans[i][j] EXCEPT !.d = @ * dv[i]]]]

ImplRead(o, m, ch, rd, tn) ==
    LET op == Canon(o)
    IN IF ~UsesCache(op)
       THEN [ans |-> Divide(op, ViewG(C, op, Res, ParSrc(m), RawTabs), rd), mp |-> m, cache |-> ch, taint |-> tn,
             rawdiv |-> IF RawNorm = "inplace" /\ op.view = "variables" /\ op.norm = "seg"
                        THEN [i \in 1..NSeg(Res) |-> rd[i] * Res.fseg[i]] ELSE rd]
       ELSE LET ch2 == IF ch = <<>> THEN Tables(C, Res, ParSrc(m)) ELSE ch
                tn2 == IF ch = <<>> THEN rd ELSE tn
            IN [ans |-> Divide(op, ViewG(C, op, Res, ParSrc(m), ch2), tn2),
                mp |-> IF Mode = "reapply" THEN Merge(m, LastPars) ELSE m,
                cache |-> ch2, taint |-> tn2, rawdiv |-> rd]

Init ==
    /\ rid \in ResultIds
    /\ tabs = SpecTables(Results[rid])
    /\ mp = InitPars
    /\ cache = <<>>
    /\ rawdiv = [i \in 1..NSeg(Results[rid]) |-> 1]
    /\ taint = [i \in 1..NSeg(Results[rid]) |-> 1]
    /\ hist = <<>>
    /\ answers = <<>>

Alphabet == IF hist = <<>> THEN 1..NOps
            ELSE IF hist[1] \in Reduced THEN Reduced ELSE {}

Read(k) ==
    /\ IsRead(Ops[k])
    /\ LET r == ImplRead(Ops[k], mp, cache, rawdiv, taint)
       IN /\ mp' = r.mp /\ cache' = r.cache /\ rawdiv' = r.rawdiv /\ taint' = r.taint
          /\ answers' = Append(answers, r.ans)
    /\ hist' = Append(hist, k)
    /\ UNCHANGED <<rid, tabs>>

UpdateParameter(k) ==
    /\ ~IsRead(Ops[k])
    /\ mp' = [mp EXCEPT ![Ops[k].v] = Ops[k].val]
    /\ hist' = Append(hist, k)
    /\ answers' = Append(answers, <<>>)
    /\ UNCHANGED <<rid, tabs, cache, rawdiv, taint>>

Next == /\ Len(hist) < MaxLen
        /\ \E k \in Alphabet : Read(k) \/ UpdateParameter(k)

\* seeded random walks over the FULL alphabet (-simulate): one randomly drawn op per step, so that a step does
\* not have to generate (and check) all its ~130 siblings
NextRandom == /\ Len(hist) < MaxLen
              /\ LET k == RandomElement(1..NOps) IN Read(k) \/ UpdateParameter(k)

(***************************************************************************)
(* Properties                                                              *)
(***************************************************************************)
\* the answer just given is the specified view of the result: it depends on nothing else
HistoryFree ==
    hist # <<>> /\ IsRead(Ops[hist[Len(hist)]])
        => answers[Len(hist)] = ViewT(Canon(Ops[hist[Len(hist)]]), Res, tabs)

\* asking any earlier read again NOW gives the answer it gave THEN (idempotence, commutation with
\* everything that happened in between, including the parameter updates)
Repeatable ==
    \A k \in DOMAIN hist : IsRead(Ops[hist[k]]) => ImplRead(Ops[hist[k]], mp, cache, rawdiv, taint).ans = answers[k]

\* reading never changes the result: the stored state frames are what the simulation left
ResultUnchanged == rawdiv = Ones

Theorems ==
    hist = <<>> =>
        /\ tabs = SpecTables(Res)
        /\ NvIsRhs(Res, tabs)
        /\ \A i \in 1..NSeg(Res) : LET cs == WithPars(C, Res.segs[i].pars) IN FrozenFast(cs) = M!Frozen(cs)
        /\ \A v \in {"x", "y"} : ProdCons(Res, tabs, v) /\ SignStable(Res, tabs, v)
        /\ \A k \in 1..NT : ConcatIsStack(Ops[k], Res, tabs)
        /\ \A k \in 1..NT : Ops[k].norm = "none" /\ Ops[k].concat => NormLaws(Ops[k], Res, tabs) /\ NormLaws([Ops[k] EXCEPT !.concat = FALSE], Res, tabs)
        /\ TotalRows(Res) # NSeg(Res)                  \* per-row and per-segment factor lists are distinguishable
        \* the linear-flow variant really has state-independent rates (else SimSegs is not its flow)
        /\ Res.variant = "lin" =>
              \A i \in 1..NSeg(Res) : \A j \in 1..NRows(Res, i) :
                 LET cs == WithPars(C, Res.segs[i].pars) r == Res.segs[i].rows[j]
                 IN M!Rhs(cs, r.y, r.t) = M!Rhs(cs, SimScenario.y0, 0)

(***************************************************************************)
(* Emission                                                                *)
(***************************************************************************)
Maximal == hist # <<>> /\ (Len(hist) = MaxLen \/ hist[1] \notin Reduced)

EmitTable ==
    (EmitOn /\ hist = <<>>) =>
        PrintT("@J@" \o ToJson([kind |-> "table", rid |-> rid, variant |-> Res.variant, content |-> C,
                                 res |-> Res, sim |-> IF Res.variant = "lin" THEN SimScenario ELSE [y0 |-> NoFn, steps |-> <<>>],
                                 ops |-> Ops, reduced |-> Reduced,
                                 answers |-> [k \in 1..NOps |-> IF IsRead(Ops[k]) THEN ViewT(Canon(Ops[k]), Res, tabs) ELSE <<>>]])
               \o "@E@")
EmitSeq ==
    (EmitOn /\ Maximal) => PrintT("@J@" \o ToJson([kind |-> "seq", rid |-> rid, seq |-> hist]) \o "@E@")
=============================================================================
