------------------------------ MODULE Translate ------------------------------
(***************************************************************************)
(* C06 -- Python-to-symbolic translation is sound: equal everywhere, or    *)
(* refused.                                                                *)
(*                                                                         *)
(* The module enumerates PROGRAMS (function bodies of module PyFn) from a  *)
(* grammar sized by statements (MaxStmts) and expression depth (MaxDepth), *)
(* built by small action steps so that BFS shares the work and -simulate   *)
(* can sample deep members:                                                *)
(*   Start(w)     begin a statement: assignment to a local, return, if     *)
(*   Expand       the statement's expression grows top-down, one AST node  *)
(*                per step, in prefix order                                *)
(*                (atoms: parameters, locals assigned earlier in the text, *)
(*                number literals, module constants; unary, binary, min /  *)
(*                max, comparisons incl. == != and chains, and/or/not,     *)
(*                conditional expressions, calls of the library functions  *)
(*                Lib with arbitrary - hence permuted - arguments, bound   *)
(*                positionally, by keyword in any order, mixed, or left to *)
(*                a default: CallModes)                                    *)
(*   Commit       the statement enters the innermost open block            *)
(*   AddLoop      (just outside the subset) a counting while loop or a for *)
(*                loop over a literal range; Start also offers augmented   *)
(*                assignments x op= e and assignments to a parameter       *)
(*   EndIf / StartElse / EndElse   close blocks (elif = else holding one   *)
(*                if); code may follow an if; a branch may assign, return  *)
(*                or both; nothing follows a statement that always returns *)
(*                with PassOn a then-branch may stay empty (`pass`)        *)
(*   Finish       the program is complete (it contains a return)           *)
(* For every finished program the specification fixes                      *)
(*   - the renamings: model argument lists incl. the function's own        *)
(*     parameter names in another order, overlapping, repeated, fresh,     *)
(*     and names of the function's locals / constants;                     *)
(*   - the evaluation points: every parameter ranges over {-1, 0, 1, 2}    *)
(*     and every number a comparison of the program (or of a function it   *)
(*     calls) mentions, so branch boundaries are hit exactly;              *)
(*   - how the entry function's non-local names are bound (ScopeModes):    *)
(*     module globals only, or shadowed by function-level imports / by the *)
(*     cells of an enclosing factory (AltTab: same names, other meaning);  *)
(*   - the expected outcome at each point: Run(body, point, EView).        *)
(* Finish prints program + renamings + points + outcomes as JSON (spec ->  *)
(* code).  PWTheorem states that the reference translation of module       *)
(* Piecewise agrees with Run at every point: the property is satisfiable,  *)
(* and with Sim = FALSE (sequential substitution of call arguments) or     *)
(* EqOk = FALSE (structural ==) - the two implementation-shaped wrong      *)
(* instances - TLC finds a counterexample.                                 *)
(***************************************************************************)
EXTENDS Piecewise, TLC, Json

CONSTANTS
    Arities,        \* subset of {1, 2, 3}: number of parameters a, b, c
    Locals,         \* local variable names offered to assignments, subset of {"y", "z"}
    NumLits,        \* natural numbers offered as literals
    ConstNames,     \* subset of {"K", "H"}
    UnOn, BinOn,    \* unary (neg, abs) and binary (BinOps + min, max) operators offered
    CmpOn,          \* comparison operators offered
    Chains,         \* TRUE: chained comparisons a < b <= c
    BoolOn,         \* subset of {"and", "or", "not"}
    IteOn,          \* TRUE: conditional expressions
    CallOn,         \* subset of DOMAIN Lib
    ScopeModes,     \* how the entry function's non-local names are bound: subset of {"plain", "import", "closure", "both"}
    CallModes,      \* how call arguments are bound: subset of {"pos", "kw", "kwrev", "mix", "def", "defkw"}
    AugOn,          \* operators offered for augmented assignments  x op= e   (just outside the translator's subset)
    PassOn,         \* TRUE: an if-branch may be empty (rendered as `pass`): it falls through without binding anything
    AnnOn,          \* TRUE: annotated assignments x: float = e, also onto parameters / earlier locals (just outside)
    ChainOn,        \* TRUE: chained assignments x1 = x2 = e, x2 possibly a parameter (just outside the subset)
    LoopOn,         \* TRUE: counting while loops and for loops over a literal range (just outside the subset)
    MaxToks,        \* bound on the total number of expression nodes of a program (small-scope BFS instances)
    MinStmts, MaxStmts, MaxDepth, MaxNest,   \* MinStmts: a top-level return / Finish needs that many statements
    Sim, EqOk,      \* mode of the reference translation checked by PWTheorem
    CheckPW,        \* TRUE: PWTheorem is evaluated
    EmitOn

VARIABLES params, smode, frames, toks, todo, want, n, used, assigned, done, ok

vars == <<params, smode, frames, toks, todo, want, n, used, assigned, done, ok>>

\* ---- the function library and the module constants -------------------------------------------
A == Var("a")  B == Var("b")  X == Var("x")  Y == Var("y")

Lib ==
    [sub2  |-> FnDef(<<"a", "b">>, <<Ret(Bin("sub", A, B))>>),
     subxy |-> FnDef(<<"x", "y">>, <<Ret(Bin("sub", X, Y))>>),
     ratio |-> FnDef(<<"b", "a">>, <<Ret(Bin("div", B, A))>>),
     pick  |-> FnDef(<<"a", "b">>, <<If(Cmp2("gt", A, B), <<Ret(Bin("sub", A, B))>>, <<>>),
                                      Ret(Bin("mul", B, Num(2)))>>),
     loc   |-> FnDef(<<"a", "b">>, <<Assign("y", Bin("mul", A, Num(2))),
                                      If(Cmp2("eq", B, Num(1)), <<Assign("y", Bin("add", Y, B))>>, <<>>),
                                      Ret(Bin("sub", Y, B))>>),
     nest  |-> FnDef(<<"a", "b">>, <<Ret(Bin("mul", Call("sub2", <<B, A>>), Num(2)))>>),
     kmul  |-> FnDef(<<"a">>, <<Ret(Bin("mul", A, Const("K")))>>),
     dflt  |-> FnDefD(<<"a", "b">>, <<RFromInt(3)>>, <<Ret(Bin("sub", Bin("mul", A, Num(2)), B))>>)]     \* def dflt(a, b=3.0)

ConstTab == [K |-> ConstDef(RFromInt(4)), H |-> ConstDef(R(1, 2))]
FT == Lib @@ ConstTab

\* ---- scoping: the SAME names bound differently in an inner scope of the entry function ----------------------------
\* AltTab holds the inner bindings (module c06alt); the entry function reaches them through function-level imports
\* (`from c06alt import K_alt as K`) or through the cells of an enclosing factory function (closure).  Only names
\* the body uses are bound (as in Python).  Callees keep seeing the module's own bindings.
AltTab ==
    [K    |-> ConstDef(RFromInt(6)),
     H    |-> ConstDef(R(1, 4)),
     sub2 |-> FnDef(<<"a", "b">>, <<Ret(Bin("sub", Bin("mul", B, Num(2)), A))>>),
     pick |-> FnDef(<<"a", "b">>, <<If(Cmp2("lt", A, B), <<Ret(Bin("add", A, B))>>, <<>>), Ret(Bin("mul", A, Num(3)))>>),
     kmul |-> FnDef(<<"a">>, <<Ret(Bin("add", A, Num(5)))>>)]
AltConsts == {x \in DOMAIN AltTab : AltTab[x].k = "const"}

AllParams == <<"a", "b", "c">>

\* ---- construction state ----------------------------------------------------------------------
NoWant == [k |-> "none", name |-> "", op |-> ""]
TopFrame == [kind |-> "top", stmts |-> <<>>, test |-> BoolLit(TRUE), thenb |-> <<>>]

Init ==
    /\ \E ar \in Arities : params = SubSeq(AllParams, 1, ar)
    /\ smode \in ScopeModes
    /\ frames = <<TopFrame>>
    /\ toks = <<>>
    /\ todo = <<>>
    /\ want = NoWant
    /\ n = 0
    /\ used = 0
    /\ assigned = {}
    /\ done = FALSE
    /\ ok = TRUE

Cur == frames[Len(frames)]
SetCur(f) == [frames EXCEPT ![Len(frames)] = f]

RECURSIVE AlwaysReturns(_)
AlwaysReturns(stmts) ==
    /\ stmts # <<>>
    /\ LET s == stmts[Len(stmts)]
       IN \/ s.k = "ret"
          \/ s.k = "if" /\ AlwaysReturns(s.body) /\ AlwaysReturns(s.orelse)

Idle == ~done /\ want.k = "none"

\* token / open-nonterminal records of the expression builder (see below)
Tok(k, s, s2, i, ar) == [k |-> k, s |-> s, s2 |-> s2, i |-> i, ar |-> ar]
Open(t, d) == [t |-> t, d |-> d]

Scope == SeqRange(params) \cup assigned
AnyReturn == \E j \in DOMAIN frames : HasReturn(frames[j].stmts) \/ HasReturn(frames[j].thenb)

\* the guards keep every behaviour completable: the last statement that fits must be able to be a return
Start ==
    /\ Idle /\ n < MaxStmts /\ ~AlwaysReturns(Cur.stmts) /\ used < MaxToks
    /\ \/ /\ IF n + 2 <= MaxStmts THEN TRUE ELSE AnyReturn
          /\ \/ \E x \in Locals : want' = [k |-> "assign", name |-> x, op |-> ""]
             \/ \E x \in Scope, op \in AugOn : want' = [k |-> "aug", name |-> x, op |-> op]
             \/ AnnOn /\ \E x \in Locals : want' = [k |-> "ann", name |-> x, op |-> ""]
             \/ /\ ChainOn          \* second target: a name that already has a value (parameter / earlier local)
                /\ \E x \in Locals : \E x2 \in Scope \ {x} : want' = [k |-> "chain", name |-> x, op |-> x2]
          /\ todo' = <<Open("num", MaxDepth)>>
       \/ /\ Len(frames) = 1 => n + 1 >= MinStmts
          /\ want' = [k |-> "ret", name |-> "", op |-> ""]
          /\ todo' = <<Open("num", MaxDepth)>>
       \/ /\ n + 2 <= MaxStmts /\ Len(frames) <= MaxNest /\ used + 4 <= MaxToks
          /\ want' = [k |-> "if", name |-> "", op |-> ""]
          /\ todo' = <<Open("bool", MaxDepth)>>
    /\ toks' = <<>>
    /\ UNCHANGED <<params, smode, frames, n, used, assigned, done, ok>>

\* ---- expressions: top-down, one AST node per step, in prefix order -------------------------------
\* todo: the open nonterminals [t |-> "num" | "bool", d |-> remaining depth]; toks: the tokens so far.
\* A token is [k, s, s2, i, ar]: tag, string payloads (name / operator), integer payload, number of children.
Building == ~done /\ want.k # "none" /\ todo # <<>>

\* a call token carries its binding mode in s2; MkCall turns the argument expressions (source order) into the node
\*   pos    f(x, y)        kw   f(a=x, b=y)      kwrev  f(b=x, a=y)      mix  f(x, b=y)
\*   def    f(x)           defkw f(a=x)          (last parameter left to its default)
ModesOf(f) == {m \in CallModes : /\ (m \in {"def", "defkw"} => Len(DefsOf(Lib[f])) > 0)
                                  /\ (m = "mix" => Len(Lib[f].params) >= 2)}
CallArity(f, m) == IF m \in {"def", "defkw"} THEN Len(Lib[f].params) - 1 ELSE Len(Lib[f].params)
MkCall(tk, args) ==
    LET ps == Lib[tk.s].params
        na == Len(args)
    IN CASE tk.s2 \in {"pos", "def"} -> Call(tk.s, args)
         [] tk.s2 \in {"kw", "defkw"} -> CallKw(tk.s, args, [j \in 1..na |-> ps[j]])
         [] tk.s2 = "kwrev" -> CallKw(tk.s, args, [j \in 1..na |-> ps[na + 1 - j]])
         [] tk.s2 = "mix" -> CallKw(tk.s, args, [j \in 1..na |-> IF j = 1 THEN "" ELSE ps[j]])

NumAtoms == {Tok("var", x, "", 0, 0) : x \in Scope} \cup {Tok("num", "", "", i, 0) : i \in NumLits}
            \cup {Tok("const", c, "", 0, 0) : c \in ConstNames}
NumOps == {Tok(op, "", "", 0, 1) : op \in UnOn} \cup {Tok(op, "", "", 0, 2) : op \in BinOn}
          \cup UNION {{Tok("call", f, m, 0, CallArity(f, m)) : m \in ModesOf(f)} : f \in CallOn}
CmpToks == {Tok("cmp", op, "", 0, 2) : op \in CmpOn}
           \cup (IF Chains THEN {Tok("cmp", o1, o2, 0, 3) : o1 \in CmpOn, o2 \in CmpOn} ELSE {})
BoolToks == {Tok(op, "", "", 0, IF op = "not" THEN 1 ELSE 2) : op \in BoolOn}

\* the productions available for nonterminal o
Prods(o) ==
    IF o.t = "num"
    THEN NumAtoms \cup (IF o.d >= 1 THEN NumOps ELSE {})
         \cup (IF o.d >= 2 /\ IteOn THEN {Tok("ite", "", "", 0, 3)} ELSE {})
    ELSE CmpToks \cup (IF o.d >= 2 THEN BoolToks ELSE {})

\* the children a production opens, in prefix order
Children(tk, o) ==
    IF tk.ar = 0 THEN <<>>
    ELSE IF tk.k = "ite" THEN <<Open("bool", o.d - 1), Open("num", o.d - 1), Open("num", o.d - 1)>>
    ELSE IF tk.k \in {"and", "or", "not"} THEN [j \in 1..tk.ar |-> Open("bool", o.d - 1)]
    ELSE [j \in 1..tk.ar |-> Open("num", o.d - 1)]

\* tokens an open nonterminal needs at least (a number: one atom; a boolean: a comparison of two atoms)
RECURSIVE NeedAll(_)
NeedAll(td) == IF td = <<>> THEN 0 ELSE (IF td[1].t = "num" THEN 1 ELSE 3) + NeedAll(Tail(td))

Expand ==
    /\ Building
    /\ \E tk \in Prods(todo[1]) :
          LET td == Children(tk, todo[1]) \o Tail(todo) IN
          /\ used + 1 + NeedAll(td) <= MaxToks
          /\ toks' = Append(toks, tk)
          /\ todo' = td
    /\ used' = used + 1
    /\ UNCHANGED <<params, smode, frames, want, n, assigned, done, ok>>

RECURSIVE Parse(_, _)
Parse(ts, pos) ==
    LET tk == ts[pos] IN
    IF tk.ar = 0
    THEN [e |-> IF tk.k = "var" THEN Var(tk.s) ELSE IF tk.k = "num" THEN Num(tk.i) ELSE Const(tk.s), next |-> pos + 1]
    ELSE LET c1 == Parse(ts, pos + 1) IN
         IF tk.ar = 1 THEN [e |-> IF tk.k = "call" THEN MkCall(tk, <<c1.e>>) ELSE [k |-> tk.k, a |-> c1.e], next |-> c1.next]
         ELSE LET c2 == Parse(ts, c1.next) IN
              IF tk.ar = 2
              THEN [e |-> CASE tk.k = "cmp" -> Cmp2(tk.s, c1.e, c2.e)
                            [] tk.k = "call" -> MkCall(tk, <<c1.e, c2.e>>)
                            [] tk.k \in {"min", "max", "and", "or"} -> [k |-> tk.k, args |-> <<c1.e, c2.e>>]
                            [] OTHER -> Bin(tk.k, c1.e, c2.e),
                    next |-> c2.next]
              ELSE LET c3 == Parse(ts, c2.next) IN
                   [e |-> CASE tk.k = "cmp" -> Cmp(<<tk.s, tk.s2>>, <<c1.e, c2.e, c3.e>>)
                            [] tk.k = "call" -> MkCall(tk, <<c1.e, c2.e, c3.e>>)
                            [] tk.k = "ite" -> Ite(c1.e, c2.e, c3.e),
                    next |-> c3.next]
Parsed == Parse(toks, 1).e

Complete == ~done /\ want.k # "none" /\ todo = <<>>
Useful == want.k \in {"assign", "ann", "aug", "chain"} \/ FreeVars(Parsed) # {}          \* no constant tests / constant results

\* a finished expression that may not be used (constant) is built again
Retry ==
    /\ Complete /\ ~Useful
    /\ toks' = <<>>
    /\ todo' = <<Open(IF want.k = "if" THEN "bool" ELSE "num", MaxDepth)>>
    /\ used' = used - Len(toks)
    /\ UNCHANGED <<params, smode, frames, want, n, assigned, done, ok>>

Commit ==
    /\ Complete /\ Useful
    /\ LET e == Parsed IN
       \/ /\ want.k = "assign"
          /\ frames' = SetCur([Cur EXCEPT !.stmts = Append(@, Assign(want.name, e))])
          /\ assigned' = assigned \cup {want.name}
       \/ /\ want.k = "ann"
          /\ frames' = SetCur([Cur EXCEPT !.stmts = Append(@, AnnAssign(want.name, e))])
          /\ assigned' = assigned \cup {want.name}
       \/ /\ want.k = "aug"
          /\ frames' = SetCur([Cur EXCEPT !.stmts = Append(@, Aug(want.op, want.name, e))])
          /\ UNCHANGED assigned
       \/ /\ want.k = "chain"
          /\ frames' = SetCur([Cur EXCEPT !.stmts = Append(@, Chain(<<want.name, want.op>>, e))])
          /\ assigned' = assigned \cup {want.name}
       \/ /\ want.k = "ret"
          /\ frames' = SetCur([Cur EXCEPT !.stmts = Append(@, Ret(e))])
          /\ UNCHANGED assigned
       \/ /\ want.k = "if"
          /\ frames' = Append(frames, [kind |-> "then", stmts |-> <<>>, test |-> e, thenb |-> <<>>])
          /\ UNCHANGED assigned
    /\ toks' = <<>>
    /\ todo' = <<>>
    /\ want' = NoWant
    /\ n' = n + 1
    /\ UNCHANGED <<params, smode, used, done, ok>>

\* one step: a counting loop over a local that is already bound (two statements).  The loops terminate:
\* the bound is a parameter or a literal, which the loop body does not assign.
Loops ==
    LET xs == assigned \ SeqRange(params)
        bounds == {Var(p) : p \in SeqRange(params)} \cup {Num(i) : i \in NumLits}
        steps == {Var(p) : p \in SeqRange(params)} \cup {Num(1), Var("i")}
    IN {While(Cmp2("lt", Var(x), bd), <<Aug("add", x, Num(1))>>) : x \in xs, bd \in bounds}
       \cup {While(Cmp2("lt", Var(x), bd), <<Assign(x, Bin("add", Var(x), Num(1)))>>) : x \in xs, bd \in bounds}
       \cup {For("i", c, <<Aug("add", x, st)>>) : x \in xs, c \in {0, 1, 2}, st \in steps}
       \cup {For("i", c, <<Assign(x, Bin("mul", Var(x), st))>>) : x \in xs, c \in {1, 2}, st \in steps}

AddLoop ==
    /\ Idle /\ LoopOn /\ n + 3 <= MaxStmts /\ ~AlwaysReturns(Cur.stmts) /\ used + 4 <= MaxToks
    /\ \E lp \in Loops : frames' = SetCur([Cur EXCEPT !.stmts = Append(@, lp)])
    /\ n' = n + 2
    /\ used' = used + 3
    /\ UNCHANGED <<params, smode, toks, todo, want, assigned, done, ok>>

\* ---- closing blocks ------------------------------------------------------------------------------
Parent == frames[Len(frames) - 1]
PopWith(s) == frames' = [SubSeq(frames, 1, Len(frames) - 1) EXCEPT ![Len(frames) - 1] =
                            [Parent EXCEPT !.stmts = Append(@, s)]]

EndIf ==
    /\ Idle /\ Len(frames) > 1 /\ Cur.kind = "then" /\ (IF PassOn THEN TRUE ELSE Cur.stmts # <<>>)
    /\ PopWith(If(Cur.test, Cur.stmts, <<>>))
    /\ UNCHANGED <<params, smode, toks, todo, want, n, used, assigned, done, ok>>

StartElse ==
    /\ Idle /\ Len(frames) > 1 /\ Cur.kind = "then" /\ (IF PassOn THEN TRUE ELSE Cur.stmts # <<>>) /\ n < MaxStmts
    /\ frames' = SetCur([Cur EXCEPT !.kind = "else", !.thenb = Cur.stmts, !.stmts = <<>>])
    /\ UNCHANGED <<params, smode, toks, todo, want, n, used, assigned, done, ok>>

EndElse ==
    /\ Idle /\ Len(frames) > 1 /\ Cur.kind = "else" /\ Cur.stmts # <<>>
    /\ PopWith(If(Cur.test, Cur.thenb, Cur.stmts))
    /\ UNCHANGED <<params, smode, toks, todo, want, n, used, assigned, done, ok>>

\* ---- what the specification says about a finished program -----------------------------------------
Body == frames[1].stmts

RECURSIVE CalledFrom(_, _)
CalledFrom(fs, seen) ==
    LET new == UNION {BodyCalls(Lib[f].body) : f \in fs \cap DOMAIN Lib} \ (seen \cup fs)
    IN IF new = {} THEN seen \cup fs ELSE CalledFrom(new, seen \cup fs)
Called == CalledFrom(BodyCalls(Body), {})

ValueOfNum(e) == IF e.k = "num" THEN e.v ELSE IF e.name \in DOMAIN ConstTab THEN ConstTab[e.name].v ELSE Zero
Boundary == {ValueOfNum(e) : e \in BodyCmpNums(Body) \cup UNION {BodyCmpNums(Lib[f].body) : f \in Called \cap DOMAIN Lib}}
           \cup (IF smode = "plain" THEN {}
                 ELSE {AltTab[e.name].v : e \in {x \in BodyCmpNums(Body) : x.k = "const" /\ x.name \in AltConsts}})
BaseVals == {RFromInt(0 - 1), Zero, One, RFromInt(2)}
GridVals(j) == IF j <= 2 THEN BaseVals \cup Boundary ELSE {One, RFromInt(2)} \cup Boundary

Points == {pt \in [SeqRange(params) -> BaseVals \cup Boundary] :
              \A j \in DOMAIN params : pt[params[j]] \in GridVals(j)}

\* renamings: the model names passed as model_args, in parameter order
Fresh == <<"m1", "m2", "m3">>
Renamings ==
    LET k == Len(params)
        own == params
        rot == [j \in 1..k |-> params[(j % k) + 1]]
        rev == [j \in 1..k |-> params[k + 1 - j]]
        fresh == SubSeq(Fresh, 1, k)
        part == [j \in 1..k |-> IF j = 1 THEN params[k] ELSE Fresh[j]]
        dup == [j \in 1..k |-> IF j <= 2 THEN "m1" ELSE Fresh[j]]
        shadow == SubSeq(<<"y", "K", "z">>, 1, k)
    IN {[tag |-> "own", names |-> own], [tag |-> "fresh", names |-> fresh], [tag |-> "shadow", names |-> shadow]}
       \cup (IF k >= 2 THEN {[tag |-> "rot", names |-> rot], [tag |-> "rev", names |-> rev],
                             [tag |-> "part", names |-> part], [tag |-> "dup", names |-> dup]} ELSE {})

Used == BodyConsts(Body) \cup BodyCalls(Body)
Restrict(tab, S) == [x \in DOMAIN tab \cap S |-> tab[x]]
\* import: every used name that has an inner binding is imported in the function; closure: it is a cell;
\* both: the constants are imported, the callables are cells
ImportNames == CASE smode = "import" -> Used \cap DOMAIN AltTab
                 [] smode = "both" -> Used \cap AltConsts
                 [] OTHER -> {}
CellNames   == CASE smode = "closure" -> Used \cap DOMAIN AltTab
                 [] smode = "both" -> Used \cap (DOMAIN AltTab \ AltConsts)
                 [] OTHER -> {}
EntryScopes == <<Restrict(AltTab, ImportNames), Restrict(AltTab, CellNames)>>
EView == IF smode = "plain" THEN FT ELSE View(EntryScopes, FT)

Outcome(pt) == LET r == Run(Body, pt, EView) IN [env |-> pt, st |-> r.st, v |-> r.v]

Scenario ==
    [t |-> "prog", params |-> params, body |-> Body, calls |-> Called, consts |-> BodyConsts(Body),
     smode |-> smode, imports |-> ImportNames, cells |-> CellNames,
     rens |-> Renamings,
     pts |-> {Outcome(pt) : pt \in Points}]

IsFirst == n = 0 /\ want.k = "none" /\ ~done

\* ---- theorems ---------------------------------------------------------------------------------------
Mode == [sim |-> Sim, eq |-> EqOk]
PWHolds == LET tr == TranslateBody(params, Body, EView, Mode) IN \A pt \in Points : PWAgreesT(tr, Body, EView, pt)

\* Finish completes the program.  The scenario is printed and the theorem evaluated HERE, once per
\* program (an invariant would be evaluated twice per state by the simulator); the verdict is kept in ok.
Finish ==
    /\ Idle /\ Len(frames) = 1 /\ HasReturn(Cur.stmts) /\ (IF n >= MinStmts THEN TRUE ELSE AlwaysReturns(Cur.stmts))     \* IF, not \/: TLC would split the action
    /\ done' = TRUE
    /\ ok' = /\ (EmitOn => PrintT("@J@" \o ToJson(Scenario) \o "@E@"))
             /\ ((CheckPW /\ ~HasLoop(Body)) => PWHolds)
    /\ UNCHANGED <<params, smode, frames, toks, todo, want, n, used, assigned>>

Next == Start \/ Expand \/ Retry \/ Commit \/ AddLoop \/ EndIf \/ StartElse \/ EndElse \/ Finish

Spec == Init /\ [][Next]_vars

\* the reference translation agrees with Run on every finished program, at every point
PWTheorem == ok

\* the library is printed once; its functions satisfy the theorem at every grid point
EmitLib ==
    (EmitOn /\ IsFirst /\ Len(params) = CHOOSE x \in Arities : \A z \in Arities : x <= z)
        => PrintT("@J@" \o ToJson([t |-> "lib", lib |-> Lib, alt |-> AltTab, consts |-> [c \in DOMAIN ConstTab |-> ConstTab[c].v]]) \o "@E@")

LibTheorem ==
    (CheckPW /\ IsFirst) =>
        \A f \in DOMAIN Lib :
            LET tr == Translate(FT, f, Mode)
            IN \A pt \in [SeqRange(Lib[f].params) -> BaseVals \cup {RFromInt(4)}] : PWAgreesT(tr, Lib[f].body, FT, pt)

WellFormedAlways == done => WellFormed(params, Body, FT)
=============================================================================
