\* C09: focused generator (-simulate): y0= given, variant with the assignment-defined parameter, initial-value column present (row beats y0) or absent (y0 in force), every kind
CONSTANTS
    Ns = {2, 3}
    Ws = {1, 2}
    Modes = {"seq", "par"}
    Variants = {"ia"}
    ColSets = {{"x"}, {"k", "x"}, {"x", "q"}, {"k"}}
    Kinds = {"steady_state", "time_course", "protocol", "protocol_time_course", "mc.steady_state", "mc.time_course", "mc.scan_steady_state"}
    FailModes = {"intfail", "nosteady", "raise", "latestep"}
    LabelSchemes = {"range", "shuffled", "strings", "repeated"}
    KeyedByLabel = FALSE
    NameSchemes = {"plain", "keyword", "underscore", "operator", "mixed"}
    Y0s = {9}
    Y0Again = FALSE
    MaxDur = 2
    SharedInSeq = FALSE
    Timed = TRUE
    Fifo = TRUE
    EmitOn = TRUE
INIT Init
NEXT Next
INVARIANT RowIndependent
INVARIANT Aligned
INVARIANT FailedIsNaN
INVARIANT Bounded
INVARIANT CallerUntouched
INVARIANT Emit
CHECK_DEADLOCK FALSE
