\* C18 procedure machine: closed loop, parallel on per-task copies: every property holds in every interleaving
CONSTANTS
    Mode = "par"
    RestorePars = TRUE
    RestoreY0 = FALSE
    Cyclic = TRUE
    EarlyRestoreY0 = FALSE
INIT Init
NEXT Next
INVARIANT ParsRestored
INVARIANT InitsRestored
INVARIANT ResultsRight
INVARIANT ParNeverTouches
CHECK_DEADLOCK FALSE
