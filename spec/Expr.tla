-------------------------------- MODULE Expr --------------------------------
(***************************************************************************)
(* Shared core (C06, C07, C08, C11, C12): expression ASTs of the Python    *)
(* subset MxlPy accepts in rate laws, and their meaning.                   *)
(*                                                                         *)
(* INTERFACE                                                               *)
(* Values.  A value is a record: a rational [n, d] (module Rat), the two   *)
(*   non-numbers Undef / Skip (d = 0), or a boolean VBool(x) = [b |-> x].  *)
(*   (Booleans are wrapped because TLC refuses to compare a record with    *)
(*   TRUE/FALSE.)  IsBoolV, IsNumV, RatV, BadV classify a value.           *)
(* Expressions.  Tagged records, tag in field k; a field name always holds *)
(*   the same type (k, name: STRING; v: value; a, b, c: expression; args:  *)
(*   sequence of expressions; ops: sequence of STRING; val: BOOLEAN), so   *)
(*   sets of ASTs are legal in TLC.  Constructors:                         *)
(*     Num(i) NumR(n, d) Lit(v)        number literal                      *)
(*     BoolLit(x)                      True / False                        *)
(*     Var(x)                          parameter or local variable         *)
(*     Const(c)                        named module-level constant         *)
(*     Neg(a) Abs(a) Not(a)                                                *)
(*     Bin(op, a, b)   op \in BinOps = add sub mul div pow floordiv mod    *)
(*     Min(args) Max(args)             Python min/max, >= 2 arguments      *)
(*     Cmp(ops, args)  chained comparison, Len(args) = Len(ops) + 1,       *)
(*                     ops from lt le gt ge eq ne;  Cmp2(op, a, b)         *)
(*     And(args) Or(args)              short-circuit, operands boolean     *)
(*     Ite(c, a, b)                    Python  a if c else b               *)
(*     Call(f, args)                   call of the named function f        *)
(*     CallKw(f, args, kw)             the same with arguments bound by    *)
(*                                     keyword (kw[j] = "" positional)     *)
(*     Fn(f, args)                     opaque mathematical function (exp,  *)
(*                                     log, sqrt, ...): Eval yields Skip - *)
(*                                     only the Python side interprets it  *)
(* Function table ft: a function from names to                             *)
(*     FnDefD(params, defs, body)  with default values for the last params *)
(*     FnDef(params, body)   [k |-> "fn", params |-> <<names>>, body |->   *)
(*                            <<statements>>]  (statements: module PyFn)   *)
(*     ConstDef(v)           [k |-> "const", v |-> rational]               *)
(*   i.e. the global name space of the Python module(s) a function lives   *)
(*   in.  Functions must not be recursive.  A definition may carry a scope *)
(*   chain (FnDefS: function-level imports, closure cells) that is         *)
(*   searched before the module table; View / CalleeView build the table a *)
(*   function sees (see "name resolution" below).                          *)
(* Meaning.                                                                *)
(*     Eval(e, env, ft)      env: function from names to values.  Python   *)
(*                           order of evaluation, short-circuit and/or/    *)
(*                           chained comparison/ite; first bad value wins; *)
(*                           unbound name, unknown function, wrong arity,  *)
(*                           a callee that falls off its end -> Undef;     *)
(*                           type confusion (arithmetic on booleans,       *)
(*                           truthiness of numbers) -> Skip.               *)
(*     RunFrom(body, i, env, ft)  statement interpreter incl. the loops    *)
(*                           RunWhile / RunFor (documented in              *)
(*                           PyFn; it lives here because TLA+ wants        *)
(*                           mutually recursive operators in one module)   *)
(*     FreeVars(e)  Consts(e)  Calls(e)  CmpNums(e)  Depth(e)              *)
(*     Subst(e, sigma)       simultaneous substitution, sigma: names ->    *)
(*                           expressions (names outside DOMAIN unchanged)  *)
(*     Rename(e, m)          simultaneous renaming, m: names -> names      *)
(* JSON.  ToJson(e) is what mbt/render.py consumes (expr_src, py_eval).    *)
(***************************************************************************)
EXTENDS Integers, Sequences, FiniteSets, Rat

\* ---- values ---------------------------------------------------------------------------
VBool(x) == [b |-> x]
IsBoolV(v) == "b" \in DOMAIN v
IsNumV(v)  == "d" \in DOMAIN v
BadV(v)    == IsNumV(v) /\ v.d = 0
RatV(v)    == IsNumV(v) /\ v.d > 0
NumOf(v)   == IF IsBoolV(v) THEN Skip ELSE v      \* a number is required here

\* ---- constructors ---------------------------------------------------------------------
Lit(v)      == [k |-> "num", v |-> v]
Num(i)      == Lit(RFromInt(i))
NumR(n, d)  == Lit(R(n, d))
BoolLit(x)  == [k |-> "bool", val |-> x]
Var(x)      == [k |-> "var", name |-> x]
Const(c)    == [k |-> "const", name |-> c]
Neg(a)      == [k |-> "neg", a |-> a]
Abs(a)      == [k |-> "abs", a |-> a]
Not(a)      == [k |-> "not", a |-> a]
Bin(op, a, b) == [k |-> op, a |-> a, b |-> b]
Min(args)   == [k |-> "min", args |-> args]
Max(args)   == [k |-> "max", args |-> args]
Cmp(ops, args) == [k |-> "cmp", ops |-> ops, args |-> args]
Cmp2(op, a, b) == Cmp(<<op>>, <<a, b>>)
And(args)   == [k |-> "and", args |-> args]
Or(args)    == [k |-> "or", args |-> args]
Ite(c, a, b) == [k |-> "ite", c |-> c, a |-> a, b |-> b]
Call(f, args) == [k |-> "call", name |-> f, args |-> args]
\* a call whose arguments are bound by keyword: kw[j] = "" for a positional argument (these come first, as in
\* Python), otherwise the parameter name argument j is bound to.  A call node without field kw is all-positional.
CallKw(f, args, kw) == [k |-> "call", name |-> f, args |-> args, kw |-> kw]
Fn(f, args)   == [k |-> "fn", name |-> f, args |-> args]

FnDef(params, body) == [k |-> "fn", params |-> params, body |-> body]
\* defs: default values (rationals) of the LAST Len(defs) parameters; a definition without field defs has none
FnDefD(params, defs, body) == [k |-> "fn", params |-> params, body |-> body, defs |-> defs]
ConstDef(v)         == [k |-> "const", v |-> v]

BinOps   == {"add", "sub", "mul", "div", "pow", "floordiv", "mod"}
UnOps    == {"neg", "abs", "not"}
NaryOps  == {"min", "max", "and", "or", "cmp", "call", "fn"}
CmpOps   == {"lt", "le", "gt", "ge", "eq", "ne"}

SeqRange(s) == {s[j] : j \in DOMAIN s}

\* ---- arithmetic / comparison on values that are known to be rationals --------------------
Arith(op, a, b) ==
    CASE op = "add" -> RAdd(a, b)
      [] op = "sub" -> RSub(a, b)
      [] op = "mul" -> RMul(a, b)
      [] op = "div" -> RDiv(a, b)
      [] op = "pow" -> RPow(a, b)
      [] op = "floordiv" -> RFloorDiv(a, b)
      [] op = "mod" -> RMod(a, b)

CmpHolds(op, a, b) ==
    CASE op = "lt" -> RLt(a, b)
      [] op = "le" -> RLe(a, b)
      [] op = "gt" -> RLt(b, a)
      [] op = "ge" -> RLe(b, a)
      [] op = "eq" -> a = b
      [] op = "ne" -> a # b

\* ---- binding of call arguments to parameters (Python: positional first, then by NAME, then defaults) ----------
KwOf(e)   == IF "kw" \in DOMAIN e THEN e.kw ELSE [j \in DOMAIN e.args |-> ""]
DefsOf(f) == IF "defs" \in DOMAIN f THEN f.defs ELSE <<>>
NPos(e)   == Cardinality({j \in DOMAIN e.args : KwOf(e)[j] = ""})
KwIdx(e, x) == {j \in DOMAIN e.args : KwOf(e)[j] = x}
FirstDef(f) == Len(f.params) - Len(DefsOf(f)) + 1            \* index of the first parameter that has a default
\* the call is well-formed for f: no surplus positional argument, every keyword names a parameter that is not
\* already bound positionally, no keyword twice, every remaining parameter has a default (else: TypeError)
BindOk(f, e) ==
    LET np == NPos(e)
        P == Len(f.params)
        kw == KwOf(e)
    IN /\ np <= P
       /\ \A j \in DOMAIN e.args : (kw[j] = "") = (j <= np)
       /\ \A j \in DOMAIN e.args : kw[j] # "" =>
              /\ \E m \in (np + 1)..P : f.params[m] = kw[j]
              /\ Cardinality(KwIdx(e, kw[j])) = 1
       /\ \A m \in (np + 1)..P : KwIdx(e, f.params[m]) # {} \/ m >= FirstDef(f)
\* index into e.args of the argument bound to parameter m, 0 when the default is used (requires BindOk)
ArgFor(f, e, m) ==
    IF m <= NPos(e) THEN m
    ELSE IF KwIdx(e, f.params[m]) # {} THEN CHOOSE j \in KwIdx(e, f.params[m]) : TRUE
    ELSE 0
ParamIdx(f, x) == CHOOSE m \in DOMAIN f.params : f.params[m] = x

\* ---- name resolution: a chain of scopes on top of the module's globals ------------------------------------------
\* Locals (parameters and assigned names) live in env.  Every other name - a named constant, a called function -
\* is resolved like Python does: innermost first through the function's own scope chain (a definition may carry
\* scopes |-> <<tab1, tab2, ...>>: function-level imports with their aliases, then the cells of enclosing
\* functions; each tab maps names to ConstDef / FnDef), then the module's globals.  ft is the VIEW of the function
\* being evaluated; it remembers the module table under "__mod" so that a callee starts again from the module's
\* globals plus its OWN chain (a callee never sees the caller's imports or cells).
ScopesOf(f) == IF "scopes" \in DOMAIN f THEN f.scopes ELSE <<>>
ModTab(ft)  == IF "__mod" \in DOMAIN ft THEN ft["__mod"].tab ELSE ft
Over(a, b)  == [x \in DOMAIN a \cup DOMAIN b |-> IF x \in DOMAIN a THEN a[x] ELSE b[x]]       \* a wins
RECURSIVE Overlay(_, _, _)
Overlay(sc, i, base) == IF i > Len(sc) THEN base ELSE Over(sc[i], Overlay(sc, i + 1, base))
View(sc, ft) == LET m == ModTab(ft) IN Over([x \in {"__mod"} |-> [k |-> "mod", tab |-> m]], Overlay(sc, 1, m))
CalleeView(f, ft) == IF ScopesOf(f) = <<>> /\ "__mod" \notin DOMAIN ft THEN ft ELSE View(ScopesOf(f), ft)
FnDefS(params, defs, body, scopes) == [k |-> "fn", params |-> params, body |-> body, defs |-> defs, scopes |-> scopes]

\* ---- meaning ---------------------------------------------------------------------------
RECURSIVE Eval(_, _, _), EvalSeq(_, _, _, _), EvalCmp(_, _, _, _, _), EvalAnd(_, _, _, _),
          EvalOr(_, _, _, _), FoldMinMax(_, _, _, _), RunFrom(_, _, _, _), RunWhile(_, _, _, _), RunFor(_, _, _, _, _)

\* values of args[i..], left to right, stopping after the first bad one (which is then the last element)
EvalSeq(args, i, env, ft) ==
    IF i > Len(args) THEN <<>>
    ELSE LET v == Eval(args[i], env, ft)
         IN IF BadV(v) THEN <<v>> ELSE <<v>> \o EvalSeq(args, i + 1, env, ft)

\* left = value of e.args[i] (a rational); decide link i, then go on (Python: a < b < c is a < b and b < c, b once)
EvalCmp(e, i, left, env, ft) ==
    IF i > Len(e.ops) THEN VBool(TRUE)
    ELSE LET right == NumOf(Eval(e.args[i + 1], env, ft))
         IN IF BadV(right) THEN right
            ELSE IF ~CmpOk(left, right) THEN Skip
            ELSE IF CmpHolds(e.ops[i], left, right) THEN EvalCmp(e, i + 1, right, env, ft)
            ELSE VBool(FALSE)

EvalAnd(args, i, env, ft) ==
    IF i > Len(args) THEN VBool(TRUE)
    ELSE LET v == Eval(args[i], env, ft)
         IN IF BadV(v) THEN v ELSE IF ~IsBoolV(v) THEN Skip
            ELSE IF v.b THEN EvalAnd(args, i + 1, env, ft) ELSE VBool(FALSE)

EvalOr(args, i, env, ft) ==
    IF i > Len(args) THEN VBool(FALSE)
    ELSE LET v == Eval(args[i], env, ft)
         IN IF BadV(v) THEN v ELSE IF ~IsBoolV(v) THEN Skip
            ELSE IF v.b THEN VBool(TRUE) ELSE EvalOr(args, i + 1, env, ft)

FoldMinMax(op, vs, i, acc) ==
    IF i > Len(vs) THEN acc
    ELSE FoldMinMax(op, vs, i + 1, IF op = "min" THEN RMin(acc, NumOf(vs[i])) ELSE RMax(acc, NumOf(vs[i])))

Eval(e, env, ft) ==
    CASE e.k = "num"   -> e.v
      [] e.k = "bool"  -> VBool(e.val)
      [] e.k = "var"   -> IF e.name \in DOMAIN env THEN env[e.name] ELSE Undef
      [] e.k = "const" -> IF e.name \in DOMAIN ft /\ ft[e.name].k = "const" THEN ft[e.name].v ELSE Undef
      [] e.k = "neg"   -> RNeg(NumOf(Eval(e.a, env, ft)))
      [] e.k = "abs"   -> RAbs(NumOf(Eval(e.a, env, ft)))
      [] e.k = "not"   -> LET a == Eval(e.a, env, ft)
                          IN IF BadV(a) THEN a ELSE IF ~IsBoolV(a) THEN Skip ELSE VBool(~a.b)
      [] e.k \in BinOps ->
            LET a == NumOf(Eval(e.a, env, ft))
            IN IF BadV(a) THEN a
               ELSE LET b == NumOf(Eval(e.b, env, ft)) IN Arith(e.k, a, b)
      [] e.k \in {"min", "max"} ->
            LET vs == EvalSeq(e.args, 1, env, ft)
            IN IF Len(vs) < 2 THEN (IF Len(vs) = 1 /\ BadV(vs[1]) THEN vs[1] ELSE Undef)
               ELSE IF BadV(vs[Len(vs)]) THEN vs[Len(vs)]
               ELSE FoldMinMax(e.k, vs, 2, NumOf(vs[1]))
      [] e.k = "cmp" ->
            LET a == NumOf(Eval(e.args[1], env, ft))
            IN IF BadV(a) THEN a ELSE EvalCmp(e, 1, a, env, ft)
      [] e.k = "and" -> EvalAnd(e.args, 1, env, ft)
      [] e.k = "or"  -> EvalOr(e.args, 1, env, ft)
      [] e.k = "ite" ->
            LET c == Eval(e.c, env, ft)
            IN IF BadV(c) THEN c ELSE IF ~IsBoolV(c) THEN Skip
               ELSE IF c.b THEN Eval(e.a, env, ft) ELSE Eval(e.b, env, ft)
      [] e.k = "call" ->
            IF ~(e.name \in DOMAIN ft /\ ft[e.name].k = "fn") THEN Undef
            ELSE LET f  == ft[e.name]
                     vs == EvalSeq(e.args, 1, env, ft)
                 IN IF Len(vs) > 0 /\ BadV(vs[Len(vs)]) THEN vs[Len(vs)]
                    ELSE IF ~BindOk(f, e) THEN Undef
                    ELSE LET r == RunFrom(f.body, 1,
                                          [x \in SeqRange(f.params) |->
                                              LET m == ParamIdx(f, x)
                                                  j == ArgFor(f, e, m)
                                              IN IF j = 0 THEN DefsOf(f)[m - FirstDef(f) + 1] ELSE vs[j]],
                                          CalleeView(f, ft))
                         IN IF r.st = "none" THEN Undef ELSE r.v
      [] e.k = "fn" ->
            LET vs == EvalSeq(e.args, 1, env, ft)
            IN IF Len(vs) > 0 /\ BadV(vs[Len(vs)]) THEN vs[Len(vs)] ELSE Skip

\* ---- statements (see PyFn.tla) -----------------------------------------------------------
Stop(v, env) == [st |-> IF v = Skip THEN "skip" ELSE "err", v |-> v, env |-> env]

Bind(env, x, v) == [y \in DOMAIN env \cup {x} |-> IF y = x THEN v ELSE env[y]]
LoopFuel == 16     \* a while loop that has not finished after that many rounds: Skip (the case is discarded)

RunFrom(body, i, env, ft) ==
    IF i > Len(body) THEN [st |-> "none", v |-> Undef, env |-> env]
    ELSE LET s == body[i]
             v == Eval(s.e, env, ft)
         IN CASE s.k = "assign" -> IF BadV(v) THEN Stop(v, env) ELSE RunFrom(body, i + 1, Bind(env, s.name, v), ft)
              [] s.k = "chain" ->    \* x1 = x2 = ... = e : e once, then every target, left to right
                    IF BadV(v) THEN Stop(v, env)
                    ELSE RunFrom(body, i + 1, [y \in DOMAIN env \cup SeqRange(s.names) |->
                                                  IF y \in SeqRange(s.names) THEN v ELSE env[y]], ft)
              [] s.k = "aug" ->      \* x op= e : x is read first, then e
                    IF s.name \notin DOMAIN env THEN Stop(Undef, env)
                    ELSE IF BadV(v) THEN Stop(v, env)
                    ELSE LET w == Arith(s.op, NumOf(env[s.name]), NumOf(v))
                         IN IF BadV(w) THEN Stop(w, env) ELSE RunFrom(body, i + 1, Bind(env, s.name, w), ft)
              [] s.k = "ret" -> IF BadV(v) THEN Stop(v, env) ELSE [st |-> "ret", v |-> v, env |-> env]
              [] s.k = "if" ->
                    IF BadV(v) THEN Stop(v, env)
                    ELSE IF ~IsBoolV(v) THEN Stop(Skip, env)
                    ELSE LET r == RunFrom(IF v.b THEN s.body ELSE s.orelse, 1, env, ft)
                         IN IF r.st = "none" THEN RunFrom(body, i + 1, r.env, ft) ELSE r
              [] s.k = "while" ->
                    LET r == RunWhile(s, env, ft, LoopFuel)
                    IN IF r.st = "none" THEN RunFrom(body, i + 1, r.env, ft) ELSE r
              [] s.k = "for" ->      \* for name in range(e), e an integer literal
                    IF ~(s.e.k = "num" /\ RatV(v) /\ IsInt(v)) THEN Stop(Skip, env)
                    ELSE LET r == RunFor(s, 0, v.n, env, ft)
                         IN IF r.st = "none" THEN RunFrom(body, i + 1, r.env, ft) ELSE r

\* st = "none": the loop ended normally in environment env
RunWhile(s, env, ft, fuel) ==
    LET t == Eval(s.e, env, ft)
    IN IF BadV(t) THEN Stop(t, env)
       ELSE IF ~IsBoolV(t) \/ fuel = 0 THEN Stop(Skip, env)
       ELSE IF ~t.b THEN [st |-> "none", v |-> Undef, env |-> env]
       ELSE LET r == RunFrom(s.body, 1, env, ft)
            IN IF r.st = "none" THEN RunWhile(s, r.env, ft, fuel - 1) ELSE r

RunFor(s, j, cnt, env, ft) ==
    IF j >= cnt THEN [st |-> "none", v |-> Undef, env |-> env]
    ELSE LET r == RunFrom(s.body, 1, Bind(env, s.name, RFromInt(j)), ft)
         IN IF r.st = "none" THEN RunFor(s, j + 1, cnt, r.env, ft) ELSE r

\* ---- syntax-directed operators -------------------------------------------------------------
RECURSIVE FreeVars(_), Consts(_), Calls(_), Subst(_, _), Depth(_), CmpNums(_)

Kids(e) ==
    IF e.k \in UnOps THEN <<e.a>>
    ELSE IF e.k \in BinOps THEN <<e.a, e.b>>
    ELSE IF e.k = "ite" THEN <<e.c, e.a, e.b>>
    ELSE IF e.k \in NaryOps THEN e.args
    ELSE <<>>

FreeVars(e) == IF e.k = "var" THEN {e.name}
               ELSE LET ks == Kids(e) IN UNION {FreeVars(ks[j]) : j \in DOMAIN ks}
Consts(e)   == IF e.k = "const" THEN {e.name}
               ELSE LET ks == Kids(e) IN UNION {Consts(ks[j]) : j \in DOMAIN ks}
Calls(e)    == LET ks == Kids(e)
               IN (IF e.k = "call" THEN {e.name} ELSE {}) \cup UNION {Calls(ks[j]) : j \in DOMAIN ks}

Max2(a, b) == IF a > b THEN a ELSE b
RECURSIVE KidsDepth(_, _)
KidsDepth(ks, i) == IF i > Len(ks) THEN 0 ELSE Max2(Depth(ks[i]), KidsDepth(ks, i + 1))
Depth(e) == LET ks == Kids(e) IN IF ks = <<>> THEN 0 ELSE 1 + KidsDepth(ks, 1)

\* number literals and named constants that are direct operands of a comparison (branch boundaries)
CmpNums(e) ==
    LET ks == Kids(e)
    IN (IF e.k = "cmp" THEN {ks[j] : j \in {m \in DOMAIN ks : ks[m].k \in {"num", "const"}}} ELSE {})
       \cup UNION {CmpNums(ks[j]) : j \in DOMAIN ks}

Subst(e, sigma) ==
    IF e.k = "var" THEN (IF e.name \in DOMAIN sigma THEN sigma[e.name] ELSE e)
    ELSE IF e.k \in UnOps THEN [e EXCEPT !.a = Subst(e.a, sigma)]
    ELSE IF e.k \in BinOps THEN [e EXCEPT !.a = Subst(e.a, sigma), !.b = Subst(e.b, sigma)]
    ELSE IF e.k = "ite" THEN [e EXCEPT !.c = Subst(e.c, sigma), !.a = Subst(e.a, sigma), !.b = Subst(e.b, sigma)]
    ELSE IF e.k \in NaryOps THEN [e EXCEPT !.args = [j \in DOMAIN e.args |-> Subst(e.args[j], sigma)]]
    ELSE e

Rename(e, m) == Subst(e, [x \in DOMAIN m |-> Var(m[x])])
=============================================================================
