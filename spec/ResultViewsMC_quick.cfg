\* C10 quick: every result of the menu, every single read, every sequence of length 2 over the interaction alphabet
CONSTANTS
    MaxLen = 2
    Mode = "reapply"
    RawNorm = "copy"
    ResultIds = {1, 2, 3, 4, 5, 6, 7, 8, 9, 10}
    EmitOn = TRUE
INIT Init
NEXT Next
INVARIANT HistoryFree
INVARIANT Repeatable
INVARIANT Theorems
INVARIANT ResultUnchanged
INVARIANT EmitTable
INVARIANT EmitSeq
CHECK_DEADLOCK FALSE
