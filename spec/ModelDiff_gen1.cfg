\* E02 gen: every single edit of the menu applied to every seed (m2 = m1 + one change), with predictions
CONSTANTS
    Depth = 0
    Seeds = {"full", "lin1", "lin2", "sur", "dataia", "iav"}
    OpSet = "all"
    EmitOn = TRUE
    Variant = "doc"
    L1 = 0
    L2 = 1
    Modes = {"chain"}
    Exact = TRUE
    Heavy = {}
INIT DInit
NEXT DNext
INVARIANT DEmit
CHECK_DEADLOCK FALSE
