\* C19: 2 workers, 2 keys, two crashes (thorough); one write step: empty or whole files only
CONSTANTS
    NKeys = 2
    W = 2
    L = 1
    Design = "temp"
    Policy = "trust"
    RenameAt = "closed"
    BypassOne = FALSE
    MkdirAtBuild = FALSE
    Recover = FALSE
    Forwards = TRUE
    MaxDrop = 0
    LossyNames = FALSE
    Memo = FALSE
    MaxClear = 0
    MaxExtra = 0
    MaxCrash = 2
    Fifo = TRUE
    EmitOn = TRUE
INIT Init
NEXT Next
INVARIANT TypeOK
INVARIANT NoRaise
INVARIANT RightResults
INVARIANT Injective
INVARIANT NoRecompute
INVARIANT AllStored
INVARIANT ComputesExactlyMissing
INVARIANT FinalWhole
INVARIANT OneOwner
INVARIANT Emit
CHECK_DEADLOCK TRUE
