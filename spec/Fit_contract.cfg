\* C20 Fit machine: the contract instance (report the best evaluation, work on a copy) satisfies every clause
CONSTANTS
    Points = {1, 2, 3}
    LossVals = {0, 10, 20}
    MaxEvals = 3
    Reporter = "best"
    Copy = TRUE
    Generated = TRUE
INIT Init
NEXT Next
INVARIANT RepHonest
INVARIANT RepNoWorse
INVARIANT InputSpared
INVARIANT SparedAnyway
INVARIANT FunctionalEvals
CHECK_DEADLOCK FALSE
