\* all graphs over 3 single-output components, |req| <= 2, all 6 orders
CONSTANTS
    Comps = {"a", "b", "c"}
    MaxReq = 2
    Shortcut = "raise"
    EmitOn = TRUE
INIT Init
NEXT Next
INVARIANT OkIsRight
INVARIANT MissingIsRight
INVARIANT CircularIsRight
INVARIANT Bounded
INVARIANT Emit
CHECK_DEADLOCK FALSE
