------------------------------- MODULE Losses -------------------------------
(***************************************************************************)
(* C20: the two LAWS of the property ("every shipped loss is smallest when *)
(* the prediction reproduces the data and does not reward a prediction     *)
(* merely for being large") as TLC-checked statements over an enumerated   *)
(* grid of (prediction, data) pairs of exact rational vectors.  The loss   *)
(* functions themselves, the order on their values and the residual are    *)
(* defined in LossesCore.tla.                                              *)
(***************************************************************************)
EXTENDS LossesCore

(***************************************************************************)
(* The law-checking state machine: a pair (p, d) of vectors is built one   *)
(* component per step; every prefix (lengths 1..N) is checked.             *)
(***************************************************************************)
CONSTANTS LossNames,     \* subset of AllLosses (plus "cosine_distance") checked in this run
          Orients,       \* subset of {"pd", "dp"}: L(p, d) = F(p, d) resp. F(d, p)
          N,             \* vector length
          Grid,          \* "small" | "full" | "pos"
          EmitOn
VARIABLES ln, p, d
vars == <<ln, p, d>>

Vals == CASE Grid = "small" -> {R(0, 1), R(1, 2), R(1, 1), R(2, 1), R(3, 1)}
          [] Grid = "full"  -> {R(0 - 1, 2), R(0, 1), R(1, 2), R(1, 1), R(3, 2), R(2, 1), R(3, 1)}
          [] Grid = "pos"   -> {R(1, 2), R(1, 1), R(2, 1), R(3, 1)}
Scales == {R(1, 1), R(3, 2), R(2, 1), R(5, 1)}

L(name, o, pp, dd) == IF o = "pd" THEN LossVec(name, pp, dd) ELSE LossVec(name, dd, pp)

Init == ln \in LossNames /\ p = <<>> /\ d = <<>>
Next == /\ Len(p) < N
        /\ \E x \in Vals, y \in Vals : p' = Append(p, x) /\ d' = Append(d, y)
        /\ UNCHANGED ln

\* "smallest when the prediction reproduces the data": L(d, d) <= L(p, d)
Viol1(o) == LET lpd == L(ln, o, p, d)
                ldd == L(ln, o, d, d)
            IN  Defined(lpd) /\ Defined(ldd) /\ Leq(ldd, lpd) # "yes"
Law1 == Len(p) >= 1 => \A o \in Orients : ~Viol1(o)

\* "does not reward a prediction merely for being large": once p >= d >= 0, scaling p up never lowers the loss
NonNeg(v) == \A i \in 1..Len(v) : RGe(v[i], RZero)
Law2Domain == Len(p) >= 1 /\ NonNeg(d) /\ VGe(p, d)
Viol2(o, c1, c2) == LET l1 == L(ln, o, VScale(c1, p), d)
                        l2 == L(ln, o, VScale(c2, p), d)
                    IN  RLe(c1, c2) /\ Defined(l1) /\ Defined(l2) /\ Leq(l1, l2) # "yes"
Law2 == Law2Domain => \A o \in Orients : \A c1 \in Scales, c2 \in Scales : ~Viol2(o, c1, c2)

\* "does not reward a prediction merely for being large", second reading: a prediction too LARGE by a factor c is never
\* scored better than one too SMALL by the same factor (p = d/c against p = c*d, d > 0).  This is the law that FIXES
\* THE ARGUMENT ORDER of the residual for the asymmetric percentage loss: it holds data-first ("dp", |p - d| / d, the
\* textbook definition) and fails prediction-first ("pd", |d - p| / p: 50x too large scores 98, 2.5x too small 150).
Pos(v) == \A i \in 1..Len(v) : RGt(v[i], RZero)
Viol3(o, c) == LET lo == L(ln, o, VScale(RInv(c), d), d)
                   hi == L(ln, o, VScale(c, d), d)
               IN  Defined(lo) /\ Defined(hi) /\ Leq(lo, hi) # "yes"
Law3For(o) == (Len(d) >= 1 /\ p = d /\ Pos(d)) => \A c \in Scales : ~Viol3(o, c)
Law3Wired   == Law3For("dp")      \* the residual as wired: loss_fn(data, prediction)
Law3Swapped == Law3For("pd")

\* gen: every counterexample to a law in the grid, with the two values the law compares (always TRUE)
CexEmit == (EmitOn /\ Len(p) >= 1) =>
    /\ \A o \in Orients : Viol1(o) =>
          PrintT("@J@" \o ToJson([law |-> 1, loss |-> ln, orient |-> o, p |-> p, d |-> d, c1 |-> ROne, c2 |-> ROne,
                                   lo |-> L(ln, o, d, d), hi |-> L(ln, o, p, d)]) \o "@E@")
    /\ Law2Domain => \A o \in Orients : \A c1 \in Scales, c2 \in Scales : Viol2(o, c1, c2) =>
          PrintT("@J@" \o ToJson([law |-> 2, loss |-> ln, orient |-> o, p |-> p, d |-> d, c1 |-> c1, c2 |-> c2,
                                   lo |-> L(ln, o, VScale(c1, p), d), hi |-> L(ln, o, VScale(c2, p), d)]) \o "@E@")

\* the losses for which the order of the two arguments does not matter
Symmetric == Len(p) >= 1 =>
    LET v1 == LossVec(ln, p, d)
        v2 == LossVec(ln, d, p)
    IN  v1 = v2 \/ (Defined(v1) /\ Defined(v2) /\ Leq(v1, v2) = "yes" /\ Leq(v2, v1) = "yes")

\* the laws are not vacuous: at full length the values are defined for a positive pair
Witness == (Len(p) = N /\ \A i \in 1..N : RGt(p[i], RZero) /\ RGt(d[i], RZero)) =>
              \A o \in Orients : Defined(L(ln, o, p, d))

\* gen: every full-length pair with the value of every shipped loss, F(first = p, second = d)
Emit == (EmitOn /\ Len(p) = N) =>
    PrintT("@J@" \o ToJson([a |-> p, b |-> d,
                             vals |-> [nm \in AllLosses |-> LossVec(nm, p, d)]]) \o "@E@")
=============================================================================
