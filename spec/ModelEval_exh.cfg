\* exhaustive small family: every model with <= 2 components over constant/unary functions
CONSTANTS
    MaxVars = 2
    MaxDer = 2
    MaxRxn = 2
    MaxIap = 1
    MaxIav = 1
    MaxSur = 1
    MaxRo = 1
    MaxComps = 2
    Fns = {"two", "inc"}
    UseData = FALSE
    ForwardRefs = TRUE
    WithJac = FALSE
    EmitOn = TRUE
INIT Init
NEXT Next
INVARIANT Emit
INVARIANT StaticIsReachability
INVARIANT FrozenIsConstant
INVARIANT InitConsistent
INVARIANT OrderInvariant
INVARIANT UntouchedZero
CHECK_DEADLOCK FALSE
