"""C16 -- the linear label model (mxlpy.linear_label_map.LinearLabelMapper) tracks the isotopomer model's
positional enrichment; both mappers read an atom map in the same, documented direction.

spec      : spec/LinearLabel.tla (positional enrichment derived from LabelExpand's isotopomer model; the linear
            model in the documented reading of a map; the pinned implementation's reading as a second instance),
            spec/LinearLabelMC.tla (steady-state network family + theorems + emission),
            spec/LinearLabelOracle.tla (code -> spec); exact rationals from spec/Rat.tla
TLC (mc)  : on every finished case (network x label counts x all maps x isotopomer distribution): the pools are a
            steady state; the linear model at the distribution's enrichments equals the isotopomer-derived rate
            for every position (ThLinIsIso); uniform enrichment = EXT is stationary for EXT in {0,1/2,2/3,1};
            zero stays zero; on involutive maps the pinned reading coincides with the documented one (ThInvol);
            LinMode="pinned" must be rejected by TLC (teeth)
spec->code: every emitted case is rendered as a real base Model; LinearLabelMapper(...).build_model(concs,
            fluxes, external_label).get_right_hand_side(enrichments) must equal the specification's rationals,
            and the positional enrichment rate computed from the real LabelMapper model's right-hand side (same
            label counts, same maps) must equal them too
code->spec: the documentation's TPI/aldolase example (integer constants, steady state) and random steady
            chains / cycles / branches are run through the real LinearLabelMapper; TLC (LinearLabelOracle)
            accepts or rejects each recorded right-hand side
"""

from __future__ import annotations

import json
import random
import zlib
from fractions import Fraction

from .. import labelkit as lk
from ..core import Ctx, Report, pmap
from ..tlc import MachineryError, fn_to_dict

ALL_TPLS = ["chain", "cycle", "bi", "split", "homo", "tri"]
ALL_ORDS = ("std", "swap", "rev", "swaprev")
THREE_TPLS = ["tri3", "split3", "homo3", "trimer"]   # three units of base stoichiometry on one side
DOUBLED_TPLS = ["homo", "dimer"]          # a compound with stoichiometric coefficient 2 (substrate side / product side)

CFG = """CONSTANTS
    Tpls = {tpls}
    Ords = {ords}
    MaxNL = {maxnl}
    MaxL = {maxl}
    Focus = {focus}
    OnlyInvolutive = {invol}
    DistAll = {distall}
    Dists = {dists}
    SessMemo = FALSE
    LinMode = "doc"
    EmitOn = TRUE
INIT Init
NEXT Next
INVARIANT ThSteady
INVARIANT ThDist
INVARIANT ThLinIsIso
INVARIANT ThUniform
INVARIANT ThZero
INVARIANT ThInvol
INVARIANT ThParam
INVARIANT ThScale
INVARIANT ThSess
INVARIANT ThSafe
INVARIANT Emit
CHECK_DEADLOCK FALSE
"""


def cfg_text(tpls, maxnl, maxl, invol=False, distall=False, focus=True, dists=(1, 2, 3, 4), ords=("std",)) -> str:
    return CFG.format(ords="{" + ", ".join(f'"{o}"' for o in ords) + "}", dists="{" + ", ".join(str(d) for d in dists) + "}", tpls="{" + ", ".join(f'"{t}"' for t in tpls) + "}", maxnl=maxnl, maxl=maxl,
                      focus="TRUE" if focus else "FALSE",
                      invol="TRUE" if invol else "FALSE", distall="TRUE" if distall else "FALSE")


# ---- shapes ------------------------------------------------------------------------------------------------
def is_involution(m: list[int], L: int) -> bool:
    return len(m) == L and all(0 <= x < L for x in m) and all(m[m[i]] == i for i in range(L))


def all_involutive(b: dict) -> bool:
    nl = b["nl"]
    for r in b["rxns"]:
        if not r["mapped"]:
            continue
        S = sum(int(nl[c]) for c in r["subs"])
        P = sum(int(nl[c]) for c in r["prods"])
        if not is_involution([int(x) for x in r["map"]], max(S, P)):
            return False
    return True


def doubled_case(scn: dict) -> bool:
    """All maps involutive, some compound enters a reaction with coefficient >= 2 and has >= 2 positions, and those
    positions carry different enrichments (the shape that distinguishes unit-major from position-major expansion)."""
    if not scn["involutive"]:
        return False
    b = scn["b"]
    e = fn_to_dict(scn["evals"][0]["e"])
    for r in b["rxns"]:
        for side in (r["subs"], r["prods"]):
            for c in set(side):
                n = int(b["nl"][c])
                if side.count(c) >= 2 and n >= 2 and len({(e[f"{c}__{i}"]["n"], e[f"{c}__{i}"]["d"]) for i in range(n)}) > 1:
                    return True
    return False


def classify(scn: dict, detail: dict) -> str | None:
    """Finding key from the shape of the failing case: some map is not its own inverse AND the disagreement is
    in the linear model's numbers (anything else -- a refused build, missing variables, the isotopomer model --
    stays a violation)."""
    if detail.get("what", "").startswith("linear") and not all_involutive(lk.norm_b(scn["b"])):
        return "non-involutive-map"
    cpds = list(scn["b"]["cpds"])
    if detail.get("what", "").startswith("linear") and any(c.endswith("_") and c.rstrip("_") in cpds for c in cpds):
        return "name-with-trailing-underscore"       # (fixed in /repo: a regression is labelled, and still a VIOLATION)
    return None


# ---- spec -> code --------------------------------------------------------------------------------------------
def _close(exp: Fraction, got: float) -> bool:
    e = float(exp)
    return abs(got - e) <= 1e-9 * max(1.0, abs(e))


def position_rates_from_isotopomer_model(b: dict, dy: dict, pool: dict) -> dict:
    """Projection of the isotopomer model's derivative onto positions: (1/pool) * sum of d(iso)/dt over the
    isotopomers labelled at the position."""
    out = {}
    for c in b["cpds"]:
        n = int(b["nl"][c])
        for i in range(n):
            tot = 0.0
            for name, v in dy.items():
                base, _, bits = name.rpartition("__")
                if base == c and len(bits) == n and bits[i] == "1":
                    tot += v
            out[f"{c}__{i}"] = tot / float(pool[c])
    return out


def observe(scn: dict) -> dict:
    import pandas as pd
    from mxlpy import LabelMapper, LinearLabelMapper

    b = lk.norm_b(scn["b"])
    base = lk.build_base(b, random.Random(len(json.dumps(scn["b"]))))
    for k, v in fn_to_dict(scn.get("extra_concs", {})).items():
        base.add_variable(k, int(v))                 # unlabelled bystanders of the base model (no reaction touches them)
    pool = {k: int(v) for k, v in fn_to_dict(scn["pool"]).items()}
    flux = {k: int(v) for k, v in fn_to_dict(scn["flux"]).items()}
    obs: dict = {"base_flux": {k: float(v) for k, v in base.get_fluxes().to_dict().items()},
                 "base_rhs": {k: float(v) for k, v in base.get_right_hand_side().to_dict().items()}}
    lv, lmaps = lk.label_variables(b), lk.label_maps(b)
    # `concs` is the FULL steady state of the base model: it also holds the bystander variables the specification names
    # (extra_concs: among them an unlabelled compound literally called EXT); integral numbers are handed over as a
    # float64, an int64 or an object (Python int) Series - a rendering choice seeded by the case, the number is the same
    extra = {k: int(v) for k, v in fn_to_dict(scn.get("extra_concs", {})).items()}
    full_pool = {**pool, **extra}
    style = zlib.crc32(case_key(scn).encode()) % 3

    def ser(d: dict):
        if style == 0:
            return pd.Series(d, dtype=float)
        if style == 1:
            return pd.Series({k: int(v) for k, v in d.items()}, dtype="int64")
        return pd.Series({k: int(v) for k, v in d.items()}, dtype=object)

    obs["series_style"] = ("float64", "int64", "object")[style]
    # the isotopomer model built from the same label counts and the same maps
    try:
        iso = LabelMapper(base, label_variables=lv, label_maps=lmaps).build_model()
        y = {k: float(v) for k, v in fn_to_dict(scn["y"]).items()} | {k: float(v) for k, v in fn_to_dict(scn.get("extra_concs", {})).items()}
        dy = {k: float(v) for k, v in iso.get_right_hand_side(y).to_dict().items()}
        obs["iso_rates"] = position_rates_from_isotopomer_model(b, dy, pool)
    except Exception as e:  # noqa: BLE001
        obs["iso_error"] = f"{type(e).__name__}: {str(e)[:200]}"
    mapper = LinearLabelMapper(base, label_variables=lv, label_maps=lmaps)
    obs["lin"] = []
    built: dict = {}       # one build_model per external enrichment
    for ev in scn["evals"]:
        try:
            x = lk.frac(ev["x"])
            if x not in built:
                built[x] = mapper.build_model(concs=ser(full_pool), fluxes=ser(flux),
                                              external_label=float(x))
            m = built[x]
            e = {k: float(lk.frac(v)) for k, v in fn_to_dict(ev["e"]).items()}
            de = m.get_right_hand_side(e)
            obs["lin"].append({"de": {k: float(v) for k, v in de.to_dict().items()}})
        except Exception as e:  # noqa: BLE001
            obs["lin"].append({"error": f"{type(e).__name__}: {str(e)[:200]}"})
    # the same case with amounts expressed in a larger unit (pools and fluxes 2^-unit times the numbers)
    obs["unit"] = []
    for ev in scn.get("unit_evals", []):
        try:
            u = 2.0 ** -int(ev["unit"])
            m = mapper.build_model(concs=pd.Series({k: v * u for k, v in full_pool.items()}, dtype=float),
                                   fluxes=pd.Series({k: v * u for k, v in flux.items()}, dtype=float),
                                   external_label=float(lk.frac(ev["x"])))
            e = {k: float(lk.frac(v)) for k, v in fn_to_dict(ev["e"]).items()}
            obs["unit"].append({"de": {k: float(v) for k, v in m.get_right_hand_side(e).to_dict().items()}})
        except Exception as ex:  # noqa: BLE001
            obs["unit"].append({"error": f"{type(ex).__name__}: {str(ex)[:200]}"})
    # the external enrichment as a parameter of the built model: build with x0, then update_parameter("EXT", x)
    obs["hist"] = []
    for h in scn.get("hist", []):
        steps = []
        try:
            m = mapper.build_model(concs=ser(full_pool), fluxes=ser(flux),
                                   external_label=float(lk.frac(h["x0"])))
            for st in h["steps"]:
                m.update_parameter("EXT", float(lk.frac(st["x"])))
                e = {k: float(lk.frac(v)) for k, v in fn_to_dict(st["e"]).items()}
                ue = {k: float(lk.frac(v)) for k, v in fn_to_dict(st["ue"]).items()}
                steps.append({"de": {k: float(v) for k, v in m.get_right_hand_side(e).to_dict().items()},
                              "ude": {k: float(v) for k, v in m.get_right_hand_side(ue).to_dict().items()}})
        except Exception as ex:  # noqa: BLE001
            steps.append({"error": f"{type(ex).__name__}: {str(ex)[:200]}"})
        obs["hist"].append(steps)
    # pool sizes and fluxes as parameters of the built model: build, evaluate, update, evaluate, ...
    obs["pool_hist"] = []
    try:
        m = None
        for st in scn.get("pool_hist", []):
            if m is None:
                m = mapper.build_model(concs=ser(full_pool), fluxes=ser(flux),
                                       external_label=float(lk.frac(st["x"])))
            else:
                m.update_parameters({k: float(v) * int(st["mul_pool"]) for k, v in pool.items()}
                                    | {k: float(v) * int(st["mul_flux"]) for k, v in flux.items()})
            e = {k: float(lk.frac(v)) for k, v in fn_to_dict(st["e"]).items()}
            obs["pool_hist"].append({"de": {k: float(v) for k, v in m.get_right_hand_side(e).to_dict().items()}})
    except Exception as ex:  # noqa: BLE001
        obs["pool_hist"].append({"error": f"{type(ex).__name__}: {str(ex)[:200]}"})
    # a session on the SAME mapper: the base model's reactions are rewritten (compounds of every side in the opposite
    # order), then build_model again (this edits `base`: it must stay the last thing done with it)
    obs["sess"] = []
    for ss in scn.get("sess", []):
        try:
            b2 = lk.norm_b(ss["b2"])
            for r2 in b2["rxns"]:
                base.update_reaction(r2["name"], stoichiometry=lk.stoichiometry(r2, None))
            m2 = mapper.build_model(concs=ser(full_pool), fluxes=ser(flux),
                                    external_label=float(lk.frac(ss["x"])))
            e = {k: float(lk.frac(v)) for k, v in fn_to_dict(ss["e"]).items()}
            o = {"de": {k: float(v) for k, v in m2.get_right_hand_side(e).to_dict().items()}}
            iso2 = LabelMapper(base, label_variables=lv, label_maps=lmaps).build_model()
            y = {k: float(v) for k, v in fn_to_dict(scn["y"]).items()} | {k: float(v) for k, v in extra.items()}
            dy2 = {k: float(v) for k, v in iso2.get_right_hand_side(y).to_dict().items()}
            o["iso"] = position_rates_from_isotopomer_model(b2, dy2, pool)
            obs["sess"].append(o)
        except Exception as ex:  # noqa: BLE001
            obs["sess"].append({"error": f"{type(ex).__name__}: {str(ex)[:200]}"})
    return obs


def judge(scn: dict, obs: dict) -> dict | None:
    exp0 = {k: lk.frac(v) for k, v in fn_to_dict(scn["evals"][0]["de"]).items()}
    # (a) the isotopomer model's positional enrichment rate (reference side of the statement)
    if "iso_error" in obs:
        return {"what": "isotopomer model refused", "observed": obs["iso_error"]}
    for n, v in exp0.items():
        if n not in obs["iso_rates"] or not _close(v, obs["iso_rates"][n]):
            return {"what": "isotopomer model: positional enrichment rate", "position": n, "expected": str(v),
                    "observed": obs["iso_rates"].get(n)}
    # (b) the linear model
    for ev, o in zip(scn["evals"], obs["lin"]):
        if "error" in o:
            return {"what": "build refused: " + ev["what"], "observed": o["error"], "x": ev["x"]}
        exp = {k: lk.frac(v) for k, v in fn_to_dict(ev["de"]).items()}
        if set(exp) != set(o["de"]):
            return {"what": "variables of the linear model", "expected": sorted(exp), "observed": sorted(o["de"])}
        for n, v in exp.items():
            if not _close(v, o["de"][n]):
                return {"what": "linear model: " + ev["what"], "position": n, "x": str(lk.frac(ev["x"])),
                        "e": {k: str(lk.frac(q)) for k, q in fn_to_dict(ev["e"]).items()},
                        "expected": str(v), "observed": o["de"][n],
                        "isotopomer_model_says": obs["iso_rates"].get(n) if ev is scn["evals"][0] else None}
    # (b') the linear model built from pools / fluxes expressed in a larger unit
    for ev, o in zip(scn.get("unit_evals", []), obs.get("unit", [])):
        if "error" in o:
            return {"what": f"build refused: pools and fluxes scaled by 2^-{ev['unit']}", "observed": o["error"]}
        exp = {k: lk.frac(v) for k, v in fn_to_dict(ev["de"]).items()}
        if set(exp) != set(o["de"]):
            return {"what": "variables of the linear model", "expected": sorted(exp), "observed": sorted(o["de"])}
        for n, v in exp.items():
            if not _close(v, o["de"][n]):
                return {"what": f"linear model: pools and fluxes scaled by 2^-{ev['unit']} (pools below 1e-6)", "position": n,
                        "x": str(lk.frac(ev["x"])), "expected": str(v), "observed": o["de"][n],
                        "pools": {k: float(p) * 2.0 ** -int(ev["unit"]) for k, p in fn_to_dict(scn["pool"]).items()}}
    # (b2) pools / fluxes updated on the built model
    for j, (st, o) in enumerate(zip(scn.get("pool_hist", []), obs.get("pool_hist", []))):
        if "error" in o:
            return {"what": "build/update refused: pool history", "observed": o["error"], "step": j + 1}
        exp = {k: lk.frac(v) for k, v in fn_to_dict(st["de"]).items()}
        for n, v in exp.items():
            if n not in o["de"] or not _close(v, o["de"][n]):
                return {"what": f"linear model: after update_parameters (pools x{st['mul_pool']}, fluxes x{st['mul_flux']}) on the "
                                f"built model, step {j + 1} of build / evaluate / update / evaluate", "position": n,
                        "expected": str(v), "observed": o["de"].get(n)}
    # (b3) second build on the same mapper after the base model's reactions were edited
    for ss, o in zip(scn.get("sess", []), obs.get("sess", [])):
        if "error" in o:
            return {"what": "build refused: second build on the same mapper after editing the base model", "observed": o["error"]}
        for n, v in fn_to_dict(ss["iso"]).items():
            if n not in o["iso"] or not _close(lk.frac(v), o["iso"][n]):
                return {"what": "isotopomer model of the edited base model: positional enrichment rate", "position": n,
                        "expected": str(lk.frac(v)), "observed": o["iso"].get(n)}
        for n, v in fn_to_dict(ss["de"]).items():
            if n not in o["de"] or not _close(lk.frac(v), o["de"][n]):
                return {"what": "linear model: second build on the same mapper after the base model's reactions were rewritten",
                        "position": n, "expected": str(lk.frac(v)), "observed": o["de"].get(n),
                        "isotopomer_model_of_edited_base_says": o["iso"].get(n)}
    # (c) the linear model after the external enrichment was changed on the built model
    for h, steps in zip(scn.get("hist", []), obs["hist"]):
        trail = [str(lk.frac(h["x0"]))]
        for st, o in zip(h["steps"], steps + [{"error": "not reached"}] * len(h["steps"])):
            trail.append(str(lk.frac(st["x"])))
            if "error" in o:
                return {"what": "build/update refused: EXT history " + " -> ".join(trail), "observed": o["error"]}
            for field, efield, label in (("de", "e", "rates"), ("ude", "ue", "uniform enrichment equal to EXT")):
                exp = {k: lk.frac(v) for k, v in fn_to_dict(st[field]).items()}
                if set(exp) != set(o[field]):
                    return {"what": "variables of the linear model", "expected": sorted(exp), "observed": sorted(o[field])}
                for n, v in exp.items():
                    if not _close(v, o[field][n]):
                        return {"what": f"linear model: {label} after build_model(external_label={trail[0]}) and "
                                        f"update_parameter('EXT', ...) along {' -> '.join(trail[1:])}",
                                "position": n, "expected": str(v), "observed": o[field][n],
                                "e": {k: str(lk.frac(q)) for k, q in fn_to_dict(st[efield]).items()}}
    return None


def base_crosscheck(scn: dict, obs: dict) -> str | None:
    flux = {k: float(v) for k, v in fn_to_dict(scn["flux"]).items()}
    if obs["base_flux"] != flux:
        return f"base fluxes {obs['base_flux']} != specification {flux}"
    if any(abs(v) > 1e-12 for v in obs["base_rhs"].values()):
        return f"rendered base model is not at steady state: {obs['base_rhs']}"
    return None


def _work(scn: dict):
    try:
        obs = observe(scn)
        return judge(scn, obs), base_crosscheck(scn, obs)
    except Exception:  # noqa: BLE001  (never let an exception object travel through the pool: unpicklable ones hang it)
        import traceback

        return None, "harness exception:\n" + traceback.format_exc()[-1500:]


def case_key(scn: dict) -> str:
    return json.dumps([scn["tpl"], scn.get("ord"), scn["b"]["nl"], [[r["name"], r["map"]] for r in scn["b"]["rxns"]], scn["dk"]], sort_keys=True)


def nontrivial(scn: dict) -> bool:
    return any(list(r["map"]) != list(range(len(r["map"]))) for r in scn["b"]["rxns"])


# ---- code -> spec --------------------------------------------------------------------------------------------
def snap(x: float) -> dict:
    """A float returned by the library as the nearest rational with a small denominator (the driver does not know
    the expected value); a float that is not within 1e-9 of such a rational is reported as is (numerator scaled)."""
    f = Fraction(x).limit_denominator(200000)
    if abs(float(f) - x) > 1e-9 * max(1.0, abs(x)):
        f = Fraction(round(x * 1000), 1000) + Fraction(1, 999983)     # deliberately not a value the spec can produce
    return {"n": f.numerator, "d": f.denominator}


def _rat(fr: Fraction) -> dict:
    return {"n": fr.numerator, "d": fr.denominator}


def distribution(rnd: random.Random, names: list[str], total: int) -> dict:
    y = {n: 0 for n in names}
    for _ in range(total):
        y[rnd.choice(names[: max(1, rnd.randint(1, len(names)))])] += 1
    return y


def _record(cid: str, model, nl: dict, maps: dict, rnd: random.Random, seed=None) -> dict:
    import pandas as pd
    from mxlpy import LinearLabelMapper

    from .c05 import content_of_model

    pars = {k: int(v) for k, v in model.get_parameter_values().items()}
    init = {k: int(v) for k, v in model.get_initial_conditions().items()}
    b = content_of_model(model, nl, maps, pars, init)
    fluxes = {k: float(v) for k, v in model.get_fluxes().to_dict().items()}
    y = {}
    for c in b["cpds"]:
        names = [f"{c}__" + format(q, f"0{nl[c]}b") for q in range(2 ** nl[c])]
        y.update(distribution(rnd, names, init[c]))
    e_y = {}
    for c in b["cpds"]:
        for i in range(nl[c]):
            lab = sum(v for n, v in y.items() if n.rpartition("__")[0] == c and n.rpartition("__")[2][i] == "1")
            e_y[f"{c}__{i}"] = Fraction(lab, init[c])
    e_rand = {n: Fraction(rnd.randint(0, 6), 6) for n in e_y}
    case = {"id": cid, "b": b, "y": y, "evals": []}
    if seed is not None:
        case["seed"] = seed
    mapper = LinearLabelMapper(model, label_variables=dict(nl), label_maps=maps)
    # (x0: the enrichment given to build_model; when different from x, x is set afterwards with update_parameter)
    for x, e, fromy, x0 in ((Fraction(1), e_y, True, Fraction(1)), (Fraction(1, 3), e_y, True, Fraction(1, 3)),
                            (Fraction(1, 2), e_rand, False, Fraction(0)), (Fraction(1), e_y, True, Fraction(0))):
        try:
            m = mapper.build_model(concs=pd.Series({k: float(v) for k, v in init.items()}), fluxes=pd.Series(fluxes),
                                   external_label=float(x0))
            if x0 != x:
                m.update_parameter("EXT", float(x))
            de = m.get_right_hand_side({k: float(v) for k, v in e.items()})
            de = {k: snap(float(v)) for k, v in de.to_dict().items()}
        except Exception as ex:  # noqa: BLE001
            de = {}
            case["error"] = f"{type(ex).__name__}: {str(ex)[:200]}"
        case["evals"].append({"x": _rat(x), "built_with": _rat(x0), "fromy": fromy, "e": {k: _rat(v) for k, v in e.items()}, "de": de})
    return case


def doc_example_case() -> dict:
    """docs/label-models.ipynb: TPI/aldolase with the documented maps; constants replaced by integers that make
    GAP = 2, DHAP = 4, FBP = 4 a steady state (v_TPI = 4, v_ALD = 8)."""
    from example_models import get_tpi_ald_model

    m = get_tpi_ald_model()
    m.update_parameters({"kf_TPI": 2, "kr_TPI": 1, "kf_Ald": 1, "kr_Ald": 2, "Keq_TPI": 2, "Keq_Ald": 1})
    m.update_variables({"GAP": 2, "DHAP": 4, "FBP": 4})
    nl = {"GAP": 3, "DHAP": 3, "FBP": 6}
    maps = {"TPIf": [2, 1, 0], "TPIr": [2, 1, 0], "ALDf": [0, 1, 2, 3, 4, 5], "ALDr": [0, 1, 2, 3, 4, 5]}
    return _record("doc-tpi-ald", m, nl, maps, random.Random(7))


def random_case(args) -> dict:
    try:
        return _random_case(args)
    except MachineryError:
        raise
    except Exception:  # noqa: BLE001  (see _work)
        import traceback

        return {"id": args[1], "harness_exception": traceback.format_exc()[-1500:]}


def _random_case(args) -> dict:
    """Random steady network: a path 0 -> X1 -> ... -> Xn -> 0, a ring X1 -> ... -> Xn -> X1, or a path with a
    branch X1 -> X2 + X3; one common flux v, pools dividing v, rate constants v / pool; random maps of the length
    the linear mapper accepts (permutations with probability 1/2, involutions 1/4, arbitrary 1/4)."""
    from mxlpy import Model

    seed, cid = args
    rnd = random.Random(seed)
    kind = rnd.choice(["path", "ring", "branch", "merge"])
    n = rnd.randint(2, 3) if kind in ("path", "ring") else 3
    cpds = ["P", "Q", "R"][:n]
    v = 12 * rnd.randint(1, 3)
    pools_menu = [2, 3, 4, 6, 12]
    rnd.shuffle(pools_menu)
    if kind == "merge":                      # P * Q must divide the flux
        pools_menu = rnd.choice([[2, 3, 4], [3, 2, 12], [2, 6, 3], [3, 4, 6], [4, 3, 2], [6, 2, 4]])
    pool = {c: pools_menu[j] for j, c in enumerate(cpds)}
    if rnd.random() < 0.5:                   # variables declared in another order than they appear in the reactions
        pool = {c: pool[c] for c in cpds[::-1]}
    nl = {c: rnd.randint(1, 3) for c in cpds}
    m = Model()
    m.add_variables(pool)
    rx = []     # (name, subs, prods)
    if kind == "path":
        rx.append(("r0", [], [cpds[0]]))
        for j in range(n - 1):
            rx.append((f"r{j + 1}", [cpds[j]], [cpds[j + 1]]))
        rx.append((f"r{n}", [cpds[-1]], []))
    elif kind == "ring":
        for j in range(n):
            rx.append((f"r{j + 1}", [cpds[j]], [cpds[(j + 1) % n]]))
    elif kind == "branch":
        rx += [("r0", [], ["P"]), ("r1", ["P"], ["Q", "R"]), ("r2", ["Q"], []), ("r3", ["R"], [])]
    else:
        rx += [("r0", [], ["P"]), ("r4", [], ["Q"]), ("r1", ["P", "Q"], ["R"]), ("r2", ["R"], [])]
    if rnd.random() < 0.5:                   # reactions declared in another order
        rnd.shuffle(rx)
    maps = {}
    for name, subs, prods in rx:
        k = v
        for c in subs:
            if k % pool[c]:
                raise MachineryError("random driver: pool does not divide the flux")
            k //= pool[c]
        m.add_parameter(f"k_{name}", k)
        st = {c: -1 for c in subs} | {c: 1 for c in prods}
        items = list(st.items())
        rnd.shuffle(items)
        args_ = subs + [f"k_{name}"]
        rnd.shuffle(args_)
        m.add_reaction(name, lk.PROD[len(args_)], args=args_, stoichiometry=dict(items))
        # the dict order decides the order of substrates / products among themselves
        L = max(sum(nl[c] for c in subs), sum(nl[c] for c in prods))
        u = rnd.random()
        if u < 0.5:
            mp = list(range(L))
            rnd.shuffle(mp)
        elif u < 0.75:
            mp = list(range(L))
            idx = list(range(L))
            rnd.shuffle(idx)
            for a, b2 in zip(idx[0::2], idx[1::2]):
                if rnd.random() < 0.7:
                    mp[a], mp[b2] = b2, a
        else:
            mp = [rnd.randrange(L) for _ in range(L)]
        maps[name] = mp
    return _record(cid, m, nl, maps, rnd, seed=seed)


# ---- the check ---------------------------------------------------------------------------------------------
def tlc_families(ctx: Ctx, rep: Report, fams: list[dict]) -> list[dict]:
    from concurrent.futures import ThreadPoolExecutor

    def one(f: dict):
        f = dict(f)
        name, what = f.pop("name"), f.pop("what")
        sim, depth = f.pop("simulate", None), f.pop("depth", None)
        cfg = ctx.write_cfg(f"{name}.cfg", cfg_text(**f))
        extra = {"simulate": sim, "depth": depth or 80, "seed": ctx.seed} if sim else {}
        return name, what, ctx.tlc("LinearLabelMC.tla", str(cfg), tag=name, workers=f.get("workers", 2), jvm=["-Xmx4g"], **extra)

    with ThreadPoolExecutor(max_workers=min(4, len(fams))) as ex:      # (4 JVMs x 2 workers, each capped at 4 GB)
        results = list(ex.map(one, fams))
    out = []
    for name, what, res in results:
        rep.add_tlc(res, what)
        if not res.payloads:
            raise MachineryError(f"no cases emitted by {name}")
        out += res.payloads
    return out


def run(ctx: Ctx) -> int:
    rep = Report(ctx)
    rep.rule = ("one case = (steady network, label counts, one map per reaction, isotopomer distribution with the "
                "steady pools) evaluated at 7 (enrichment, EXT) pairs and along 3 build/update histories of EXT; non-trivial = some map is not the identity; "
                "distinct by (network, label counts, maps, distribution)")
    rep.assumptions = [
        "mass-action base models with integer pools, rate constants and fluxes at an exact steady state; every "
        "compound labelled and every reaction mapped (LinearLabelMapper does not accept anything else)",
        "maps have exactly max(S, P) entries in 0..max(S,P)-1 (the only maps LinearLabelMapper accepts)",
        "the isotopomer side is LabelMapper with the external pool fully labelled, so it is compared at EXT = 1; "
        "for EXT < 1 the linear model is compared with the specification's linear definition, which TLC proves "
        "equal to the isotopomer-derived rate at EXT = 1",
    ]
    pinned = ctx.tlc("LinearLabelMC.tla", "LinearLabel_pinned.cfg", expect_violation=True, workers=4)
    if pinned.violated != "ThLinIsIso":
        raise MachineryError("LinMode=\"pinned\" (map read substrate -> product) should violate ThLinIsIso; "
                             f"TLC said {pinned.violated!r}: the specification has lost its teeth")
    smemo = ctx.tlc("LinearLabelMC.tla", "LinearLabel_sessmemo.cfg", expect_violation=True, workers=4)
    if smemo.violated != "ThSess":
        raise MachineryError("SessMemo=TRUE (reactions of the base model remembered from the first build) should violate ThSess; "
                             f"TLC said {smemo.violated!r}")
    rep.notes["session_memo_counterexample"] = "TLC: ThSess violated for SessMemo=TRUE (build, edit base model, build on the same mapper)"
    rep.notes["pinned_shape_counterexample"] = "TLC: ThLinIsIso violated for LinMode=pinned (substrate -> product reading)"
    # Focus: influx / efflux reactions take 3 maps (identity, reversal, constant 0) instead of all, otherwise the
    # maps of a network's reactions multiply; the "free" family lifts that restriction on the small networks
    if ctx.quick:
        fams = [
            dict(name="perm3", what="exhaustive: 0->A->B->0, label counts 1..3, all maps of A->B (27 for 3 positions, 3-cycles)",
                 tpls=["chain"], maxnl=3, maxl=3),
            dict(name="nl2", what="exhaustive: A<->B, A+B->C, A->B+C networks, label counts 1..2, all maps max(S,P)<=3",
                 tpls=["cycle", "bi", "split"], maxnl=2, maxl=3),
            dict(name="free", what="exhaustive: chain, label counts 1..2, every map of every reaction (also influx/efflux)",
                 tpls=["chain", "under"], maxnl=2, maxl=2, focus=False),
            dict(name="invol", what="exhaustive: all networks, counts 1..2, involutive maps only, max(S,P)<=3",
                 tpls=ALL_TPLS + ["under"], maxnl=2, maxl=3, invol=True),
            dict(name="deep", what="seeded simulation: all networks, counts 1..3, all maps max(S,P)<=6, independent distributions",
                 tpls=ALL_TPLS, maxnl=3, maxl=6, distall=True, focus=False, simulate="num=50", depth=80),
            # a compound with coefficient 2 AND >= 2 positions (unit-major vs position-major expansion of a reaction
            # side), judged without the known finding: involutive maps only, positions of a compound enriched differently
            dict(name="doubled", what="exhaustive: 2A->B and A->2B networks, label counts 1..2 (doubled compound with 2 positions), "
                 "involutive maps only, max(S,P)<=4, every combination of the two non-uniform distributions",
                 tpls=DOUBLED_TPLS, maxnl=2, maxl=4, invol=True, distall=True, dists=(3, 4)),
            # three units on one side of a reaction (third unit's positions start after the first two units'), 2A+B->C with
            # the doubled substrate mentioned non-adjacently in the rate arguments; involutive maps, unequal enrichments
            dict(name="three", what="exhaustive: A+B+C->D, A->B+C+D, 2A+B->C, A->3B networks, label counts 1..2, involutive maps only, "
                 "max(S,P)<=3, every combination of the two non-uniform distributions",
                 tpls=THREE_TPLS, maxnl=2, maxl=3, invol=True, distall=True, dists=(3, 4)),
            # declaration order of variables / reactions and order of the compounds inside a stoichiometry dict as
            # explicit dimensions for the merge and the split (B + A -> C declared against the variable order etc.)
            dict(name="orders", what="exhaustive: A+B->C and A->B+C networks in all four presentation orders (compounds of a side "
                 "swapped, variables and reactions declared in reverse), label counts 1..2, involutive maps only, max(S,P)<=3",
                 tpls=["bi", "split"], maxnl=2, maxl=3, invol=True, ords=ALL_ORDS),
        ]
    else:
        fams = [
            dict(name="perm3", what="exhaustive: chain, cycle, label counts 1..3, all maps (27 per 3-position reaction, 3-cycles)",
                 tpls=["chain", "cycle"], maxnl=3, maxl=3),
            dict(name="nl2", what="exhaustive: all networks, label counts 1..2, all maps max(S,P)<=4 (2A->B and A+B->C: all 256)",
                 tpls=ALL_TPLS, maxnl=2, maxl=4),
            dict(name="free", what="exhaustive: chain, cycle, 2A->B network, label counts 1..2, every map of every reaction (also influx/efflux)",
                 tpls=["chain", "cycle", "homo", "under"], maxnl=2, maxl=4, focus=False),
            dict(name="invol", what="exhaustive: all networks, counts 1..3, involutive maps only, max(S,P)<=6",
                 tpls=ALL_TPLS, maxnl=3, maxl=6, invol=True),
            dict(name="deep", what="seeded simulation: all networks, counts 1..3, all maps max(S,P)<=6, independent distributions",
                 tpls=ALL_TPLS, maxnl=3, maxl=6, distall=True, focus=False, simulate="num=500", depth=80),
            dict(name="doubled", what="exhaustive: 2A->B and A->2B networks, label counts 1..3 (doubled compound with 2-3 positions), "
                 "involutive maps only, max(S,P)<=6, every combination of the two non-uniform distributions",
                 tpls=DOUBLED_TPLS, maxnl=3, maxl=6, invol=True, distall=True, dists=(3, 4)),
            dict(name="orders", what="exhaustive: A+B->C and A->B+C networks in all four presentation orders, label counts 1..2, "
                 "involutive maps only, max(S,P)<=4",
                 tpls=["bi", "split"], maxnl=2, maxl=4, invol=True, ords=ALL_ORDS),
            dict(name="three", what="exhaustive: A+B+C->D, A->B+C+D, 2A+B->C, A->3B networks, label counts 1..2, involutive maps only, "
                 "max(S,P)<=4, every combination of the two non-uniform distributions",
                 tpls=THREE_TPLS, maxnl=2, maxl=4, invol=True, distall=True, dists=(3, 4)),
            dict(name="orders_all", what="exhaustive: A+B->C and A->B+C networks, orders swap and swaprev, label counts 1..2, all maps max(S,P)<=3",
                 tpls=["bi", "split"], maxnl=2, maxl=3, ords=("swap", "swaprev")),
            dict(name="doubled_all", what="exhaustive: A->2B network, label counts 1..2, all maps max(S,P)<=3, non-uniform distributions",
                 tpls=["dimer"], maxnl=2, maxl=3, distall=True, dists=(3, 4)),
        ]
    scns = tlc_families(ctx, rep, fams)
    rep.exhaustive = True
    seen, uniq = set(), []
    for s in scns:
        k = case_key(s)
        if k not in seen:
            seen.add(k)
            uniq.append(s)
    scns = uniq
    n_inv = sum(1 for s in scns if s["involutive"])
    for s in scns:
        if bool(s["involutive"]) != all_involutive(lk.norm_b(s["b"])):
            raise MachineryError("classifier and specification disagree on which maps are involutive")
    if len(scns) < (1200 if ctx.quick else 8000) or n_inv < 200 or n_inv == len(scns):
        raise MachineryError(f"case family too small or one-sided: {len(scns)} cases, {n_inv} involutive")
    n_dbl = sum(1 for s in scns if doubled_case(s))
    if n_dbl < 100:
        raise MachineryError(f"only {n_dbl} involutive cases with a doubled multi-position compound and unequal enrichments")
    n_three = sum(1 for s in scns if s["involutive"] and s["tpl"] in THREE_TPLS)
    if n_three < 100:
        raise MachineryError(f"only {n_three} involutive cases with three units on one side of a reaction")
    n_sess = sum(1 for s in scns if s["involutive"] and s.get("sess"))
    if n_sess < 100:
        raise MachineryError(f"only {n_sess} involutive cases with a build / edit base model / build session")
    n_ord = sum(1 for s in scns if s["involutive"] and s.get("ord") in ("swap", "swaprev") and s["tpl"] in ("bi", "split"))
    if n_ord < 100:
        raise MachineryError(f"only {n_ord} involutive merge/split cases whose compounds are written against the declaration order")
    rep.notes["cases"] = {"total": len(scns), "all_maps_involutive": n_inv, "doubled_multi_position_involutive": n_dbl,
                          "merge_split_against_declaration_order_involutive": n_ord, "three_units_on_a_side_involutive": n_three, "base_edit_sessions_involutive": n_sess,
                          "by_template": {t: sum(1 for s in scns if s["tpl"] == t) for t in ALL_TPLS + ["dimer", "under"] + THREE_TPLS}}
    # ---- binding self-test: one corrupted expected value must be noticed by the comparison ---------------------
    probe = next(s for s in scns if s["involutive"] and s["tpl"] == "bi")
    probe_obs = observe(probe)
    if judge(probe, probe_obs) is None:          # (a tree that already fails the probe is reported below, as a verdict)
        for which in (0, 1, 4):
            bent = json.loads(json.dumps(probe))
            de = bent["evals"][which]["de"]
            k = sorted(de)[0]
            de[k] = {"n": de[k]["n"] * 2 + 1, "d": de[k]["d"] * 2}
            if judge(bent, probe_obs) is None:
                raise MachineryError(f"a corrupted expected value (evaluation {which}) was not noticed by the replay comparison")
    rep.notes["binding_selftest"] = "corrupting one expected rate (isotopomer-derived / linear / uniform) of a replayed case is " \
                                    "detected; a corrupted recorded right-hand side is rejected by TLC (oracle)"
    results = pmap(_work, scns, procs=8, chunk=16)
    agree_inv = 0
    for scn, (bad, cross) in zip(scns, results):
        if cross is not None:
            raise MachineryError(f"rendered base model disagrees with the specification: {cross}")
        rep.replayed += 1
        rep.evaluations += 1
        if nontrivial(scn):
            rep.distinct.add(case_key(scn))
        if bad is None:
            agree_inv += 1 if scn["involutive"] else 0
        else:
            slim = {k: scn[k] for k in ("tpl", "ord", "b", "dk", "pool", "flux", "y", "involutive", "evals", "hist", "unit_evals", "pool_hist", "sess", "extra_concs")}
            rep.mismatch(slim, bad, classify(scn, bad))
    rep.notes["involutive_cases_conforming"] = agree_inv
    for s in [x for x in scns if x["involutive"] and nontrivial(x)][:: max(1, n_inv // 3)][:3]:
        rep.sample({"tpl": s["tpl"], "nl": s["b"]["nl"], "maps": {r["name"]: r["map"] for r in s["b"]["rxns"]},
                    "pool": s["pool"], "flux": s["flux"], "y": s["y"], "first_eval": s["evals"][0]})
    # ---- code -> spec ----------------------------------------------------------------------------------------
    cases = [doc_example_case()]
    rnd = random.Random(ctx.seed)
    n_rand = 250 if ctx.quick else 3000
    cases += pmap(random_case, [(rnd.randrange(1 << 30), f"rand-{j}") for j in range(n_rand)], procs=8, chunk=16)
    bent = json.loads(json.dumps(cases[0]))
    bent["id"] = "selftest-corrupted-observation"
    if bent["evals"][1]["de"]:
        k0 = sorted(bent["evals"][1]["de"])[0]
        q0 = bent["evals"][1]["de"][k0]
        bent["evals"][1]["de"][k0] = {"n": q0["n"] * 2 + 1, "d": q0["d"] * 2}
    cases.append(bent)                           # (empty when the tree under test refused the example: rejected anyway)
    for c in cases:
        if "harness_exception" in c:
            raise MachineryError(f"random driver failed on {c['id']}:\n{c['harness_exception']}")
    verdicts = {}
    batch = 800
    for lo in range(0, len(cases), batch):
        cf = ctx.work / f"cases_{lo}.json"
        cf.write_text(json.dumps(cases[lo:lo + batch]))
        res = ctx.tlc("LinearLabelOracle.tla", "LinearLabelOracle.cfg", tag=f"oracle{lo}", env={"CASE_FILE": str(cf)}, workers=1)
        rep.add_tlc(res, "oracle: right-hand sides returned by the real LinearLabelMapper (doc example, random steady networks) judged by the specification")
        for p in res.payloads:
            verdicts[p["id"]] = p
    if len(verdicts) != len(cases):
        raise MachineryError(f"oracle judged {len(verdicts)} of {len(cases)} cases")
    if verdicts["selftest-corrupted-observation"]["verdict"] == "accept":
        raise MachineryError(f"TLC accepted a corrupted recorded right-hand side: {verdicts['selftest-corrupted-observation']}")
    cases = [c for c in cases if c["id"] != "selftest-corrupted-observation"]
    hist: dict[str, int] = {}
    for c in cases:
        v = verdicts[c["id"]]
        tag = v["verdict"] + ("/involutive" if v["involutive"] else "/non-involutive")
        hist[tag] = hist.get(tag, 0) + 1
        if v["verdict"] == "outside-domain":
            raise MachineryError(f"random driver produced a case outside the statement's domain: {c['id']}")
        if bool(v["involutive"]) != all_involutive(c["b"]):
            raise MachineryError("classifier and specification disagree on which maps are involutive (oracle)")
        rep.evaluations += 1
        rep.distinct.add(("oracle", c["id"]))
        if v["verdict"] == "accept":
            rep.traces += 1
        else:
            scn = {"b": c["b"], "oracle_case": c}
            detail = {"what": "linear model (oracle): " + v["verdict"] if v["verdict"] == "linear-rhs" else v["verdict"],
                      "oracle_verdict": v["verdict"], "error": c.get("error")}
            rep.mismatch(scn, detail, classify(scn, detail) if "error" not in c else None)
    rep.notes["oracle_verdicts"] = hist
    if not verdicts["doc-tpi-ald"]["involutive"]:
        raise MachineryError("the documentation example's maps should all be involutive")
    rep.notes["doc_example"] = verdicts["doc-tpi-ald"]
    if not any(k.endswith("/involutive") for k in hist) or not any(k.endswith("/non-involutive") for k in hist):
        raise MachineryError(f"the random driver does not produce both involutive and non-involutive cases: {hist}")
    return rep.finish()


def replay(ctx: Ctx, doc: dict) -> int:
    scn = doc["scenario"]
    if "oracle_case" in scn:
        c = scn["oracle_case"]
        c = random_case((c["seed"], c["id"])) if "seed" in c else doc_example_case()
        cf = ctx.work / "case.json"
        cf.write_text(json.dumps([c]))
        res = ctx.tlc("LinearLabelOracle.tla", "LinearLabelOracle.cfg", tag="oracle", env={"CASE_FILE": str(cf)}, workers=1)
        v = res.payloads[0]
        print(json.dumps({"case": c["id"], "maps": {r["name"]: r["map"] for r in c["b"]["rxns"]}, "verdict_of_TLC": v}))
        bad = v["verdict"] != "accept"
    else:
        obs = observe(scn)
        detail = judge(scn, obs)
        print(json.dumps({"tpl": scn.get("tpl"), "nl": scn["b"]["nl"], "maps": {r["name"]: r["map"] for r in scn["b"]["rxns"]},
                          "detail": detail, "finding_key": classify(scn, detail) if detail else None}, indent=1, default=str))
        bad = detail is not None
    if bad:
        print("VIOLATION property=C16 replay=(given)")
        return 1
    print("conforms")
    return 0
