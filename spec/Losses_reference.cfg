\* C20: a lawful cosine DISTANCE (1 - cos) exists: the property is satisfiable for an angle-based loss
CONSTANTS
    LossNames = {"cosine_distance"}
    Orients = {"pd", "dp"}
    N = 2
    Grid = "pos"
    EmitOn = FALSE
INIT Init
NEXT Next
INVARIANT Law1
INVARIANT Law2
INVARIANT Witness
CHECK_DEADLOCK FALSE
