\* C19: sequential mode, 3 keys, up to two crashes, every crash point; emits the crash histories
CONSTANTS
    NKeys = 3
    W = 1
    L = 2
    Design = "temp"
    Policy = "trust"
    RenameAt = "closed"
    MaxCrash = 2
    Fifo = TRUE
    EmitOn = TRUE
INIT Init
NEXT Next
INVARIANT TypeOK
INVARIANT NoRaise
INVARIANT NoRecompute
INVARIANT FinalWhole
INVARIANT OneOwner
INVARIANT Emit
CHECK_DEADLOCK TRUE
