\* E02 mc (quick): report / comparison laws (whole-model evaluation) on single edits of the full and linear seeds
CONSTANTS
    Depth = 0
    Seeds = {"full", "lin1", "lin2"}
    OpSet = "all"
    EmitOn = FALSE
    Variant = "doc"
    L1 = 0
    L2 = 1
    Modes = {"chain"}
    Exact = FALSE
    Heavy = {"report", "compare"}
INIT DInit
NEXT DNext
INVARIANT ReportLaws
INVARIANT CompareLaws
INVARIANT ArgsAtAgrees
CHECK_DEADLOCK FALSE
