-------------------------------- MODULE PyFn --------------------------------
(***************************************************************************)
(* Shared core (C06, C07, C08, C11, C12): the Python subset accepted as    *)
(* rate laws / derived quantities, as statement ASTs over Expr, with a     *)
(* big-step semantics.                                                     *)
(*                                                                         *)
(* INTERFACE                                                               *)
(* A body is a sequence of statements (tagged records, tag k; the          *)
(* expression of every statement is in field e):                           *)
(*     Assign(x, e)            x = e                                       *)
(*     If(t, body, orelse)     if t: body else: orelse   (elif = an        *)
(*                             orelse consisting of one If; <<>> = none)   *)
(*     Ret(e)                  return e                                    *)
(*   and, JUST OUTSIDE what MxlPy's translator supports (it must refuse):  *)
(*     AnnAssign(x, e)         x: float = e  (binds like x = e)            *)
(*     Chain(names, e)         x1 = x2 = ... = e  (e evaluated once, all   *)
(*                             targets bound)                              *)
(*     Aug(op, x, e)           x op= e       (op \in BinOps)               *)
(*     While(t, body)          while t: body (at most LoopFuel rounds,     *)
(*                             otherwise the outcome is "skip")            *)
(*     For(i, cnt, body)       for i in range(cnt): body  (cnt a natural   *)
(*                             number literal; i stays bound afterwards)   *)
(* A function is FnDef(params, body) (module Expr); a program is a         *)
(* function table ft plus the name of its entry function.                  *)
(*                                                                         *)
(*     Run(body, env, ft)   = [st |-> status, v |-> value]                 *)
(*         st = "ret"   the function returned v (rational or VBool)        *)
(*         st = "none"  control fell off the end (Python returns None):    *)
(*                      the function has no numeric value here, v = Undef  *)
(*         st = "err"   Python raises (ZeroDivisionError, unbound local,   *)
(*                      unknown name, wrong arity ...), v = Undef          *)
(*         st = "skip"  the specification declines (magnitude guard,       *)
(*                      non-integer power, opaque function, boolean used   *)
(*                      as number or number as truth value), v = Skip:     *)
(*                      callers must discard the case                      *)
(*       Python scoping: env holds the arguments, assignments extend it    *)
(*       for the rest of the function (no block scope), reading a local    *)
(*       that is not yet bound is an error, a branch that does not return  *)
(*       falls through to the statement after the if.                      *)
(*     RunFn(ft, f, vals)   run the named function on a sequence of values *)
(*     \* the body of a function whose own scope chain is scopes (innermost first), defined in the module with globals ft
RunIn(body, env, scopes, ft) == Run(body, env, View(scopes, ft))
Defined(body, env, ft) == Run(...).st = "ret"                       *)
(*     Assigned(body)  Reads(body)  BodyConsts(body)  BodyCalls(body)      *)
(*     BodyCmpNums(body)  StmtCount(body)  HasReturn(body)  HasLoop(body)  *)
(*     WellFormed(params, body, ft): parameters distinct, locals disjoint  *)
(*       from the names read as constants (Python would make them locals), *)
(*       every called function and every named constant exists (a wrong    *)
(*       arity is not ill-formed: the call evaluates to Undef).            *)
(* JSON: ToJson(body) is what mbt/render.py consumes (fn_src, py_run).     *)
(***************************************************************************)
EXTENDS Expr

Assign(x, e)          == [k |-> "assign", name |-> x, e |-> e]
Ret(e)                == [k |-> "ret", e |-> e]
If(t, body, orelse)   == [k |-> "if", e |-> t, body |-> body, orelse |-> orelse]
\* x: float = e  -- an annotated assignment binds like a plain one (same tag; the field ann only tells the renderer)
AnnAssign(x, e)       == [k |-> "assign", name |-> x, e |-> e, ann |-> TRUE]
Chain(names, e)       == [k |-> "chain", names |-> names, e |-> e]
Aug(op, x, e)         == [k |-> "aug", name |-> x, op |-> op, e |-> e]
While(t, body)        == [k |-> "while", e |-> t, body |-> body]
For(i, cnt, body)     == [k |-> "for", name |-> i, e |-> Num(cnt), body |-> body]

Run(body, env, ft) == LET r == RunFrom(body, 1, env, ft) IN [st |-> r.st, v |-> r.v]
\* the body of a function whose own scope chain is scopes (innermost first), defined in the module with globals ft
RunIn(body, env, scopes, ft) == Run(body, env, View(scopes, ft))
Defined(body, env, ft) == Run(body, env, ft).st = "ret"

ArgEnv(params, vals) == [x \in SeqRange(params) |-> vals[CHOOSE j \in DOMAIN params : params[j] = x]]
RunFn(ft, f, vals) == Run(ft[f].body, ArgEnv(ft[f].params, vals), ft)

RECURSIVE Assigned(_), StmtExprs(_), StmtCount(_), HasReturn(_), HasLoop(_)

Blocks(s) == IF s.k = "if" THEN <<s.body, s.orelse>> ELSE IF s.k \in {"while", "for"} THEN <<s.body>> ELSE <<>>

\* names bound by assignment anywhere in the body (Python: these are the locals besides the parameters)
Assigned(body) ==
    UNION {(IF body[j].k \in {"assign", "aug", "for"} THEN {body[j].name}
            ELSE IF body[j].k = "chain" THEN SeqRange(body[j].names) ELSE {})
           \cup UNION {Assigned(Blocks(body[j])[m]) : m \in DOMAIN Blocks(body[j])} : j \in DOMAIN body}

\* every expression occurring in the body
StmtExprs(body) ==
    UNION {{body[j].e} \cup UNION {StmtExprs(Blocks(body[j])[m]) : m \in DOMAIN Blocks(body[j])} : j \in DOMAIN body}

Reads(body)       == UNION {FreeVars(e) : e \in StmtExprs(body)}
BodyConsts(body)  == UNION {Consts(e) : e \in StmtExprs(body)}
BodyCalls(body)   == UNION {Calls(e) : e \in StmtExprs(body)}
BodyCmpNums(body) == UNION {CmpNums(e) : e \in StmtExprs(body)}

RECURSIVE SumCount(_, _)
SumCount(body, i) ==
    IF i > Len(body) THEN 0
    ELSE 1 + (IF body[i].k = "if" THEN StmtCount(body[i].body) + StmtCount(body[i].orelse)
              ELSE IF body[i].k \in {"while", "for"} THEN StmtCount(body[i].body) ELSE 0)
         + SumCount(body, i + 1)
StmtCount(body) == SumCount(body, 1)

HasReturn(body) ==
    \E j \in DOMAIN body : body[j].k = "ret" \/ \E m \in DOMAIN Blocks(body[j]) : HasReturn(Blocks(body[j])[m])

\* while loops have no piecewise translation (for loops over a literal range can be unrolled)
HasLoop(body) ==
    \E j \in DOMAIN body : body[j].k = "while" \/ \E m \in DOMAIN Blocks(body[j]) : HasLoop(Blocks(body[j])[m])

WellFormed(params, body, ft) ==
    /\ Cardinality(SeqRange(params)) = Len(params)
    /\ (SeqRange(params) \cup Assigned(body)) \cap BodyConsts(body) = {}
    /\ \A c \in BodyConsts(body) : c \in DOMAIN ft /\ ft[c].k = "const"
    /\ \A f \in BodyCalls(body) : f \in DOMAIN ft /\ ft[f].k = "fn"
=============================================================================
