\* C06 small-scope exhaustive instance (BFS): every program with <= MaxStmts statements and <= MaxToks expression nodes
CHECK_DEADLOCK FALSE
INIT Init
NEXT Next
CONSTANTS
    Arities = {2}
    Locals = {"y"}
    NumLits = {1}
    ConstNames = {}
    UnOn = {}
    BinOn = {"sub", "mul"}
    CmpOn = {"gt", "eq"}
    Chains = FALSE
    BoolOn = {}
    IteOn = FALSE
    CallOn = {"sub2"}
    MaxToks = 8
    MinStmts = 1
    MaxStmts = 4
    MaxDepth = 1
    MaxNest = 1
    Sim = TRUE
    EqOk = TRUE
    CheckPW = TRUE
    EmitOn = TRUE
INVARIANTS Emit PWTheorem LibTheorem WellFormedAlways
