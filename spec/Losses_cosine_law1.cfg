\* C20: the shipped cosine_similarity (-|p||d|) is NOT smallest at p = d: TLC must find a counterexample
CONSTANTS
    LossNames = {"cosine_similarity"}
    Orients = {"pd", "dp"}
    N = 2
    Grid = "small"
    EmitOn = FALSE
INIT Init
NEXT Next
INVARIANT Law1
CHECK_DEADLOCK FALSE
