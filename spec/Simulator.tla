------------------------------ MODULE Simulator ------------------------------
(***************************************************************************)
(* Properties C04 (continued simulation) and C14 (protocols).              *)
(*                                                                         *)
(* The public call sequence of mxlpy.Simulator as a state machine over the *)
(* one-variable linear family  x' = kin - k*x.  Every public call is a     *)
(* pure effect  Eff(op, st) = [st, raised, legal];  the generator (Next),  *)
(* the C14 protocol family (SimulatorProto) and the trace validator        *)
(* (SimulatorTrace) all use this one definition.                           *)
(*                                                                         *)
(* TLC decides the bookkeeping the two properties are about: which time    *)
(* points the accumulated result holds, when a continuation is refused,    *)
(* which parameter values govern which segment, from which state a segment *)
(* starts.  The specification is silent on numbers: the state reached is a *)
(* symbolic flow history (hist) whose closed form xs + (x0 - xs) exp(-k dt) *)
(* is evaluated by the harness (mbt/simkit.py).                            *)
(*                                                                         *)
(* Time.  A time is [b, o, e]: o integer ticks and e "epsilons" after base  *)
(* b (an epsilon is later than nothing-at-all and earlier than any tick:   *)
(* the order is lexicographic; the harness renders it as a very small      *)
(* positive amount, also at large absolute times).  Base 0 is model        *)
(* time zero; base j > 0 is the time stamp of the j-th steady-state point, *)
(* which the statement of C04 leaves free: the only thing assumed of it is *)
(* that it is later than everything reached before (lexicographic order).  *)
(* In recorded traces every time is logged in base 0.                      *)
(*                                                                         *)
(* Variant = "contract" is the specification.  "shiftcmp" and "ssreset"    *)
(* are implementation-shaped WRONG instances (what the pinned commit did): *)
(* TLC must find counterexamples for them; code is never judged by them.   *)
(***************************************************************************)
EXTENDS Integers, Sequences, FiniteSets, TLC, Json, SequencesExt, FiniteSetsExt

CONSTANTS
    Depth,      \* length of the call histories enumerated by Next
    EmitOn,     \* TRUE: print every completed history with the predicted observations
    Variant,    \* "contract" | "shiftcmp" | "ssreset"
    MenuName    \* "c04" (the full menu) | "c04small" (16 operations, for depth 4) | "c04warm" (full menu, continuing WarmH) | "variant"

VARIABLES st, h

-----------------------------------------------------------------------------
\* time
T(b, o) == [b |-> b, o |-> o, e |-> 0]
Zero == T(0, 0)
TLt(s, t) == s.b < t.b \/ (s.b = t.b /\ s.o < t.o) \/ (s.b = t.b /\ s.o = t.o /\ s.e < t.e)
TLe(s, t) == ~TLt(t, s)
TAdd(t, d) == [t EXCEPT !.o = @ + d]
TEps(t) == [t EXCEPT !.e = @ + 1]                 \* just after t
\* offsets of relative grids are written as one integer: 1000 * ticks + epsilons
TAddV(t, v) == [t EXCEPT !.o = @ + (v \div 1000), !.e = @ + (v % 1000)]
Increasing(ts) == \A i \in 1..(Len(ts) - 1) : TLt(ts[i], ts[i + 1])
SortTimes(S) == SetToSortSeq(S, TLt)
Idx(s) == [i \in 1..Len(s) |-> i]

\* parameter values: integers in units fixed by the harness (1/64)
P(kin, kk) == [kin |-> kin, kk |-> kk]
P0 == P(128, 64)
PA == P(64, 128)
PB == P(192, 32)
PC == P(128, 16)
\* a protocol step is a function parameter name -> value that need not name every parameter:
\* Keep marks a parameter the step does not name (it keeps the value in force)
Keep == 0 - 1
Overlay(p0, p) == [kin |-> IF p.kin = Keep THEN p0.kin ELSE p.kin, kk |-> IF p.kk = Keep THEN p0.kk ELSE p.kk]
PZ == P(0, 64)           \* zero is a parameter value like any other: no influx, pure decay towards 0

\* history of the state: hist[1] is where the state came from ("init": the simulator's initial
\* value; "free": whatever clear_results leaves, the statement does not say), later records are
\* overrides ("ov", value v) and flows ("flow"/"ss": parameters p in force from time a to time z)
H(kind, v, p, a, z) == [k |-> kind, v |-> v, p |-> p, a |-> a, z |-> z]

Fresh == [p |-> P0, now |-> Zero, hist |-> <<H("init", 0, P0, Zero, Zero)>>, segs |-> <<>>, nss |-> 0,
          shift |-> 0, it0 |-> Zero, failed |-> FALSE]

-----------------------------------------------------------------------------
\* effects
Ok(s) == [st |-> s, raised |-> FALSE, legal |-> TRUE]
Refuse(s) == [st |-> s, raised |-> TRUE, legal |-> TRUE]
Illegal(s) == [st |-> s, raised |-> FALSE, legal |-> FALSE]

\* where the next integration starts: the time reached (only the wrong instance "ssreset" differs)
Origin(s) == IF Variant = "ssreset" THEN s.it0 ELSE s.now
Shifted(s, t) == IF Variant = "shiftcmp" THEN TAdd(t, 0 - s.shift) ELSE t

\* a new segment with the (non-empty, increasing) points pts, under the parameters in force,
\* starting from the state reached; the very first segment also holds its starting point
AppendSeg(s, pts) ==
    LET te == pts[Len(pts)]
        seg == [times |-> (IF s.segs = <<>> THEN <<Origin(s)>> ELSE <<>>) \o pts,
                p |-> s.p, t0 |-> Origin(s), sidx |-> Len(s.hist)]
    IN [s EXCEPT !.segs = Append(@, seg), !.now = te, !.it0 = te,
                 !.hist = Append(@, H("flow", 0, s.p, Origin(s), te))]

LinPts(from, te, n) == IF n = 1 THEN <<te>> ELSE [j \in 1..n |-> TAdd(from, (j * (te.o - from.o)) \div n)]

Simulate(s, te, n) ==
    IF ~TLt(s.now, Shifted(s, te)) THEN Refuse(s)
    ELSE Ok(AppendSeg(s, LinPts(Origin(s), te, n)))

TimeCourse(s, pts) ==
    IF ~TLt(s.now, Shifted(s, pts[Len(pts)])) THEN Refuse(s)
    ELSE Ok(AppendSeg(s, SelectSeq(pts, LAMBDA q : TLt(s.now, Shifted(s, q)))))   \* earlier points are dropped

SetPars(s, p) == [s EXCEPT !.p = Overlay(s.p, p)]
UpdPar(s, name, v) == SetPars(s, IF name = "k" THEN [s.p EXCEPT !.kk = v] ELSE [s.p EXCEPT !.kin = v])

\* time unchanged, no segment; the next segment starts from the overridden state
Override(s, v) ==
    [s EXCEPT !.hist = Append(@, H("ov", v, s.p, s.now, s.now)), !.it0 = s.now,
              !.shift = IF Variant = "shiftcmp" /\ s.segs # <<>> THEN s.now.o ELSE @]

\* An override names variables: the history above is the history of a variable every override names.  A
\* variable no override names (the replay's bystander z: same equation, same start) has the same history
\* without the override records -- it goes on from the state it had reached, however many overrides and
\* segments came before.
HistOf(s, named) == IF named THEN s.hist ELSE SelectSeq(s.hist, LAMBDA rc : rc.k # "ov")
\* ... and overrides never change which flows a variable goes through, named or not
FlowsOf(hs) == SelectSeq(hs, LAMBDA rc : rc.k \in {"flow", "ss"})
BystanderSameFlows(s) == FlowsOf(HistOf(s, FALSE)) = FlowsOf(HistOf(s, TRUE))

\* one point at a time tau the specification does not choose; it must be later than the time reached
Steady(s, tau) ==
    IF ~TLt(s.now, tau) THEN Illegal(s)
    ELSE Ok([s EXCEPT !.segs = Append(@, [times |-> <<tau>>, p |-> s.p, t0 |-> s.now, sidx |-> Len(s.hist)]),
                      !.now = tau, !.it0 = IF Variant = "ssreset" THEN Zero ELSE tau,
                      !.hist = Append(@, H("ss", 0, s.p, s.now, tau)), !.nss = @ + 1])

\* results gone, time starts again at zero, parameters stay; the state restarted from is not specified
Clear(s) == [s EXCEPT !.segs = <<>>, !.now = Zero, !.it0 = Zero, !.shift = 0, !.failed = FALSE,
                      !.hist = <<H("free", 0, s.p, Zero, Zero)>>]

Cum(steps, i) == FoldLeft(LAMBDA a, x : a + x.d, 0, SubSeq(steps, 1, i))
Bound(start, steps, i) == TAdd(start, Cum(steps, i))

\* a fold of effects that stops at the first refusal
Chain(step(_, _), s0, n) ==
    FoldLeft(LAMBDA r, i : IF r.raised THEN r ELSE step(r.st, i), Ok(s0), [i \in 1..n |-> i])

\* step i: the step's values, then a simulation to the cumulative end of the step
Protocol(s, steps, n) ==
    LET start == s.now
    IN Chain(LAMBDA x, i : Simulate(SetPars(x, steps[i].p), Bound(start, steps, i), n), s, Len(steps))

\* step i: the step's values, then a time course over everything requested up to the step's end and
\* the end itself; TimeCourse drops what is not later than the time reached
ProtocolTC(s, steps, pts) ==
    LET start == s.now
    IN IF ~TLt(start, pts[Len(pts)]) THEN Refuse(s)
       ELSE Chain(LAMBDA x, i :
                    LET b == Bound(start, steps, i)
                    IN TimeCourse(SetPars(x, steps[i].p), SortTimes({q \in Range(pts) : TLe(q, b)} \cup {b})),
                  s, Len(steps))

AbsPts(s, op) == IF op.rel THEN [j \in 1..Len(op.rpts) |-> TAddV(s.now, op.rpts[j])] ELSE op.pts

\* A call whose integration FAILS ("ssfail": a steady-state run on a model that has none) records the failure:
\* from then on get_result() answers with the failure, not with the segments simulated before, and every further
\* simulating call does nothing (no segment, no refusal, parameters untouched) until clear_results.
Simulating(op) == op.k \in {"sim", "tc", "proto", "ptc", "ss", "ssfail", "read"}
Eff(op, s) ==
    IF s.failed /\ Simulating(op) THEN Ok(s)
    ELSE IF op.k = "ssfail" THEN Ok([s EXCEPT !.failed = TRUE]) ELSE
    CASE op.k = "sim"   -> Simulate(s, op.te, op.n)
      [] op.k = "tc"    -> TimeCourse(s, op.pts)
      [] op.k = "proto" -> Protocol(s, op.steps, op.n)
      [] op.k = "ptc"   -> ProtocolTC(s, op.steps, AbsPts(s, op))
      [] op.k = "upd"   -> Ok(UpdPar(s, op.name, op.v))
      [] op.k = "scale" -> Ok(UpdPar(s, op.name, op.f * (IF op.name = "k" THEN s.p.kk ELSE s.p.kin)))
      [] op.k = "ov"    -> Ok(Override(s, op.v))
      [] op.k = "ss"    -> Steady(s, op.tau)
      [] op.k = "clear" -> Ok(Clear(s))
      [] op.k = "read"  -> Ok(s)

-----------------------------------------------------------------------------
\* operations
OpSim(te, n) == [k |-> "sim", te |-> te, n |-> n]
OpTc(pts) == [k |-> "tc", pts |-> pts]
OpProto(steps, n) == [k |-> "proto", steps |-> steps, n |-> n]
OpPtcAbs(steps, pts) == [k |-> "ptc", steps |-> steps, pts |-> pts, rpts |-> <<>>, rel |-> FALSE]
OpPtcRel(steps, rpts) == [k |-> "ptc", steps |-> steps, pts |-> <<>>, rpts |-> rpts, rel |-> TRUE]
OpUpd(name, v) == [k |-> "upd", name |-> name, v |-> v]
OpScale(name, f) == [k |-> "scale", name |-> name, f |-> f]
OpOv(v) == [k |-> "ov", v |-> v]
OpSs(tau) == [k |-> "ss", tau |-> tau]
OpSsFail == [k |-> "ssfail"]
OpClear == [k |-> "clear"]
OpRead == [k |-> "read"]
StepRec(d, p) == [d |-> d, p |-> p]

Proto2 == <<StepRec(2, PA), StepRec(4, PB)>>
Proto3 == <<StepRec(2, PB), StepRec(2, PA), StepRec(6, PB)>>
ProtoP == <<StepRec(2, PA), StepRec(2, P(Keep, 32)), StepRec(2, P(192, Keep))>>   \* steps naming different parameters
ProtoZ == <<StepRec(2, PA), StepRec(2, PZ), StepRec(2, PB)>>      \* an "off" phase between two non-zero steps
Rel(t, ds) == [j \in 1..Len(ds) |-> TAdd(t, ds[j])]

\* the menu of DESIGN.md section 5 (C04), relative to the time reached; one tick is half a time unit
Menu(s) ==
    LET t == s.now
        m2 == 0 - 2
    IN IF MenuName = "variant"
       THEN << OpSim(TAdd(t, 2), 1), OpSim(TAdd(t, 6), 2), OpTc(Rel(t, <<2, 4>>)), OpOv(10),
               OpSs(TAdd(t, 400)), OpClear >>
       ELSE IF MenuName = "c04small"
       THEN << OpSim(t, 1), OpSim(TAdd(t, 2), 1), OpSim(TAdd(t, 6), 2),
               OpTc(Rel(t, <<m2, 2, 4>>)), OpTc(Rel(t, <<0, 1, 3>>)),
               OpPtcAbs(Proto2, Rel(t, <<1, 2, 5, 9>>)),
               OpTc(<<TEps(t), TAdd(t, 2)>>), OpPtcRel(Proto2, <<1, 2001, 6000>>), OpTc(Rel(t, <<1, 3>>)),
               OpUpd("k", IF s.p.kk = 128 THEN 64 ELSE 128), OpUpd("k", IF s.p.kk = 1 THEN 64 ELSE 1),
               OpUpd("kin", IF s.p.kin = 0 THEN 128 ELSE 0),
               OpOv(10), OpSs(T(s.nss + 1, 0)), OpClear, OpRead, OpSsFail >>
       ELSE << OpSim(TAdd(t, m2), 1), OpSim(t, 1), OpSim(TAdd(t, 2), 1), OpSim(TAdd(t, 6), 1),
               OpSim(TAdd(t, m2), 2), OpSim(t, 2), OpSim(TAdd(t, 2), 2), OpSim(TAdd(t, 6), 2),
               OpTc(Rel(t, <<2, 4>>)), OpTc(Rel(t, <<m2, 2, 4>>)), OpTc(<<t>>), OpTc(Rel(t, <<0, 1, 3>>)),
               OpProto(Proto2, 2), OpPtcAbs(Proto2, Rel(t, <<1, 2, 5, 9>>)), OpPtcRel(Proto3, <<0, 2000, 3000, 10000>>),
               OpPtcRel(Proto2, <<0 - 2000, 0>>),
               \* points just after the time reached / just after a step boundary
               OpSim(TEps(t), 1), OpTc(<<TEps(t), TAdd(t, 2)>>),
               OpPtcAbs(Proto2, <<TEps(t), TEps(TAdd(t, 2)), TAdd(t, 5)>>), OpPtcRel(Proto2, <<1, 2001, 6000>>),
               OpUpd("k", IF s.p.kk = 128 THEN 64 ELSE 128), OpUpd("k", IF s.p.kk = 1 THEN 64 ELSE 1),
               OpUpd("kin", IF s.p.kin = 64 THEN 128 ELSE 64),
               \* zero as a value: set, scale by zero, an off phase inside a protocol (both forms)
               OpUpd("kin", IF s.p.kin = 0 THEN 128 ELSE 0), OpScale("kin", 0),
               OpProto(ProtoZ, 1), OpPtcAbs(ProtoZ, Rel(t, <<1, 3, 5>>)),
               OpProto(ProtoP, 1), OpPtcRel(ProtoP, <<1000, 3000, 5000>>),
               OpTc(Rel(t, <<1, 3>>)),       \* odd offsets: whole numbers exactly when the time reached is not one
               OpOv(10), OpSs(T(s.nss + 1, 0)), OpClear, OpRead, OpSsFail >>

\* a simulator that has been overridden twice with simulated time before each override, at a time reached that is
\* an odd number of ticks (MenuName = "c04warm": histories continue from here)
WarmOps(s, j) == CASE j = 1 -> OpSim(TAdd(s.now, 3), 1) [] j = 2 -> OpOv(10) [] j = 3 -> OpSim(TAdd(s.now, 2), 1)
                   [] j = 4 -> OpOv(7)
WarmH == FoldLeft(LAMBDA hh, j : LET s == IF hh = <<>> THEN Fresh ELSE hh[Len(hh)].st
                                     op == WarmOps(s, j)
                                     r == Eff(op, s)
                                 IN Append(hh, [op |-> op, raised |-> r.raised, st |-> r.st]),
                  <<>>, <<1, 2, 3, 4>>)

Init == IF MenuName = "c04warm" THEN h = WarmH /\ st = WarmH[4].st ELSE st = Fresh /\ h = <<>>

Next == /\ Len(h) < Depth
        /\ \E i \in 1..Len(Menu(st)) :
              LET op == Menu(st)[i]
                  r == Eff(op, st)
              IN /\ r.legal
                 /\ st' = r.st
                 /\ h' = Append(h, [op |-> op, raised |-> r.raised, st |-> r.st])

Emit == (EmitOn /\ Len(h) = Depth) => PrintT("@J@" \o ToJson(h) \o "@E@")

-----------------------------------------------------------------------------
\* what the two properties say, as predicates on states and on (state, operation) pairs
AllTimes(segs) == FlattenSeq([i \in 1..Len(segs) |-> segs[i].times])
Count(x, s) == Cardinality({i \in DOMAIN s : s[i] = x})

\* what an operation asks for: the points requested and the end of the request
ReqPts(op, s) ==
    CASE op.k = "sim"   -> Range(LinPts(s.now, op.te, op.n))
      [] op.k = "tc"    -> Range(op.pts)
      [] op.k = "proto" -> UNION {Range(LinPts(Bound(s.now, op.steps, i - 1), Bound(s.now, op.steps, i), op.n))
                                    : i \in 1..Len(op.steps)}
      [] op.k = "ptc"   -> {q \in Range(AbsPts(s, op)) : TLe(q, Bound(s.now, op.steps, Len(op.steps)))}
                           \cup {Bound(s.now, op.steps, i) : i \in 1..Len(op.steps)}
ReqEnd(op, s) ==
    CASE op.k = "sim"   -> op.te
      [] op.k = "tc"    -> op.pts[Len(op.pts)]
      [] op.k = "proto" -> Bound(s.now, op.steps, Len(op.steps))
      [] op.k = "ptc"   -> AbsPts(s, op)[Len(AbsPts(s, op))]
Asking(op) == op.k \in {"sim", "tc", "proto", "ptc"}

\* C04: the accumulated axis is strictly increasing
AxisIncreasing == Increasing(AllTimes(st.segs))

\* C04: a continuation is refused exactly when its requested end is not later than the time reached,
\* and a refused call changes nothing
RefusalOf(op, s) == Asking(op) => LET r == Eff(op, s) IN
    /\ r.raised <=> TLe(ReqEnd(op, s), s.now)
    /\ r.raised => r.st = s
RefusalIff == st.failed \/ \A i \in 1..Len(Menu(st)) : RefusalOf(Menu(st)[i], st)

\* C04/C14: an accepted call adds exactly the requested points later than the time reached, each once
\* (plus the starting point when there was no result yet), and the time reached becomes the largest
NewTimes(s, r) == AllTimes(SubSeq(r.st.segs, Len(s.segs) + 1, Len(r.st.segs)))
PointsOf(op, s) == (Asking(op) /\ ~Eff(op, s).raised) => LET r == Eff(op, s)
                                                            want == {q \in ReqPts(op, s) : TLt(s.now, q)} IN
    /\ Range(NewTimes(s, r)) = want \cup (IF s.segs = <<>> THEN {s.now} ELSE {})
    /\ \A q \in want : Count(q, AllTimes(r.st.segs)) = 1
    /\ Increasing(NewTimes(s, r))
    /\ \A q \in want : TLe(q, r.st.now)
    /\ r.st.now \in want
    /\ SubSeq(r.st.segs, 1, Len(s.segs)) = s.segs          \* earlier segments untouched
PointsOnce == st.failed \/ \A i \in 1..Len(Menu(st)) : PointsOf(Menu(st)[i], st)

\* C04: every segment starts where the previous one ended, from the state reached then (overrides
\* included: they are the history records between two flows), under the parameters recorded for it
SegChain ==
    \A i \in 1..Len(st.segs) :
        LET g == st.segs[i]
            f == st.hist[g.sidx + 1]
        IN /\ f.k \in {"flow", "ss"} /\ f.p = g.p /\ f.a = g.t0 /\ f.z = g.times[Len(g.times)]
           /\ g.t0 = (IF i = 1 THEN Zero ELSE st.segs[i - 1].times[Len(st.segs[i - 1].times)])
           /\ \A j \in 1..Len(g.times) : TLe(g.t0, g.times[j])
           /\ (i > 1 => \A m \in (st.segs[i - 1].sidx + 2)..g.sidx : st.hist[m].k = "ov")
Bystander == BystanderSameFlows(st)
NowIsLast == st.now = (IF st.segs = <<>> THEN Zero ELSE st.segs[Len(st.segs)].times[Len(st.segs[Len(st.segs)].times)])

ParsAfter(p0, steps, i) == FoldLeft(LAMBDA a, x : Overlay(a, x.p), p0, SubSeq(steps, 1, i))
UpdNamed(x, p) ==
    LET a == IF p.kin = Keep THEN x ELSE Eff(OpUpd("kin", p.kin), x).st
    IN IF p.kk = Keep THEN a ELSE Eff(OpUpd("k", p.kk), a).st

\* C14: step i's values govern exactly (b_{i-1}, b_i]; one segment per step; last values stay in force
StepsOf(op, s) == (op.k \in {"proto", "ptc"} /\ ~Eff(op, s).raised) => LET r == Eff(op, s)
                                                                         k0 == Len(s.segs)
                                                                         m == Len(op.steps) IN
    /\ Len(r.st.segs) = k0 + m
    /\ r.st.p = ParsAfter(s.p, op.steps, m)
    /\ r.st.now = Bound(s.now, op.steps, m)
    /\ \A i \in 1..m :
         LET g == r.st.segs[k0 + i]
             lo == Bound(s.now, op.steps, i - 1)
             hi == Bound(s.now, op.steps, i)
         IN /\ g.p = ParsAfter(s.p, op.steps, i)      \* the step's values; what it does not name keeps its value
            /\ g.t0 = lo
            /\ g.times[Len(g.times)] = hi
            /\ \A j \in 1..Len(g.times) :
                  \/ TLt(lo, g.times[j]) /\ TLe(g.times[j], hi)
                  \/ i = 1 /\ k0 = 0 /\ j = 1 /\ g.times[j] = s.now
StepIntervals == st.failed \/ \A i \in 1..Len(Menu(st)) : StepsOf(Menu(st)[i], st)

\* C14: a protocol is the same as applying each step's values and simulating in turn
ComposedProto(op, s) ==
    LET start == s.now
    IN Chain(LAMBDA x, i :
                 Eff(OpSim(Bound(start, op.steps, i), op.n), UpdNamed(x, op.steps[i].p)),
             s, Len(op.steps))
ComposedPtc(op, s) ==
    LET start == s.now
        pts == AbsPts(s, op)
        hiAll == Bound(start, op.steps, Len(op.steps))
    IN Chain(LAMBDA x, i :
                 LET lo == Bound(start, op.steps, i - 1)
                     hi == Bound(start, op.steps, i)
                 IN Eff(OpTc(SortTimes({q \in Range(pts) : TLt(lo, q) /\ TLe(q, hi)} \cup {hi})),
                        UpdNamed(x, op.steps[i].p)),
             s, Len(op.steps))
CompositionOf(op, s) ==
    /\ op.k = "proto" => Eff(op, s) = ComposedProto(op, s)
    /\ (op.k = "ptc" /\ ~Eff(op, s).raised) => Eff(op, s) = ComposedPtc(op, s)
ProtocolIsComposition == st.failed \/ \A i \in 1..Len(Menu(st)) : CompositionOf(Menu(st)[i], st)

\* C04 (failures): after a failed call nothing is simulated, refused or changed by a simulating call
FailedFrozen == st.failed => \A i \in 1..Len(Menu(st)) :
    Simulating(Menu(st)[i]) => (Eff(Menu(st)[i], st).st = st /\ ~Eff(Menu(st)[i], st).raised)
=============================================================================
