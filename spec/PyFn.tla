-------------------------------- MODULE PyFn --------------------------------
(***************************************************************************)
(* Shared core (C06, C07, C08, C11, C12): the Python subset accepted as    *)
(* rate laws / derived quantities, as statement ASTs over Expr, with a     *)
(* big-step semantics.                                                     *)
(*                                                                         *)
(* INTERFACE                                                               *)
(* A body is a sequence of statements (tagged records, tag k; the          *)
(* expression of every statement is in field e):                           *)
(*     Assign(x, e)            x = e                                       *)
(*     If(t, body, orelse)     if t: body else: orelse   (elif = an        *)
(*                             orelse consisting of one If; <<>> = none)   *)
(*     Ret(e)                  return e                                    *)
(* A function is FnDef(params, body) (module Expr); a program is a         *)
(* function table ft plus the name of its entry function.                  *)
(*                                                                         *)
(*     Run(body, env, ft)   = [st |-> status, v |-> value]                 *)
(*         st = "ret"   the function returned v (rational or VBool)        *)
(*         st = "none"  control fell off the end (Python returns None):    *)
(*                      the function has no numeric value here, v = Undef  *)
(*         st = "err"   Python raises (ZeroDivisionError, unbound local,   *)
(*                      unknown name, wrong arity ...), v = Undef          *)
(*         st = "skip"  the specification declines (magnitude guard,       *)
(*                      non-integer power, opaque function, boolean used   *)
(*                      as number or number as truth value), v = Skip:     *)
(*                      callers must discard the case                      *)
(*       Python scoping: env holds the arguments, assignments extend it    *)
(*       for the rest of the function (no block scope), reading a local    *)
(*       that is not yet bound is an error, a branch that does not return  *)
(*       falls through to the statement after the if.                      *)
(*     RunFn(ft, f, vals)   run the named function on a sequence of values *)
(*     Defined(body, env, ft) == Run(...).st = "ret"                       *)
(*     Assigned(body)  Reads(body)  BodyConsts(body)  BodyCalls(body)      *)
(*     BodyCmpNums(body)  StmtCount(body)  HasReturn(body)                 *)
(*     WellFormed(params, body, ft): parameters distinct, locals disjoint  *)
(*       from the names read as constants (Python would make them locals), *)
(*       every called function and every named constant exists (a wrong    *)
(*       arity is not ill-formed: the call evaluates to Undef).            *)
(* JSON: ToJson(body) is what mbt/render.py consumes (fn_src, py_run).     *)
(***************************************************************************)
EXTENDS Expr

Assign(x, e)          == [k |-> "assign", name |-> x, e |-> e]
Ret(e)                == [k |-> "ret", e |-> e]
If(t, body, orelse)   == [k |-> "if", e |-> t, body |-> body, orelse |-> orelse]

Run(body, env, ft) == LET r == RunFrom(body, 1, env, ft) IN [st |-> r.st, v |-> r.v]
Defined(body, env, ft) == Run(body, env, ft).st = "ret"

ArgEnv(params, vals) == [x \in SeqRange(params) |-> vals[CHOOSE j \in DOMAIN params : params[j] = x]]
RunFn(ft, f, vals) == Run(ft[f].body, ArgEnv(ft[f].params, vals), ft)

RECURSIVE Assigned(_), StmtExprs(_), StmtCount(_), HasReturn(_)

\* names bound by assignment anywhere in the body (Python: these are the locals besides the parameters)
Assigned(body) ==
    UNION {IF body[j].k = "assign" THEN {body[j].name}
           ELSE IF body[j].k = "if" THEN Assigned(body[j].body) \cup Assigned(body[j].orelse)
           ELSE {} : j \in DOMAIN body}

\* every expression occurring in the body
StmtExprs(body) ==
    UNION {{body[j].e} \cup (IF body[j].k = "if" THEN StmtExprs(body[j].body) \cup StmtExprs(body[j].orelse) ELSE {})
           : j \in DOMAIN body}

Reads(body)       == UNION {FreeVars(e) : e \in StmtExprs(body)}
BodyConsts(body)  == UNION {Consts(e) : e \in StmtExprs(body)}
BodyCalls(body)   == UNION {Calls(e) : e \in StmtExprs(body)}
BodyCmpNums(body) == UNION {CmpNums(e) : e \in StmtExprs(body)}

RECURSIVE SumCount(_, _)
SumCount(body, i) ==
    IF i > Len(body) THEN 0
    ELSE 1 + (IF body[i].k = "if" THEN StmtCount(body[i].body) + StmtCount(body[i].orelse) ELSE 0)
         + SumCount(body, i + 1)
StmtCount(body) == SumCount(body, 1)

HasReturn(body) ==
    \E j \in DOMAIN body : body[j].k = "ret"
                           \/ (body[j].k = "if" /\ (HasReturn(body[j].body) \/ HasReturn(body[j].orelse)))

WellFormed(params, body, ft) ==
    /\ Cardinality(SeqRange(params)) = Len(params)
    /\ (SeqRange(params) \cup Assigned(body)) \cap BodyConsts(body) = {}
    /\ \A c \in BodyConsts(body) : c \in DOMAIN ft /\ ft[c].k = "const"
    /\ \A f \in BodyCalls(body) : f \in DOMAIN ft /\ ft[f].k = "fn"
=============================================================================
