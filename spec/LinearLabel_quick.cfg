\* all six steady networks, label counts 1..2, ALL maps with max(S,P) <= 3, rotating distributions
CONSTANTS
    Tpls = {"chain", "cycle", "bi", "split", "homo", "tri"}
    Ords = {"std"}
    MaxNL = 2
    MaxL = 3
    Focus = TRUE
    OnlyInvolutive = FALSE
    DistAll = FALSE
    Dists = {1, 2, 3, 4}
    SessMemo = FALSE
    LinMode = "doc"
    EmitOn = TRUE
INIT Init
NEXT Next
INVARIANT ThSteady
INVARIANT ThDist
INVARIANT ThLinIsIso
INVARIANT ThUniform
INVARIANT ThZero
INVARIANT ThInvol
INVARIANT ThParam
INVARIANT ThScale
INVARIANT ThSess
INVARIANT ThSafe
INVARIANT Emit
CHECK_DEADLOCK FALSE
