INIT Init
NEXT Next
INVARIANT Composes
INVARIANT Table
CHECK_DEADLOCK FALSE
