---------------------------- MODULE SimulatorFlow ----------------------------
(***************************************************************************)
(* C04 (spec validation): the flow terms of Simulator.tla compose.  On the *)
(* dyadic sub-family k*dt = m*ln 2 the solution of x' = k*(xs - x) is      *)
(* xs + (x0 - xs) / 2^m, which TLC computes exactly in integers (x0 - xs a *)
(* multiple of 2^6).  TLC checks Flow(a + b) = Flow(b) o Flow(a) and       *)
(* prints the table; the harness requires its closed-form evaluator        *)
(* (mbt/simkit.py: flow) to reproduce every row.                           *)
(***************************************************************************)
EXTENDS Integers, Sequences, TLC, Json

VARIABLE xs

RECURSIVE Pow2(_)
Pow2(m) == IF m = 0 THEN 1 ELSE 2 * Pow2(m - 1)

Flow(s, x0, m) == s + (x0 - s) \div Pow2(m)

Cs == {0 - 3, 0 - 1, 1, 2, 5}
Ms == 0..3

Init == xs \in {0 - 2, 0, 1, 3}
Next == UNCHANGED xs

Composes == \A c \in Cs, a \in Ms, b \in Ms :
    LET x0 == xs + c * 64
    IN /\ (x0 - xs) % Pow2(a + b) = 0
       /\ Flow(xs, Flow(xs, x0, a), b) = Flow(xs, x0, a + b)
       /\ Flow(xs, x0, 0) = x0

Table == PrintT("@J@" \o ToJson([c \in Cs |-> [a \in Ms |-> [s |-> xs, x0 |-> xs + c * 64, m |-> a,
                                                          v |-> Flow(xs, xs + c * 64, a)]]]) \o "@E@")
=============================================================================
