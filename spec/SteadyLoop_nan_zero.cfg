\* C15: the WRONG rule "an undefined norm counts as converged" (guard written as `norm >= tol: continue`) on networks
\* with an identically-zero variable under the relative norm: TLC must find a success far from the steady state
CONSTANTS
    MaxSteps = 1000
    Loop = "copy"
    Family = "zerovar"
    Tier = "quick"
    NanRule = "converged"
    FluxRule = "segment"
    ScanNorm = "asked"
    Reporter = "contract"
    EmitOn = FALSE
INIT Init
NEXT Next
INVARIANT SuccessIsSteady
CHECK_DEADLOCK FALSE
