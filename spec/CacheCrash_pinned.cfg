\* C19: implementation-shaped instance of the pinned commit (write into the final path, existence = available): must VIOLATE NoRaise
CONSTANTS
    NKeys = 2
    W = 1
    L = 2
    Design = "direct"
    Policy = "trust"
    RenameAt = "closed"
    BypassOne = FALSE
    MkdirAtBuild = FALSE
    Recover = FALSE
    Forwards = TRUE
    MaxDrop = 0
    LossyNames = FALSE
    Memo = FALSE
    MaxClear = 0
    MaxExtra = 0
    MaxCrash = 1
    Fifo = TRUE
    EmitOn = FALSE
INIT Init
NEXT Next
INVARIANT TypeOK
INVARIANT NoRaise
INVARIANT NoRecompute
INVARIANT FinalWhole
INVARIANT OneOwner
INVARIANT Emit
CHECK_DEADLOCK TRUE
