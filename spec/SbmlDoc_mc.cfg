\* C17 mc: exhaustive BFS over a small document family; theorems of the document semantics
CONSTANTS
    MaxSpecies = 2
    MaxRxn = 1
    Features = {"rule", "two"}
    NumLits = {2}
    Half = FALSE
    UnOn = {}
    BinOn = {"mul", "div"}
    CmpOn = {"lt"}
    BoolOn = {}
    IteOn = FALSE
    FnOn = {}
    CallOn = TRUE
    PiOn = FALSE
    MaxDepth = 0
    MaxToks = 1
    Schemes = {"plain", "keyword"}
    NoDivide = FALSE
    EmitOn = FALSE
INIT Init
NEXT Next
INVARIANT AlwaysResolves
INVARIANT IdsIrrelevant
INVARIANT Conservation
INVARIANT ClosedAgrees
CHECK_DEADLOCK FALSE
