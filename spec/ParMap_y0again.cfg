\* C09: implementation-shaped wrong instance "y0 applied once more after the row" (y0 replaces the row's initial value): must VIOLATE RowIndependent
CONSTANTS
    Ns = {2}
    Ws = {1}
    Modes = {"par"}
    Variants = {"ia"}
    ColSets = {{"x"}}
    Kinds = {"time_course"}
    FailModes = {"intfail"}
    NameSchemes = {"plain"}
    Y0s = {9}
    Y0Again = TRUE
    MaxDur = 1
    SharedInSeq = FALSE
    Timed = FALSE
    Fifo = TRUE
    EmitOn = FALSE
INIT Init
NEXT Next
INVARIANT RowIndependent
INVARIANT Aligned
INVARIANT FailedIsNaN
INVARIANT Bounded
INVARIANT CallerUntouched
INVARIANT Emit
CHECK_DEADLOCK TRUE
