CONSTANTS
    Params <- Params2
    NBins = 3
    GoodOf <- GoodA
    FailsOf <- FailsA
    N = 3
    W = 1
    Mode = "own"
    EmitOn = FALSE
INIT Init
NEXT Next
INVARIANT TypeOK
INVARIANT Conservation
INVARIANT AcceptsAgree
INVARIANT OnlyGoodSucceed
INVARIANT EndsAfterTotal
INVARIANT BatchCommutes
INVARIANT Emit
PROPERTY Monotone
PROPERTY DrawReadsOnly
CHECK_DEADLOCK FALSE
