\* C18 procedure machine: open chain (unique steady state): the early restore is invisible - every property still holds
CONSTANTS
    Mode = "seq"
    RestorePars = TRUE
    RestoreY0 = TRUE
    Cyclic = FALSE
    EarlyRestoreY0 = TRUE
INIT Init
NEXT Next
INVARIANT ParsRestored
INVARIANT InitsRestored
INVARIANT ResultsRight
INVARIANT ParNeverTouches
CHECK_DEADLOCK FALSE
