------------------------- MODULE LinearLabelOracle -------------------------
(***************************************************************************)
(* code -> spec for C16: a driver built steady-state mass-action models    *)
(* (the documentation's TPI/aldolase example with integer constants,       *)
(* random chains / cycles / branches), ran the real LinearLabelMapper and  *)
(* recorded the right-hand side it returned at enrichments e and external  *)
(* enrichment x (floats snapped to the nearest small rational by the       *)
(* driver, which does not know the expected value).  TLC judges each       *)
(* record with the operators of LinearLabel / LabelExpand.                 *)
(* case: [id, b, y, evals |-> <<[x, fromy, e, de]>>]                       *)
(*   y     : an integer isotopomer distribution (totals = pools = b.init)  *)
(*   fromy : TRUE when e was computed from y (then, for x = 1, the         *)
(*           isotopomer-derived rate must be matched as well)              *)
(***************************************************************************)
EXTENDS LinearLabel, Json, IOUtils

Cases == JsonDeserialize(IOEnv.CASE_FILE)

VARIABLE tid

PoolOf(c) == [x \in CpdSet(c.b) |-> c.b.init[x]]
FluxOf(c) == [j \in DOMAIN c.b.rxns |-> BRate(c.b, PoolOf(c), c.b.rxns[j])]
EOf(c, ev) == [n \in PosNames(c.b) |-> ev.e[n]]

InDomain(c) ==
    /\ \A j \in DOMAIN c.b.rxns : c.b.rxns[j].mapped /\ LinProper(c.b, c.b.rxns[j]) /\ Proper(c.b, c.b.rxns[j])
    /\ Totals(c.b, c.y) = PoolOf(c)
    /\ IsSteadyAt(c.b, c.y)
    /\ \A x \in CpdSet(c.b) : PoolOf(c)[x] > 0 /\ c.b.nl[x] > 0

Verdict(c) ==
    IF ~InDomain(c) THEN "outside-domain"
    ELSE IF \E k \in DOMAIN c.evals : DOMAIN c.evals[k].de # PosNames(c.b) THEN "variables"
    ELSE IF \E k \in DOMAIN c.evals :
              LET ev == c.evals[k]
                  d == LinRhs(c.b, PoolOf(c), FluxOf(c), EOf(c, ev), ev.x, "doc")
              IN \E n \in PosNames(c.b) : ev.de[n] # d[n] THEN "linear-rhs"
    ELSE IF \E k \in DOMAIN c.evals :
              LET ev == c.evals[k] IN
              /\ ev.fromy /\ ev.x = Q!One
              /\ \/ EOf(c, ev) # Enrich(c.b, c.y)
                 \/ \E n \in PosNames(c.b) : ev.de[n] # IsoEnrichRate(c.b, c.y)[n] THEN "isotopomer-rate"
    ELSE "accept"

AllInvol(c) == \A j \in DOMAIN c.b.rxns : Involutive(c.b, c.b.rxns[j])

Init == tid \in 1..Len(Cases)
Next == UNCHANGED tid

Judge == PrintT("@J@" \o ToJson([id |-> Cases[tid].id, verdict |-> Verdict(Cases[tid]),
                                   involutive |-> AllInvol(Cases[tid])]) \o "@E@")
=============================================================================
