\* C20 joint fits: as quick, two candidates
CONSTANTS
    Kinds = {"tc", "ptc", "ssc"}
    NExp = 2
    SettingsRule = "own"
    Rich = TRUE
    EmitOn = TRUE
INIT Init
NEXT Next
INVARIANT OrderFree
INVARIANT LeakMatters
INVARIANT HistoryFree
INVARIANT Emit
CHECK_DEADLOCK FALSE
