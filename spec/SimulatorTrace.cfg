\* batched trace validation (run with TRACE_FILE=<json>, one worker)
CONSTANTS
    Depth = 0
    EmitOn = FALSE
    Variant = "contract"
    MenuName = "c04"
INIT TInit
NEXT TStep
INVARIANT Progress
INVARIANT AxisIncreasing
INVARIANT SegChain
CHECK_DEADLOCK FALSE
