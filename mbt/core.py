"""Shared harness: context, verdict collection, evidence files, known findings, replay files."""

from __future__ import annotations

import hashlib
import json
import multiprocessing as mp
import os
import shutil
import sys
import time
from pathlib import Path

from .tlc import MachineryError, TlcResult, run_tlc

ROOT = Path(__file__).resolve().parent.parent
WORK = ROOT / ".work"
EVIDENCE = ROOT / "evidence"
REPLAYS = ROOT / "replays"
FINDINGS_FILE = ROOT / "known_findings.json"


def repo_root() -> Path:
    return Path(os.environ.get("VERIF_REPO", "/repo"))


def _alt() -> str:
    """Runs against another tree than /repo (seeded-change trials through VERIF_REPO) keep their scratch files,
    evidence and replay files apart, so that they never disturb or overwrite a run of the registered check."""
    r = str(repo_root())
    return "" if r == "/repo" else "__" + r.strip("/").replace("/", "_")


def use_repo() -> None:
    """Make ``import mxlpy`` resolve to the working tree under test (first on sys.path)."""
    src = str(repo_root() / "src")
    if src in sys.path:
        sys.path.remove(src)
    sys.path.insert(0, src)
    os.environ.setdefault("MXLPY_VERIF", "1")
    import warnings

    warnings.filterwarnings("ignore")
    import logging

    logging.disable(logging.CRITICAL)


class Ctx:
    def __init__(self, prop: str, tier: str, seed: int):
        self.prop = prop
        self.tier = tier
        self.seed = seed
        self.work = WORK / (prop + _alt())
        if self.work.exists():
            shutil.rmtree(self.work, ignore_errors=True)
        self.work.mkdir(parents=True, exist_ok=True)
        self.replays = (REPLAYS / prop) if not _alt() else (WORK / ("replays" + _alt()) / prop)
        self.evidence = (EVIDENCE / f"{prop}.json") if not _alt() else (WORK / ("evidence" + _alt()) / f"{prop}.json")
        shutil.rmtree(self.replays, ignore_errors=True)   # replay files of earlier runs are stale
        self.t0 = time.time()
        self.quick = tier == "quick"

    def tlc(self, module: str, cfg: str, *, tag: str | None = None, **kw) -> TlcResult:
        tag = tag or Path(cfg).stem
        cfgp = Path(cfg)
        if not cfgp.is_absolute():
            cfgp = ROOT / "spec" / cfg
        return run_tlc(module, cfgp, work=self.work, tag=tag, **kw)

    def write_cfg(self, name: str, text: str) -> Path:
        p = self.work / name
        p.write_text(text)
        return p


def load_findings() -> list[dict]:
    """known_findings.json plus one optional file per property under known_findings.d/ (same format)."""
    out = []
    files = [FINDINGS_FILE] + sorted((ROOT / "known_findings.d").glob("*.json"))
    for f in files:
        if f.exists():
            out += json.loads(f.read_text())["findings"]
    return out


class Report:
    """Collects what a check covered and what it found; writes the evidence file; decides the exit code."""

    def __init__(self, ctx: Ctx, level: str = "model_checking"):
        self.ctx = ctx
        self.level = level
        self.states = 0
        self.transitions = 0
        self.tlc_runs: list[dict] = []
        self.replayed = 0          # spec -> code behaviours stepped through the implementation
        self.traces = 0            # code -> spec traces accepted by TLC
        self.evaluations = 0
        self.distinct: set = set()
        self.samples: list = []
        self.notes: dict = {}
        self.assumptions: list[str] = []
        self.violations: list[dict] = []
        self.known_hits: dict[str, dict] = {}
        self.exhaustive = False
        self.rule = ""
        self._known = {
            f["key"]: f for f in load_findings() if f["property"] == ctx.prop and f["status"] == "known"
        }

    # ---- coverage bookkeeping -------------------------------------------------------------
    def add_tlc(self, res: TlcResult, what: str) -> None:
        self.states += res.distinct
        self.transitions += res.generated
        self.tlc_runs.append(
            {"what": what, "distinct_states": res.distinct, "states_generated": res.generated,
             "depth": res.depth, "wall_s": round(res.wall_s, 1),
             "payloads": len(res.payloads),
             "coverage": {k: v[1] for k, v in res.coverage.items()} or None}
        )

    def require_coverage(self, res: TlcResult, actions: list[str]) -> None:
        for a in actions:
            if res.coverage.get(a, (0, 0))[1] == 0:
                raise MachineryError(f"vacuity: action {a} was never taken in {res.cmd[-1]}")

    def sample(self, x, limit: int = 4) -> None:
        if len(self.samples) < limit:
            self.samples.append(x)

    def count(self, case_key) -> None:
        self.evaluations += 1
        self.distinct.add(case_key)

    # ---- verdicts -------------------------------------------------------------------------
    def mismatch(self, scenario: dict, detail: dict, key: str | None) -> None:
        """A replayed behaviour or a recorded trace disagrees with the specification."""
        if key is not None and key in self._known:
            hit = self.known_hits.setdefault(key, {"count": 0, "example": {"scenario": scenario, "detail": detail}})
            hit["count"] += 1
            return
        self.violations.append({"scenario": scenario, "detail": detail, "key": key})

    def finish(self) -> int:
        ctx = self.ctx
        wall = time.time() - ctx.t0
        rdir = ctx.replays
        lines = []
        for key, hit in sorted(self.known_hits.items()):
            f = self._known[key]
            lines.append(f"KNOWN-FINDING: property={ctx.prop} {key}: {f['description']} ({hit['count']} cases this run)")
        bykey: dict[str, int] = {}
        def gkey(v):
            w = v["detail"].get("what") if isinstance(v.get("detail"), dict) else None
            return str(v["key"]) if v["key"] is not None else f"None|{w}"

        for v in self.violations:
            bykey[gkey(v)] = bykey.get(gkey(v), 0) + 1
        if bykey:
            lines.append(f"violations by finding key: {json.dumps(bykey, sort_keys=True)}")
        seen = set()
        seen_keys: dict[str, int] = {}
        for v in sorted(self.violations, key=gkey):
            seen_keys[gkey(v)] = seen_keys.get(gkey(v), 0) + 1
            if seen_keys[gkey(v)] > 3:
                continue
            blob = json.dumps({"property": ctx.prop, **v}, sort_keys=True, default=str)
            h = hashlib.sha1(blob.encode()).hexdigest()[:12]
            if h in seen:
                continue
            seen.add(h)
            if len(seen) > 40:
                break
            rdir.mkdir(parents=True, exist_ok=True)
            path = rdir / f"{h}.json"
            path.write_text(json.dumps({"property": ctx.prop, **v}, indent=1, sort_keys=True, default=str))
            lines.append(f"VIOLATION property={ctx.prop} replay={path} key={v['key']}")
        cov = {
            "states": self.states,
            "transitions": self.transitions,
            "traces_validated_against_impl": self.replayed + self.traces,
            "behaviours_replayed_into_impl": self.replayed,
            "recorded_traces_accepted_by_tlc": self.traces,
            "samples": self.samples or ["(none)"],
            "evaluations": max(self.evaluations, 1),
            "distinct_nontrivial": len(self.distinct),
            "rule": self.rule,
            "exhaustive": self.exhaustive,
            "tlc_runs": self.tlc_runs,
            "known_findings_reproduced": {k: h["count"] for k, h in self.known_hits.items()},
            "violations_by_key": bykey,
            **self.notes,
        }
        ev = {
            "property_id": ctx.prop,
            "tier": ctx.tier,
            "seed": ctx.seed,
            "level": self.level,
            "coverage": cov,
            "assumptions": self.assumptions,
            "wall_s": round(wall, 2),
            "violations": len(self.violations),
        }
        ctx.evidence.parent.mkdir(parents=True, exist_ok=True)
        ctx.evidence.write_text(json.dumps(ev, indent=1, default=str))
        for ln in lines:
            print(ln)
        print(f"{ctx.prop} {ctx.tier}: states={self.states} transitions={self.transitions} replayed={self.replayed} "
              f"traces={self.traces} known={sum(h['count'] for h in self.known_hits.values())} "
              f"violations={len(self.violations)} wall={wall:.1f}s")
        return 1 if self.violations else 0


# ---- parallel map over scenarios (fork: the children inherit the imported library) ---------
_FN = None


def _call(chunk):
    return [_FN(x) for x in chunk]


def pmap(fn, items: list, procs: int = 16, chunk: int = 64) -> list:
    """Order-preserving parallel map with fork; fn must be a module-level function."""
    global _FN
    if len(items) < 2 * chunk or procs <= 1:
        return [fn(x) for x in items]
    _FN = fn
    chunks = [items[i:i + chunk] for i in range(0, len(items), chunk)]
    ctx = mp.get_context("fork")
    with ctx.Pool(min(procs, len(chunks))) as pool:
        out = pool.map(_call, chunks)
    return [y for c in out for y in c]


def alarm(seconds: int):
    """Context manager: raise TimeoutError in the current process after ``seconds`` (termination checks)."""
    import signal
    from contextlib import contextmanager

    @contextmanager
    def cm():
        def h(signum, frame):
            raise TimeoutError(f"no answer within {seconds}s")

        old = signal.signal(signal.SIGALRM, h)
        signal.alarm(seconds)
        try:
            yield
        finally:
            signal.alarm(0)
            signal.signal(signal.SIGALRM, old)

    return cm()
