CONSTANTS
    Params <- Params2
    NBins = 2
    GoodOf <- GoodB
    FailsOf <- FailsB
    N = 3
    W = 2
    Mode = "code"
    EmitOn = TRUE
INIT Init
NEXT Next
INVARIANT TypeOK
INVARIANT Conservation
INVARIANT AcceptsAgree
INVARIANT OnlyGoodSucceed
INVARIANT EndsAfterTotal
INVARIANT BatchCommutes
INVARIANT Emit
PROPERTY Monotone
PROPERTY DrawReadsOnly
CHECK_DEADLOCK FALSE
