"""Regenerates /verif/MANIFEST.json from the table below (python -m mbt.manifest_gen)."""

from __future__ import annotations

import json
from pathlib import Path

ROOT = Path(__file__).resolve().parent.parent

TRUST = ("TLC 1.8 + CommunityModules; the harness renderer/replayer; CPython and numpy/pandas as executors; "
         "bounds of the enumeration as recorded in the evidence file")

def load_claims() -> dict[str, dict]:
    """One file per claimed property: /verif/claims/Cnn.json with keys technique, text, design_ref
    (optional: category, note)."""
    out = {}
    enabled = (ROOT / "claims" / "ENABLED").read_text().split()   # integrated and verified by the lead
    for f in sorted((ROOT / "claims").glob("C*.json")):
        if f.stem in enabled:
            out[f.stem] = json.loads(f.read_text())
    return out


CLAIMS = load_claims()

NOT_YET = "check not built yet (planned, see DESIGN.md section 5)"


def main() -> None:
    props = [json.loads(l) for l in (ROOT / "properties.jsonl").read_text().splitlines() if l.strip()]
    from .core import load_findings

    findings = {"findings": load_findings()}
    checks = []
    for p in props:
        pid = p["id"]
        if pid not in CLAIMS:
            continue
        c = CLAIMS[pid]
        checks.append({
            "property_id": pid,
            "quick_cmd": f"./check {pid} --tier quick",
            "thorough_cmd": f"./check {pid} --tier thorough",
            "evidence_file": f"/verif/evidence/{pid}.json",
            "replay_cmd_template": f"./check {pid} --replay {{path}}",
            "engine": "tlc-mbt",
            "level_claimed": {"category": c.get("category", "model_checking"), "text": c["text"],
                              "design_ref": c["design_ref"]},
            "level_note": c.get("note", TRUST),
            "technique": c["technique"],
        })
    na = [{"property_id": p["id"], "reason": NOT_YET} for p in props if p["id"] not in CLAIMS]
    m = {
        "version": 1,
        "setup_cmd": "./check setup",
        "hooks": {
            "guard": "MXLPY_VERIF",
            "enable": "no in-repo hooks: every observation point is a public entry point or extension point wrapped "
                      "from the harness (checks export MXLPY_VERIF=1 for uniformity)",
            "baseline_off_cmd": "cd /repo && /venv/bin/python -m pytest -ra -q -p no:cacheprovider --timeout=900 "
                                "--continue-on-collection-errors",
            "source_commits": [],
            "add_only": True,
        },
        "engines": [{"name": "tlc-mbt", "path": "/verif/check", "serves_properties": sorted(CLAIMS),
                     "kind_free_text": "explicit TLA+ specification checked by TLC (mc), scenario emission (gen), "
                                       "oracle and batched trace validation; Python replayers/recorders bind it to mxlpy"}],
        "checks": checks,
        "not_applicable": na,
        "notes": "Known findings / fixed defects: /verif/known_findings.json "
                 f"({len(findings['findings'])} entries). Exit 2 = machinery failure (never a VIOLATION).",
    }
    (ROOT / "MANIFEST.json").write_text(json.dumps(m, indent=1))
    print(f"MANIFEST: {len(checks)} claimed, {len(na)} not applicable")


if __name__ == "__main__":
    main()
