\* C20 gen (thorough): length-3 pairs
CONSTANTS
    LossNames = {"all"}
    Orients = {"pd"}
    N = 3
    Grid = "small"
    EmitOn = TRUE
INIT Init
NEXT Next
INVARIANT Emit
CHECK_DEADLOCK FALSE
