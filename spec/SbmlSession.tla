----------------------------- MODULE SbmlSession -----------------------------
(***************************************************************************)
(* C17, last clause -- "two documents read in one session do not           *)
(* interfere".                                                             *)
(*                                                                         *)
(* A session is a sequence of public calls on documents d \in Docs, each   *)
(* stored in a file FileOf[d] = [dir, stem]:                               *)
(*   Read(d)      m_d := mxlpy.sbml.read(dir/stem.xml)                     *)
(*   Evaluate(d)  initial values / derivatives / values of m_d             *)
(*   Ship(d)      pickle.loads(pickle.dumps(m_d)) and evaluate the copy    *)
(*                (what every parallel scan does with a model)             *)
(*   Export(d)    mxlpy.sbml.write(m_d, other.xml), read that file back    *)
(*                and evaluate the result (the C08 round trip applied to a *)
(*                model that came from read: the exporter obtains the      *)
(*                formulas from the SOURCE of m_d's functions)             *)
(*   Rewrite(d)   the FILE of document d is replaced by another document   *)
(*                (its twin: same layout, other meaning); models handed    *)
(*                out earlier are not affected, the next Read(d) returns   *)
(*                the model of the file's CURRENT content                  *)
(* SPECIFICATION (Registry = "none"): the outcome of every call is the     *)
(* meaning of document d and nothing else - every model behaves as if its  *)
(* document had been read alone.  ReadAlone is that statement as an        *)
(* invariant over all sessions of length <= MaxOps.                        *)
(* WRONG INSTANCE (Registry = "stem", the pinned commit): read registers   *)
(* the generated functions in a process-wide table under a name computed   *)
(* from the file stem after sanitising (San); Ship(d) needs the table to   *)
(* still hold d's functions.  TLC must refute ReadAlone for it; the        *)
(* counterexample is Read(d1), Read(d2), Ship(d1) with San(stem d1) =      *)
(* San(stem d2) - same stem in two directories, or two stems that collapse *)
(* (Model-1 / model_1).                                                    *)
(* WRONG INSTANCE (Registry = "source"): every import has a module of its  *)
(* own, but the generated SOURCE FILE is named after the sanitised stem;   *)
(* Export(d) reads the formulas of m_d's functions from that file, which   *)
(* holds the functions of the document read LAST under that name.  TLC     *)
(* must refute ReadAlone: Read(d1), Read(d2), Export(d1) silently exports  *)
(* d2's rate laws under d1's names (when both documents have the same      *)
(* layout; otherwise the export fails or is garbage).                      *)
(* WRONG INSTANCE (Registry = "pathmemo"): read memoises the parsed        *)
(* document by PATH; Read(d), Rewrite(d), Read(d) hands out the model of   *)
(* the text the file held at the FIRST read.  TLC must refute ReadAlone.   *)
(* Every session of length MaxOps is emitted with the expected outcomes    *)
(* (spec -> code); the replayer binds each d to a real generated document. *)
(***************************************************************************)
EXTENDS Integers, Sequences, FiniteSets, TLC, Json

CONSTANTS Docs, MaxOps, Registry, EmitOn,
          RewriteDocs     \* documents whose file may be replaced (a subset of Docs: keeps the number of sessions small)

FileOf == <<[dir |-> "a", stem |-> "model"],
            [dir |-> "b", stem |-> "model"],
            [dir |-> "a", stem |-> "Model-1"],
            [dir |-> "a", stem |-> "model_1"]>>
San(stem) == CASE stem = "model" -> "mb_model" [] stem = "Model-1" -> "mb_model_1" [] stem = "model_1" -> "mb_model_1"
Mod(d) == San(FileOf[d].stem)
Mods == {Mod(d) : d \in Docs}

\* a file holds version 0 (the document) or 1 (its twin); a model is the version its file held when it was read
VARIABLES have, reg, hist, alone, disk, held, memo

vars == <<have, reg, hist, alone, disk, held, memo>>
None == 0 - 1

Init ==
    /\ have = {}                          \* documents whose model the session holds
    /\ reg = [m \in Mods |-> 0]           \* wrong instances: which document's functions / source text a name denotes
    /\ hist = <<>>
    /\ alone = TRUE                       \* every outcome so far equals the outcome of a session that only read d
    /\ disk = [d \in Docs |-> 0]          \* which text the file of d currently holds
    /\ held = [d \in Docs |-> None]       \* which text the model m_d was built from
    /\ memo = [d \in Docs |-> None]       \* wrong instance "pathmemo": the text parsed at the first read of the path

\* ver: the version of d's text the outcome of the call must correspond to
Op(o, d, v) == [op |-> o, d |-> d, ver |-> v]

Read(d) ==
    /\ have' = have \cup {d}
    /\ reg' = IF Registry \in {"stem", "source"} THEN [reg EXCEPT ![Mod(d)] = d] ELSE reg
    /\ held' = [held EXCEPT ![d] = disk[d]]
    /\ memo' = IF memo[d] = None THEN [memo EXCEPT ![d] = disk[d]] ELSE memo
    /\ hist' = Append(hist, Op("read", d, disk[d]))
    /\ alone' = (alone /\ (Registry = "pathmemo" => memo'[d] = disk[d]))
    /\ UNCHANGED disk

Rewrite(d) ==
    /\ d \in RewriteDocs
    /\ disk' = [disk EXCEPT ![d] = 1 - @]
    /\ hist' = Append(hist, Op("rewrite", d, 1 - disk[d]))
    /\ UNCHANGED <<have, reg, alone, held, memo>>

Evaluate(d) ==
    /\ d \in have
    /\ hist' = Append(hist, Op("eval", d, held[d]))
    /\ UNCHANGED <<have, reg, alone, disk, held, memo>>

\* the copy is built from the functions the table holds under the model's module name
Ship(d) ==
    /\ d \in have
    /\ hist' = Append(hist, Op("ship", d, held[d]))
    /\ alone' = (alone /\ (Registry = "stem" => reg[Mod(d)] = d))
    /\ UNCHANGED <<have, reg, disk, held, memo>>

\* the exporter reads the source text of m_d's functions: the file registered under the module name
Export(d) ==
    /\ d \in have
    /\ hist' = Append(hist, Op("export", d, held[d]))
    /\ alone' = (alone /\ (Registry = "source" => reg[Mod(d)] = d))
    /\ UNCHANGED <<have, reg, disk, held, memo>>

Next == Len(hist) < MaxOps /\ \E d \in Docs : Read(d) \/ Rewrite(d) \/ Evaluate(d) \/ Ship(d) \/ Export(d)
Spec == Init /\ [][Next]_vars

\* every model handed out is the model of the text its file held at the time of the read, whatever else was read,
\* shipped, exported or rewritten before and after
ReadAlone == alone

\* the shape the classifier uses: a Ship / Export of d after a later Read of another document with the same module name
Collides(h, k) ==
    /\ h[k].op \in {"ship", "export"}
    /\ \E j \in 1..(k - 1) : /\ h[j].op = "read" /\ h[j].d # h[k].d /\ Mod(h[j].d) = Mod(h[k].d)
                             /\ \E m \in 1..(j - 1) : h[m].op = "read" /\ h[m].d = h[k].d
                             /\ \A m \in (j + 1)..(k - 1) : ~(h[m].op = "read" /\ h[m].d = h[k].d)

\* a Read of a path that was read before and rewritten since
Reread(h, k) ==
    /\ h[k].op = "read"
    /\ \E j \in 1..(k - 1) : h[j].op = "read" /\ h[j].d = h[k].d /\ h[j].ver # h[k].ver

Emit ==
    (EmitOn /\ Len(hist) = MaxOps /\ hist[MaxOps].op \notin {"read", "rewrite"}) =>
        PrintT("@J@" \o ToJson([ops |-> hist,
                                files |-> [d \in Docs |-> FileOf[d]],
                                mods |-> [d \in Docs |-> Mod(d)],
                                collide |-> {k \in DOMAIN hist : Collides(hist, k)},
                                reread |-> {k \in DOMAIN hist : Reread(hist, k)}]) \o "@E@")
=============================================================================
