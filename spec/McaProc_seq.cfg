\* C18 procedure machine: sequential, restores parameters and supplied initial values: every property holds
CONSTANTS
    Mode = "seq"
    RestorePars = TRUE
    RestoreY0 = TRUE
INIT Init
NEXT Next
INVARIANT ParsRestored
INVARIANT InitsRestored
INVARIANT ResultsRight
INVARIANT ParNeverTouches
CHECK_DEADLOCK FALSE
