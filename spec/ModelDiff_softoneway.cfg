\* E02 teeth: the pinned soft_eq (walks only the first model's derived / readouts / reactions / surrogates) must violate SoftEqLaws (symmetry)
CONSTANTS
    Depth = 0
    Seeds = {"full", "sur"}
    OpSet = "all"
    EmitOn = FALSE
    Variant = "softoneway"
    L1 = 1
    L2 = 1
    Modes = {"chain", "fork"}
    Exact = FALSE
    Heavy = {}
INIT DInit
NEXT DNext
INVARIANT SoftEqLaws
CHECK_DEADLOCK FALSE
