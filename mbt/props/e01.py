"""E01 (beyond the listed properties) -- mxlpy.carousel.Carousel: variants are edit histories in product order.

spec      : spec/Carousel.tla (EXTENDS ModelEdit: a variant = FoldOps of add_parameter* . update_reaction over the
            caller's content; product order; ProductShape invariant)
spec->code: Carousel(model, variants).variants compared one by one with the specification's Obs (ids, containers,
            query answers); a menu whose fold is rejected must make construction raise; the caller's model is
            untouched; carousel.time_course results are aligned with the variants (compared with an independent
            simulation of each variant).
Not registered in MANIFEST.json (the property list is fixed); run with ./check E01.
"""

from __future__ import annotations

import copy
import json

from .. import fnlib
from ..core import Ctx, Report
from ..modelkit import build_model, norm_content
from ..tlc import MachineryError
from . import c03


def _templates(spec):
    from mxlpy.carousel import ReactionTemplate

    out = {}
    for rxn, tpls in spec:
        out[rxn] = [ReactionTemplate(fn=fnlib.FNS[t["call"]["fn"]], args=list(t["call"]["args"]),
                                     additional_parameters={n: float(v) for n, v in t["add"]}) for t in tpls]
    return out


def replay_menu(p: dict) -> dict | None:
    import numpy as np
    from mxlpy import Simulator
    from mxlpy.carousel import Carousel

    base = norm_content(copy.deepcopy(p["base"]))
    m, _ = build_model(base)
    before = c03.observe(m)
    try:
        car = Carousel(m, _templates(p["spec"]))
        raised = None
    except Exception as e:  # noqa: BLE001
        car, raised = None, f"{type(e).__name__}: {str(e)[:100]}"
    bad = c03.cmp_obs(p["baseobs"], c03.observe(m), True)
    if bad:
        return {"what": "caller's model changed by Carousel", **bad}
    if c03.observe(m) != before:
        return {"what": "caller's model changed by Carousel (raw observation)"}
    if p["raises"]:
        if raised is None:
            return {"what": "construction accepted although an edit of some variant is rejected",
                    "n_variants": len(car.variants)}
        return None
    if raised is not None:
        return {"what": "construction raised", "exception": raised}
    if len(car.variants) != len(p["variants"]):
        return {"what": "number of variants", "expected": len(p["variants"]), "observed": len(car.variants)}
    for j, (v, exp) in enumerate(zip(car.variants, p["variants"])):
        bad = c03.cmp_obs(exp["obs"], c03.observe(v), True)
        if bad:
            return {"what": f"variant {j} (choice {exp['choice']})", **bad}
    # alignment of simulation results with the variants
    evaluable = all(set(e["obs"]["q"]["kind"]) == {"ok"} for e in p["variants"])
    if evaluable:
        tp = [0.0, 0.01, 0.02]
        res = car.time_course(np.array(tp))
        if len(res.results) != len(car.variants):
            return {"what": "number of results", "expected": len(car.variants), "observed": len(res.results)}
        for j, (v, r) in enumerate(zip(car.variants, res.results)):
            ind = Simulator(copy.deepcopy(v)).simulate_time_course(tp).get_result().unwrap_or_err().variables
            got = r.variables
            if list(got.index) != list(ind.index) or not np.allclose(got.to_numpy(), ind.to_numpy(), rtol=1e-7, atol=1e-9):
                return {"what": f"time course of variant {j} differs from an independent simulation of that variant",
                        "expected": ind.iloc[-1].to_dict(), "observed": got.iloc[-1].to_dict()}
    return None


def run(ctx: Ctx) -> int:
    rep = Report(ctx)
    rep.rule = "one case = one menu of reaction templates (6 menus); non-trivial = more than one variant or a rejected edit"
    res = ctx.tlc("Carousel.tla", "Carousel.cfg", workers=1)
    rep.add_tlc(res, "Carousel: product order / size (ProductShape) and predictions for six menus")
    if len(res.payloads) != 6:
        raise MachineryError(f"expected 6 menus, got {len(res.payloads)}")
    for p in res.payloads:
        rep.evaluations += 1
        rep.replayed += 1
        rep.distinct.add(p["menu"])
        try:
            bad = replay_menu(p)
        except Exception as e:  # noqa: BLE001
            import traceback

            bad = {"what": "exception", "exception": f"{type(e).__name__}: {e}", "trace": traceback.format_exc()[-500:]}
        if bad:
            rep.mismatch({"menu": p["menu"], "spec": p["spec"]}, bad, None)
        rep.sample({"menu": p["menu"], "variants": len(p["variants"]), "raises": p["raises"]}, limit=6)
    # binding self-test
    t = copy.deepcopy(res.payloads[0])
    for v in t["variants"]:
        v["obs"]["ids"] = {**v["obs"]["ids"], "ghost": "parameter"}
    if not t["raises"] and replay_menu(t) is None:
        raise MachineryError("binding self-test failed")
    return rep.finish()


def replay(ctx: Ctx, doc: dict) -> int:
    print(json.dumps(doc["detail"], indent=1, default=str))
    return 0
