\* C15: the WRONG flux rule (fluxes of the second steady-state point evaluated under the first segment's parameters)
\* on the history steady state / parameter update / steady state: TLC must find reported fluxes that do not balance
CONSTANTS
    MaxSteps = 1000
    Loop = "copy"
    Family = "ssupd"
    Tier = "quick"
    NanRule = "notconverged"
    FluxRule = "stale"
    ScanNorm = "asked"
    Reporter = "contract"
    EmitOn = FALSE
INIT Init
NEXT Next
INVARIANT FluxesBalance
CHECK_DEADLOCK FALSE
