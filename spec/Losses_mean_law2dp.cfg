\* C20: the shipped mean, called as _Settings.loss calls it (data first), rewards size: counterexample expected
CONSTANTS
    LossNames = {"mean"}
    Orients = {"dp"}
    N = 2
    Grid = "small"
    EmitOn = FALSE
INIT Init
NEXT Next
INVARIANT Law2
CHECK_DEADLOCK FALSE
