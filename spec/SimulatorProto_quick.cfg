\* C14 quick core: fresh / after one call (simulate or override), 1-2 steps with durations 1..2, grids of 1-2 points, exhaustive
CONSTANTS
    Depth = 0
    EmitOn = TRUE
    Variant = "contract"
    MenuName = "c04"
    MaxPrefix = 1
    PrefixIdx = {1, 3}
    MaxSteps = 2
    Durs = {1, 2}
    ParIdx = {1, 5}
    MaxPts = 2
    EpsPts = TRUE
    ReadBefore = TRUE
    Repeat = FALSE
    Lead = 0
INIT PInit
NEXT PNext
INVARIANT CommitChecks
INVARIANT AxisIncreasing
INVARIANT SegChain
INVARIANT NowIsLast
INVARIANT PEmit
CHECK_DEADLOCK FALSE
