\* C18 procedure machine: the pinned shape still restores parameters and returns the right coefficients
CONSTANTS
    Mode = "seq"
    RestorePars = TRUE
    RestoreY0 = FALSE
    Cyclic = FALSE
    EarlyRestoreY0 = FALSE
INIT Init
NEXT Next
INVARIANT ParsRestored
INVARIANT ResultsRight
CHECK_DEADLOCK FALSE
