\* C15, third limit of the criterion (and a defect of the pinned AND the repaired loop, known finding
\* periodic-forcing-commensurate): a pool with a periodic influx whose period divides the loop's sampling interval
\* has no steady state, but the states sampled every 100 time units converge: the loop declares a steady state.
\* TLC must find this.
CONSTANTS
    MaxSteps = 1000
    Loop = "copy"
    Family = "forced"
    Tier = "quick"
    NanRule = "notconverged"
    FluxRule = "segment"
    ScanNorm = "asked"
    Reporter = "contract"
    EmitOn = FALSE
INIT Init
NEXT Next
INVARIANT AccumFails
CHECK_DEADLOCK FALSE
