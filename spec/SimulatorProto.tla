--------------------------- MODULE SimulatorProto ---------------------------
(***************************************************************************)
(* Property C14: the protocol family.  A scenario is built action by       *)
(* action: a prefix of calls that brings the simulator into a fresh or     *)
(* continued state (after simulations, an override, a parameter change, a  *)
(* steady-state run, a clear, another protocol), then a protocol (1 to     *)
(* MaxSteps steps, unequal durations, two parameters, repeated values),    *)
(* then either simulate_protocol (n points per step) or a requested grid   *)
(* for simulate_protocol_time_course (points before the start, on it, on   *)
(* boundaries, just after them, between them, beyond the end; absolute or  *)
(* relative; offsets written as 1000 * ticks + epsilons), then             *)
(* one more simulate call (the last step's values must stay in force).     *)
(* Every effect is Eff of Simulator.tla.  Before the protocol call is      *)
(* applied, the declarative statement of C14 (RefusalOf, PointsOf,         *)
(* StepsOf, CompositionOf) is checked for every way of committing.         *)
(***************************************************************************)
EXTENDS Simulator

CONSTANTS
    MaxPrefix,   \* number of prefix calls (0..MaxPrefix)
    PrefixIdx,   \* which entries of PrefixMenu may be used
    MaxSteps,
    Durs,        \* step durations in ticks
    ParIdx,      \* indices into Pars
    MaxPts,      \* requested grid size (1..MaxPts)
    Lead,        \* grid candidates: start - Lead .. end + 2 (whole ticks) ...
    EpsPts,      \* ... and, when TRUE, the points just after the start and just after every step boundary
    ReadBefore,  \* TRUE: on a continued simulator the result may be read (views computed) before the protocol
    Repeat       \* TRUE: a relative time-course call may be made a second time with the same grid (the same array)

VARIABLE b     \* builder: [phase, steps, pts]

Pars == <<PA, PB, PC, P0, PZ, P(Keep, 32), P(192, Keep)>>     \* the last two name only one parameter

PrefixMenu(s) ==
    LET t == s.now
    IN << OpSim(TAdd(t, 3), 1), OpSim(TAdd(t, 2), 2), OpOv(10), OpUpd("k", IF s.p.kk = 128 THEN 64 ELSE 128),
          OpTc(Rel(t, <<1, 4>>)), OpSs(T(s.nss + 1, 0)), OpClear, OpProto(Proto2, 1), OpUpd("kin", 32),
          OpTc(<<TEps(t), TAdd(t, 3)>>), OpUpd("kin", 0) >>

Total(steps) == Cum(steps, Len(steps))
AllEven(steps) == \A i \in 1..Len(steps) : steps[i].d % 2 = 0

Commits(s, bb) ==
    IF bb.pts = <<>>
    THEN {OpProto(bb.steps, 1)} \cup (IF AllEven(bb.steps) THEN {OpProto(bb.steps, 2)} ELSE {})
    ELSE {OpPtcRel(bb.steps, bb.pts), OpPtcAbs(bb.steps, [j \in 1..Len(bb.pts) |-> TAddV(s.now, bb.pts[j])])}

Record(op, r) == Append(h, [op |-> op, raised |-> r.raised, st |-> r.st])

PInit == st = Fresh /\ h = <<>> /\ b = [phase |-> "prefix", steps |-> <<>>, pts |-> <<>>, rep |-> FALSE]

AddPrefix == /\ b.phase = "prefix" /\ Len(h) < MaxPrefix
             /\ \E i \in PrefixIdx : LET op == PrefixMenu(st)[i]
                                         r == Eff(op, st)
                                     IN r.legal /\ st' = r.st /\ h' = Record(op, r)
             /\ UNCHANGED b
\* a whole prefix at once: two overrides, each after simulated time, ending at an odd number of ticks
PrefixWarm == /\ b.phase = "prefix" /\ h = <<>> /\ MaxPrefix >= 2
              /\ h' = WarmH /\ st' = WarmH[4].st
              /\ b' = [b EXCEPT !.phase = "steps"]
EndPrefix == /\ b.phase = "prefix"
             /\ b' = [b EXCEPT !.phase = "steps"]
             /\ UNCHANGED <<st, h>>
\* the result obtained so far is read (its views are computed) before the protocol continues it
EndPrefixRead == /\ b.phase = "prefix" /\ ReadBefore /\ st.segs # <<>>
                 /\ LET r == Eff(OpRead, st) IN st' = r.st /\ h' = Record(OpRead, r)
                 /\ b' = [b EXCEPT !.phase = "steps"]
AddStep == /\ b.phase = "steps" /\ Len(b.steps) < MaxSteps
           /\ \E d \in Durs, i \in ParIdx : b' = [b EXCEPT !.steps = Append(@, StepRec(d, Pars[i]))]
           /\ UNCHANGED <<st, h>>
EndSteps == /\ b.phase = "steps" /\ Len(b.steps) >= 1
            /\ b' = [b EXCEPT !.phase = "pts"]
            /\ UNCHANGED <<st, h>>
AddPoint == /\ b.phase = "pts" /\ Len(b.pts) < MaxPts
            /\ \E v \in {1000 * o : o \in (0 - Lead)..(Total(b.steps) + 2)}
                        \cup (IF EpsPts THEN {1000 * Cum(b.steps, i) + 1 : i \in 0..Len(b.steps)} ELSE {}) :
                  /\ (IF b.pts = <<>> THEN TRUE ELSE b.pts[Len(b.pts)] < v)
                  /\ b' = [b EXCEPT !.pts = Append(@, v)]
            /\ UNCHANGED <<st, h>>
Commit == /\ b.phase = "pts"
          /\ \E op \in Commits(st, b) : LET r == Eff(op, st)
                                        IN st' = r.st /\ h' = Record(op, r)
          /\ b' = [b EXCEPT !.phase = "post"]
\* the same relative call once more (the harness hands over the very same array object)
Again == /\ b.phase = "post" /\ Repeat /\ ~b.rep
         /\ h[Len(h)].op.k = "ptc" /\ h[Len(h)].op.rel /\ ~h[Len(h)].raised
         /\ LET op == h[Len(h)].op
                r == Eff(op, st)
            IN /\ RefusalOf(op, st) /\ PointsOf(op, st) /\ StepsOf(op, st)
               /\ st' = r.st /\ h' = Record(op, r)
         /\ b' = [b EXCEPT !.rep = TRUE]
Post == /\ b.phase = "post"
        /\ LET op == OpSim(TAdd(st.now, 2), 1)
               r == Eff(op, st)
           IN st' = r.st /\ h' = Record(op, r)
        /\ b' = [b EXCEPT !.phase = "end"]

PNext == AddPrefix \/ PrefixWarm \/ EndPrefix \/ EndPrefixRead \/ AddStep \/ EndSteps \/ AddPoint \/ Commit \/ Again \/ Post

PEmit == (EmitOn /\ b.phase = "end") => PrintT("@J@" \o ToJson(h) \o "@E@")

\* the statement of C14 (and the parts of C04 it rests on) for every way of committing from here
CommitChecks ==
    b.phase = "pts" => \A op \in Commits(st, b) :
        /\ RefusalOf(op, st)
        /\ PointsOf(op, st)
        /\ StepsOf(op, st)
        /\ CompositionOf(op, st)
=============================================================================
