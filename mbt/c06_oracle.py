"""C06, code -> spec: real Python functions are encoded into spec ASTs, TLC evaluates and judges them.

Corpus: every function of ``mxlpy.fns``; the module-level and nested functions of ``tests/test_sympy.py``; the
functions of ``tests/fn_to_sympy/*.py``; a small hand-written corpus of functions in and JUST OUTSIDE the
translator's subset (loops, augmented assignment, tuple swap, ...) kept in this file as source text.
Every function that the encoder accepts (mbt/pyenc.py) is
  1. evaluated by TLC at the points (TranslateOracle.tla: Run),
  2. executed by CPython at the same points - a disagreement means the ENCODER is wrong: machinery failure,
  3. translated by ``fn_to_sympy`` (the ORIGINAL function object) under several argument lists; the translated
     expression is evaluated exactly at every point and handed back to TLC, which accepts or rejects the record.
Functions the encoder refuses are listed with the reason (evidence), nothing is claimed about them.
"""

from __future__ import annotations

import ast
import importlib
import importlib.util
import itertools
import json
import random
import sys
import textwrap
from fractions import Fraction
from pathlib import Path

from . import pyenc, render
from .core import Ctx, Report, repo_root
from .tlc import MachineryError

GRID = [Fraction(-1), Fraction(0), Fraction(1, 2), Fraction(1), Fraction(2), Fraction(3)]

# functions in and just outside the supported subset; written to a real module so that their source is retrievable
CORPUS2_SRC = '''
GAIN = 0.5
OFFSET = 1.0


def gain(v):
    return v * GAIN + OFFSET


def gated(v):
    return v if v > GAIN else GAIN
'''

# module constants re-bound between two translations (history: translate, re-bind, translate again)
REBIND = {"c06corpus": {"SCALE": 5.0}, "c06corpus2": {"GAIN": 3.0, "OFFSET": -2.0}}

CORPUS_SRC = '''
import functools
import math

import c06corpus2

SCALE = 2.0
# module-level floats that share their names with LOCALS / PARAMETERS of functions below (Python scoping: invisible)
leak = 0.25
drain = 4.0
SCALE2 = 8.0
s = 1.5
k = 2.5
x = 3.5


def helper(a, b):
    return a - b


def scaled_by_default(s, k=3.0):
    return s * k


def calls_with_default(a):
    return scaled_by_default(a)


def calls_with_keyword(a, b):
    return scaled_by_default(a, k=b)


def loopinc(a):
    i = 0
    while i < 1:
        i += 1
    return a + i


def forsum(a, b):
    y = b
    for i in range(2):
        y = y + a
    return y


def augmented(a, b):
    y = a
    y *= b
    y += 1
    return y


def annotated(a):
    y: float = a * 2
    return y


def swap(a, b):
    a, b = b, a
    return a - b


def reassign_param(a, b):
    a = a + b
    return a * b


def eq_branch(x, y):
    if x == 1:
        return y
    return 0


def ne_ternary(x, y):
    return y if x != 2 else x


def branch_assign(x):
    y = x
    if x > 0:
        y = 2 * x
    return y


def after_if(x, k):
    if x > k:
        y = x
    else:
        y = k
    z = y + 1
    return z * y


def nested_swapped(a, b):
    return helper(b, a)


def elif_chain(x):
    if x < 0:
        r = -x
    elif x < 1:
        r = x * x
    else:
        r = x
    return r + SCALE


def partial_return(x, y):
    if x > y:
        return x - y


def chained(x, lo, hi):
    if lo <= x < hi:
        return x
    return lo


def shortcircuit(x, y):
    if y != 0 and x / y > 1:
        return x
    return y


def nested_if(x, y):
    if x > 0:
        if y > 0:
            return x + y
        x = -x
    return x * y


def assert_stmt(x):
    assert x > 0
    return x


def subscript_store(a, b):
    v = [a, b]
    v[0] = b
    return v[0] - v[1]


def attr_store(a):
    helper.k = a
    return a * 2


def with_block(a):
    with open("/dev/null") as f:
        a = a + 1
    return a


def try_block(a, b):
    try:
        r = a / b
    except ZeroDivisionError:
        r = 0
    return r


def chained_param(x, hi):
    lo = hi = x * 2.0
    return lo + 3.0 * hi


def chained_in_branch(s, k):
    if s > k:
        s = k = s - k
    return s + 2.0 * k


def chained_local(x, y):
    t = x + y
    u = t = x * y
    return u + 10.0 * t


def chained_three(a, b):
    y = 1.0
    z = y = b = a + 2.0
    return z + 10.0 * y + 100.0 * b


def chained_fresh(a):
    y = z = a * 3.0
    return y - z + a


def scaled(a):
    return a * SCALE


def scale_gate(x):
    if x > SCALE:
        return x - SCALE
    return SCALE


def via_other_module(a, b):
    return c06corpus2.gain(a) + b * SCALE


def two_level_guard(s, i, km):
    if i > 1.0:
        if s < km:
            return 0.0
    s = s / km
    return s / (1.0 + s)


def else_only_if(x, lo, hi):
    if x > hi:
        x = hi
    else:
        if x < lo:
            pass
    x = x - lo
    return x * 2.0


def pass_body(x, k):
    if x > k:
        pass
    x = x * 0.5
    return x + k


def pass_then_else(x, k):
    if x > k:
        pass
    else:
        k = k + 1.0
    x = x - k
    return x * k


def nested_fallthrough_local(a, b):
    y = a
    if a > b:
        if b > 0:
            return y
    y = y * 2.0
    y = y + b
    return y


def tuple_rebind(a, b):
    if a > b:
        pass
    a, b = b + 1.0, a * 2.0
    return a - b


def default_zero(s, k):
    leak = 0.0
    if s > k:
        leak = s - k
    return s + leak


def zero_by_cancelling(s, k):
    leak = s - s
    drain = 0.0 * k
    return k + leak + 2.0 * drain


def int_zero_in_branch(x):
    if x > 1:
        leak = 0
    else:
        leak = x
    return leak + x


def zero_parameter_copy(scale_in):
    SCALE2 = scale_in * 0.0
    return SCALE2 + scale_in


def inner_kw(a, b):
    return a - 2.0 * b


def both_default(a=1.0, b=2.0):
    return a - 2.0 * b


def all_keywords(x, k):
    return inner_kw(a=x, b=k)


def all_keywords_swapped(x, k):
    return inner_kw(b=k, a=x)


def keywords_own_names(a, b):
    return inner_kw(b=a, a=b)


def keyword_default(x, k):
    return scaled_by_default(s=x) + scaled_by_default(k=x, s=k)


def keyword_nested(x, k):
    return inner_kw(a=inner_kw(b=x, a=k), b=helper(b=k, a=x))


def keyword_other_module(x, k):
    return c06corpus2.gain(v=x) - k


def keyword_in_condition(x, k):
    if inner_kw(b=x, a=k) > 0:
        return x
    return k


def keyword_local(x, k):
    y = inner_kw(b=k, a=x)
    return y * both_default(b=y)


def all_defaults_call(x):
    return x + both_default()


def one_default_call(x):
    return both_default(x) + both_default(b=x)


def keyword_unknown(x, k):
    return inner_kw(a=x, c=k)


def chain_lt_eq(x, lo, hi):
    if lo < x == hi:
        return 1.0
    return 0.0


def chain_le_ne(x, lo, hi):
    return x if lo <= x != hi else lo - hi


def chain_eq_lt(x, lo, hi):
    if lo == x < hi:
        return x * 2.0
    return hi


def chain_gt_eq_ne(a, b, c):
    if a > b == c != a:
        return 1.0
    return 2.0


# ---- name resolution: the same name bound differently in two scopes ------------------------------------------
def gain(v):             # module-level callable named like c06corpus2.gain
    return v - 100.0


def exp(v):              # module-level callable named like math.exp
    return v * 3.0


def module_callable_direct(x):
    return gain(x) + exp(x)


def import_shadows_callable(x):
    from c06corpus2 import gain

    return gain(x)


def import_shadows_library_callable(x):
    from math import exp

    return exp(0.0) + x


def import_alias_callable(x):
    from c06corpus2 import gated as gain

    return gain(x) + 1.0


def import_alias_callable_helper(x):
    from c06corpus2 import gated as helper

    return helper(x)


def import_alias_constant(x):
    from c06corpus2 import OFFSET as SCALE

    return x * SCALE


def import_alias_pi(x):
    from math import pi as leak

    return x * leak


def import_module_alias(x):
    import c06corpus2 as math

    return math.gain(x) * math.GAIN


def make_closure_rate():
    SCALE = 0.5

    def closure_rate(s):
        return s * SCALE

    return closure_rate


closure_rate = make_closure_rate()


def make_closure_call():
    def helper(a, b):
        return a * b

    k = 3

    def closure_call(s, drain):
        return helper(s, drain) + k

    return closure_call


closure_call = make_closure_call()


class P:
    k = 1.0

    def __init__(self):
        self.k = 2.0


pinst = P()


def class_attribute(x):
    return x * P.k


def instance_attribute(x):
    return x * pinst.k


def double(g):
    @functools.wraps(g)
    def w(*a):
        return 2 * g(*a)

    return w


def same(g):
    return g


@double
def decorated(s, k):
    return s * k


@same
def decorated_identity(s, k):
    return s * k + 1.0


def _plain_rate(s, k):
    return s - k


wrapped_without_syntax = double(_plain_rate)


def calls_decorated(s, k):
    return decorated(s, k) + 1.0


def annotated_rebind_param(s, km):
    s: float = s / km
    return s / (1.0 + s)


def annotated_rebind_local(s, k):
    v = k * s
    v: float = v / (1.0 + s)
    return v + k


def annotated_in_branch(s, k):
    r = s
    if s > k:
        r: float = s - k
    return r * 2.0


def annotated_without_value(s, k):
    v: float
    v = s * k
    return v


def make_closure_attr():
    pinst = P()
    pinst.k = 5.0

    def closure_attr(s):
        return pinst.k * s

    return closure_attr


closure_attr = make_closure_attr()


def chain_is_not(x, lo, k):
    if lo < x is not k:
        return 1.0
    return 0.0


def chain_is(x, lo, k):
    if lo < x is k:
        return 1.0
    return 0.0


def chain_in(x, lo):
    return x if lo < x in (1.0, 2.0) else lo


def early_none(x):
    if x > 1:
        return x
    y = x * 2
    return y - 1
'''


def _points(k: int, rnd: random.Random) -> list[list[Fraction]]:
    if k == 0:
        return [[]]
    if len(GRID) ** k <= 36:
        return [list(p) for p in itertools.product(GRID, repeat=k)]
    if k == 3:      # 110 of the 216 grid points (seeded) + the diagonal + every point with two equal neighbours on {1, 2}
        allp = [list(p) for p in itertools.product(GRID, repeat=3)]
        pts = rnd.sample(allp, 110) + [[v] * 3 for v in GRID]
        pts += [list(p) for p in itertools.product([Fraction(1), Fraction(2)], repeat=3)]
        return pts
    pts = [[rnd.choice(GRID) for _ in range(k)] for _ in range(150)]
    pts += [[v] * k for v in GRID]
    return pts


def _nested_functions(path: Path, work: Path, modname: str) -> list:
    """Module-level and nested function definitions of a test file, re-homed in a real module under ``work``."""
    src = path.read_text()
    tree = ast.parse(src)
    top, nested = [], []
    for node in tree.body:
        if isinstance(node, ast.FunctionDef) and node.name.startswith("test_"):
            for sub in node.body:
                if isinstance(sub, ast.FunctionDef):
                    seg = textwrap.dedent(ast.get_source_segment(src, sub, padded=True))
                    new = f"{node.name}__{sub.name}"
                    seg = seg.replace(f"def {sub.name}(", f"def {new}(", 1)
                    nested.append((new, seg))
        else:
            top.append(ast.get_source_segment(src, node, padded=True))
    text = "\n\n".join(top) + "\n\n\n" + "\n\n".join(s for _, s in nested) + "\n"
    render.write_module(work, modname, text)
    mod = render.load_module(work, modname)
    names = [n.name for n in tree.body if isinstance(n, ast.FunctionDef) and not n.name.startswith("test_")]
    return [getattr(mod, n) for n in names + [n for n, _ in nested]]


def corpus_functions(ctx: Ctx) -> list[tuple[str, object]]:
    d = ctx.work / "oracle_mods"
    if "c06corpus" not in sys.modules:
        render.write_module(d, "c06corpus2", CORPUS2_SRC)
        render.write_module(d, "c06corpus", CORPUS_SRC)
    out = []
    for mn in ("c06corpus2", "c06corpus"):
        mod = render.load_module(d, mn)
        out += [("corpus", f) for n, f in vars(mod).items() if callable(f) and getattr(f, "__module__", "") == mn]
    return out


def collect(ctx: Ctx) -> list[tuple[str, object]]:
    out = []
    import mxlpy.fns as fns

    out += [("mxlpy.fns", getattr(fns, n)) for n in fns.__all__ if callable(getattr(fns, n))]
    d = ctx.work / "oracle_mods"
    out += corpus_functions(ctx)
    tests = repo_root() / "tests"
    if (tests / "test_sympy.py").exists():
        try:
            out += [("tests/test_sympy.py", f) for f in _nested_functions(tests / "test_sympy.py", d, "c06_test_sympy")]
        except Exception as e:  # noqa: BLE001
            raise MachineryError(f"cannot re-home tests/test_sympy.py: {e}") from e
    ftd = tests / "fn_to_sympy"
    if ftd.exists():
        sys.path.insert(0, str(ftd))
        for f in sorted(ftd.glob("test_*.py")):
            try:
                spec = importlib.util.spec_from_file_location(f"c06ft_{f.stem}", f)
                mod = importlib.util.module_from_spec(spec)
                sys.modules[spec.name] = mod
                spec.loader.exec_module(mod)
            except Exception:  # noqa: BLE001
                continue
            for n, obj in vars(mod).items():
                if callable(obj) and getattr(obj, "__module__", "") == spec.name and not n.startswith("test_") \
                        and isinstance(obj, type(collect)):
                    out.append((f"tests/fn_to_sympy/{f.name}", obj))
    return out


def _exact_value(expr, subs):
    from .props.c06 import sym_value

    kind, v = sym_value(expr, subs, exact=True)
    if kind == "num" and isinstance(v, Fraction) and abs(v.numerator) < pyenc.LIM and v.denominator < pyenc.LIM:
        return render.to_json_value(v), (kind, v)
    if kind == "bool":
        return {"b": v}, (kind, v)
    return render.to_json_value(render.SKIP), (kind, v)


def _plain(v):
    """numpy scalars -> Python scalars (np.less returns np.bool_)."""
    if type(v).__module__ == "numpy" and getattr(v, "shape", None) == ():
        return v.item()
    return v


def outside_subset_check(ctx: Ctx, rep: Report, fns: list, grid: list | None = None, what: str = "outside_spec_subset") -> dict:
    import inspect

    import sympy
    from mxlpy.meta.source_tools import fn_to_sympy

    from .props.c06 import agrees, sym_value

    st = {"functions": len(fns), "refused": 0, "translated": 0, "points": 0}
    for origin, fn in fns:
        try:
            params = list(inspect.signature(fn).parameters)
        except (TypeError, ValueError):
            continue
        if len(params) > 3:
            continue
        try:
            expr = fn_to_sympy(fn, origin=fn.__name__, model_args=[sympy.Symbol(p) for p in params])
        except Exception:  # noqa: BLE001
            expr = None
        if expr is None or not isinstance(expr, sympy.Basic):
            st["refused"] += 1
            continue
        st["translated"] += 1
        bad = []
        for p in itertools.product(grid or GRID, repeat=len(params)):
            o = render.py_outcome(fn, [float(x) for x in p])
            o["v"] = _plain(o["v"])
            if o["st"] != "ret" or not isinstance(o["v"], (bool, int, float)) or o["v"] != o["v"] \
                    or abs(o["v"]) == float("inf"):
                continue
            st["points"] += 1
            subs = {sympy.Symbol(n): v for n, v in zip(params, p, strict=True)}
            if not (agrees(sym_value(expr, subs, exact=False), o["v"]) or agrees(sym_value(expr, subs, exact=True), o["v"])):
                bad.append({"point": [str(x) for x in p], "cpython": o["v"], "expression_value": str(sym_value(expr, subs, exact=False)[1])})
        if bad:
            rep.mismatch({"oracle": True, what: True, "function": f"{origin}:{fn.__name__}",
                          "source": textwrap.dedent(inspect.getsource(fn))},
                         {"expression": str(expr)[:300], "bad_points": len(bad), "first_bad_points": bad[:3]}, None)
        else:
            rep.traces += 1
    return st


def oracle_pass(ctx: Ctx, rep: Report, fns: list, phase: str, min_encoded: int) -> dict:
    """Encode, let TLC evaluate, cross-check with CPython, translate, let TLC judge.  ``phase`` labels ids / files."""
    import sympy
    from mxlpy.meta.source_tools import fn_to_sympy

    from .props.c06 import agrees, sym_value

    rnd = random.Random(ctx.seed)
    stats = {"functions": len(fns), "encoded": 0, "outside_subset": {}, "refused": 0, "records": 0, "accepted": 0,
             "points": 0, "undefined_or_skipped_points": 0}
    cases, meta = [], {}
    for origin, fn in fns:
        try:
            enc = pyenc.encode_function(fn)
        except pyenc.OutsideSubset as e:
            stats["outside_subset"][f"{phase}{origin}:{fn.__name__}"] = str(e)
            continue
        except (OSError, TypeError, SyntaxError) as e:
            stats["outside_subset"][f"{phase}{origin}:{fn.__name__}"] = f"no source: {e}"
            continue
        stats["encoded"] += 1
        pts = _points(len(enc["params"]), rnd)
        ft = dict(enc["ft"])
        ft["__none"] = {"k": "const", "v": {"n": 0, "d": 1}}
        cid = f"{phase}{origin}:{fn.__name__}"
        meta[cid] = {"fn": fn, "enc": enc, "pts": pts, "origin": origin}
        cases.append({"id": cid, "params": enc["params"], "body": enc["body"], "ft": ft,
                      "pts": [[render.to_json_value(v) for v in p] for p in pts]})
    # functions the specification cannot express (lists, attribute stores, with / try, annotated or tuple
    # assignment ...): the function's value is by definition what CPython computes, so fn_to_sympy must refuse
    # them or be right; here CPython, not TLC, supplies the expected value (supplementary, stated in the evidence)
    stats["outside_checked"] = outside_subset_check(ctx, rep, [(o, f) for o, f in fns
                                                               if f"{phase}{o}:{f.__name__}" in stats["outside_subset"]])
    if stats["encoded"] < min_encoded:
        raise MachineryError(f"the encoder accepted only {stats['encoded']} functions")
    cf = ctx.work / f"oracle_cases{phase.strip(':')}.json"
    cf.write_text(json.dumps(cases))
    res = ctx.tlc("TranslateOracle.tla", "TranslateOracle.cfg", tag=f"oracle_eval{phase.strip(':')}", env={"CASE_FILE": str(cf)}, workers=1)
    rep.add_tlc(res, f"oracle {phase}: Run of the encoded real functions on the grid")
    outs = {p["id"]: p["out"] for p in res.payloads}
    if set(outs) != set(meta):
        raise MachineryError(f"TLC evaluated {len(outs)} of {len(meta)} encoded functions")
    # ---- CPython cross-check of the encoder, then the translator ----------------------------------------
    judged, exp_by_id = [], {}
    for cid, m in meta.items():
        fn, enc, pts = m["fn"], m["enc"], m["pts"]
        exp = [{"st": o["st"], "v": render.from_json_value(o["v"])} for o in outs[cid]]
        exp_by_id[cid] = exp
        for p, q in zip(pts, exp, strict=True):
            if q["st"] == "skip":
                continue
            o = render.py_outcome(fn, [float(x) for x in p])
            if not render.same_outcome(q, o, 1e-9):
                ox = render.py_outcome(fn, list(p))
                if render.same_outcome(q, ox, 1e-9):
                    q["st"] = "fragile"
                    continue
                raise MachineryError(f"encoder cross-check failed for {cid} at {[str(x) for x in p]}: "
                                     f"spec {q['st']} {q['v']}, CPython {o['st']} {o['v']}")
        params = enc["params"]
        arglists = [("own", params)]
        if not phase:           # the second pass of the re-binding history only needs one argument list
            arglists.append(("fresh", [f"m{j}" for j in range(len(params))]))
            if len(params) >= 2:
                arglists.append(("rev", params[::-1]))
        for tag, names in arglists:
            stats["records"] += 1
            try:
                expr = fn_to_sympy(fn, origin=cid, model_args=[sympy.Symbol(n) for n in names])
            except Exception:  # noqa: BLE001
                expr = None
            if expr is None or not isinstance(expr, sympy.Basic):
                stats["refused"] += 1
                continue
            obs, raw = [], []
            expr_x = expr.xreplace({f: sympy.Rational(f) for f in expr.atoms(sympy.Float)})    # once per record
            for p in pts:
                subs = {sympy.Symbol(n): v for n, v in zip(names, p, strict=True)}
                j, r = _exact_value(expr_x, subs)
                obs.append(j)
                raw.append((subs, r))
            case = {"id": f"{cid}|{tag}", "params": params, "body": enc["body"],
                    "ft": {**enc["ft"], "__none": {"k": "const", "v": {"n": 0, "d": 1}}},
                    "pts": [[render.to_json_value(v) for v in p] for p in pts], "obs": obs}
            judged.append((case, cid, tag, names, expr, raw))
    if judged:
        cf2 = ctx.work / f"oracle_judge{phase.strip(':')}.json"
        cf2.write_text(json.dumps([c for c, *_ in judged]))
        res2 = ctx.tlc("TranslateOracle.tla", "TranslateOracle.cfg", tag=f"oracle_judge{phase.strip(':')}", env={"CASE_FILE": str(cf2)}, workers=1)
        rep.add_tlc(res2, f"oracle {phase}: translated expressions of real functions judged against Run")
        verdicts = {p["id"]: p for p in res2.payloads}
        if len(verdicts) != len(judged):
            raise MachineryError(f"TLC judged {len(verdicts)} of {len(judged)} records")
        for case, cid, tag, names, expr, raw in judged:
            v = verdicts[case["id"]]
            exp = exp_by_id[cid]
            bad = []
            usable = 0
            for j, q in enumerate(exp):
                if q["st"] != "ret":
                    stats["undefined_or_skipped_points"] += 1
                    continue
                usable += 1
                stats["points"] += 1
                rejected = (j + 1) in v["rejected"]
                if case["obs"][j] == render.to_json_value(render.SKIP):
                    # not exactly representable: numeric comparison of the float evaluation with TLC's value
                    rejected = not (agrees(raw[j][1], q["v"]) or agrees(sym_value(expr, raw[j][0], exact=False), q["v"]))
                elif rejected and (agrees(sym_value(expr, raw[j][0], exact=False), q["v"])
                                   or agrees(sym_value(expr, raw[j][0], exact="snap"), q["v"])):
                    rejected = False       # the float evaluation agrees: rationalising the Floats moved a boundary
                if rejected:
                    bad.append({"point": [str(x) for x in meta[cid]["pts"][j]], "expected": str(q["v"]),
                                "observed": str(raw[j][1][1])})
            rep.evaluations += usable
            if usable:
                rep.distinct.add(("oracle", case["id"]))
            if bad:
                scn = {"oracle": True, "function": cid, "model_args": names, "tag": tag,
                       "source": textwrap.dedent(__import__("inspect").getsource(meta[cid]["fn"]))}
                rep.mismatch(scn, {"expression": str(expr)[:300], "bad_points": len(bad), "first_bad_points": bad[:3]},
                             None)
            else:
                rep.traces += 1
                stats["accepted"] += 1
    return stats


def run_oracle(ctx: Ctx, rep: Report) -> None:
    v0 = len(rep.violations) + sum(h["count"] for h in rep.known_hits.values())
    stats = oracle_pass(ctx, rep, collect(ctx), "", 20)
    # ---- history: translate (done above), re-bind module constants, translate again ------------------------
    # every function of the two corpus modules has been translated once; a translator that remembers module
    # constants across translations now disagrees with the function (CPython and the re-encoded AST use the new value)
    olds = {}
    for mn, binds in REBIND.items():
        for c, v in binds.items():
            olds[(mn, c)] = getattr(sys.modules[mn], c)
            setattr(sys.modules[mn], c, v)
    try:
        stats["rebound_constants"] = oracle_pass(ctx, rep, corpus_functions(ctx), "rebound:", 10)
    finally:
        for (mn, c), v in olds.items():
            setattr(sys.modules[mn], c, v)
    stats["rebound_constants"].pop("outside_subset", None)
    stats["known_fns"] = known_fns_check(ctx, rep)
    stats["mismatches"] = len(rep.violations) + sum(h["count"] for h in rep.known_hits.values()) - v0
    rep.notes["oracle"] = stats


# ---------------------------------------------------------------------------------------------------
# every row of mxlpy's KNOWN_FNS table, with symbolic and with constant arguments
# ---------------------------------------------------------------------------------------------------
KGRID = [-2.0, -0.5, 0.0, 0.5, 1.0, 2.0, 3.0]
KMIXED = [0.0, 1.0, 2.5, -1.5]
KCONST = {1: [(0.5,), (-1.5,), (2.5,)], 2: [(2.5, 1.5), (-1.5, 2.5), (2.0, 2.0), (7.5, -2.0)]}


def _source_name(fn) -> str | None:
    import builtins
    import math

    import numpy as np

    nm = getattr(fn, "__name__", None)
    for prefix, mod in (("", builtins), ("math.", math), ("np.", np)):
        if nm and getattr(mod, nm, None) is fn:
            return prefix + nm
    for prefix, mod in (("math.", math), ("np.", np)):
        for cand in dir(mod):
            if getattr(mod, cand, None) is fn:
                return prefix + cand
    return None


def known_fns_check(ctx: Ctx, rep: Report) -> dict:
    """A module with one function per (row of KNOWN_FNS, arity, argument form); the table is read from the library.

    Transcendental results cannot be decided by TLC, so CPython's value is the expected one (supplementary path).
    With symbolic arguments the clean tree refuses every row (acceptable); with constant arguments the row is
    applied at translation time; binary rows are also called with one constant and one non-constant argument in
    both orders (sympy.maximum(0.0, s) is the calculus function and returned the constant).  A refusal is fine, a wrong value is a violation.
    """
    from mxlpy.meta import source_tools

    lines = ["import math", "", "import numpy as np", "", ""]
    names, rows, unnamed = [], 0, []
    # the rows of the table AND every function of math / numpy (ufuncs) / the numeric builtins by name: a row that
    # is absent today is judged as soon as somebody adds it (on HEAD such calls are refused: no source)
    import builtins
    import math as _math

    import numpy as _np

    cands = list(source_tools.KNOWN_FNS)
    cands += [getattr(_math, n) for n in sorted(dir(_math)) if callable(getattr(_math, n)) and not n.startswith("_")]
    cands += [getattr(_np, n) for n in sorted(dir(_np)) if isinstance(getattr(_np, n), _np.ufunc)]
    cands += [getattr(builtins, n) for n in ("abs", "min", "max", "pow", "round", "divmod", "float", "int")]
    seen_ids: set = set()
    for j, fn in enumerate(cands):
        if id(fn) in seen_ids:
            continue
        seen_ids.add(id(fn))
        src = _source_name(fn)
        if src is None:
            unnamed.append(repr(fn))
            continue
        rows += 1
        for ar in (1, 2):
            probe = [render.py_outcome(fn, list(c)) for c in KCONST[ar]]
            if all(o["st"] != "ret" for o in probe):
                continue          # not callable with that many floats (e.g. min(x), math.gcd(1.5, 2.5))
            params = ["a", "b"][:ar]
            fname = f"k{j}_{src.replace('.', '_')}_{ar}"
            lines += [f"def {fname}_sym({', '.join(params)}):", f"    return {src}({', '.join(params)})", "", ""]
            lines += [f"def {fname}_mix({', '.join(params)}):",
                      f"    y = {src}({', '.join(p + ' * 2.0' for p in params)})", f"    return y - {params[-1]}", "", ""]
            names += [f"{fname}_sym", f"{fname}_mix"]
            for ci, c in enumerate(KCONST[ar]):
                lines += [f"def {fname}_c{ci}(a):", f"    return a + {src}({', '.join(repr(x) for x in c)})", "", ""]
                names.append(f"{fname}_c{ci}")
            if ar == 2:
                # the non-constant argument in EVERY position, the other one a constant (both orders), as a factor
                for ci, c in enumerate(KMIXED):
                    lines += [f"def {fname}_cs{ci}(a, b):", f"    return b * {src}({c!r}, a)", "", "",
                              f"def {fname}_sc{ci}(a, b):", f"    return b * {src}(a, {c!r})", "", "",
                              f"def {fname}_lc{ci}(a, b):", f"    y = a - 0.5", f"    return {src}({c!r}, y) + b", "", ""]
                    names += [f"{fname}_cs{ci}", f"{fname}_sc{ci}", f"{fname}_lc{ci}"]
    d = ctx.work / "oracle_mods"
    render.write_module(d, "c06known", "\n".join(lines))
    mod = render.load_module(d, "c06known")
    st = outside_subset_check(ctx, rep, [("KNOWN_FNS", getattr(mod, n)) for n in names], grid=KGRID, what="known_fns_row")
    st["rows"], st["rows_without_source_name"] = rows, unnamed
    if rows < 40:
        raise MachineryError(f"only {rows} rows of KNOWN_FNS could be rendered")
    return st


def replay(ctx: Ctx, doc: dict) -> int:
    print(json.dumps(doc, indent=1))
    print("(code->spec case: re-run ./check C06 to have TLC judge the function again)")
    return 1
