\* the pinned implementation shape (map read substrate -> product): TLC must find ThLinIsIso violated
CONSTANTS
    Tpls = {"cycle", "chain"}
    Ords = {"std"}
    MaxNL = 3
    MaxL = 3
    Focus = TRUE
    OnlyInvolutive = FALSE
    DistAll = FALSE
    Dists = {1, 2, 3, 4}
    SessMemo = FALSE
    LinMode = "pinned"
    EmitOn = FALSE
INIT Init
NEXT Next
INVARIANT ThSteady
INVARIANT ThDist
INVARIANT ThLinIsIso
CHECK_DEADLOCK FALSE
