\* C19: 2 workers, 2 keys, two crashes (thorough); one write step: empty or whole files only
CONSTANTS
    NKeys = 2
    W = 2
    L = 1
    Design = "temp"
    Policy = "trust"
    RenameAt = "closed"
    MaxCrash = 2
    Fifo = TRUE
    EmitOn = TRUE
INIT Init
NEXT Next
INVARIANT TypeOK
INVARIANT NoRaise
INVARIANT NoRecompute
INVARIANT FinalWhole
INVARIANT OneOwner
INVARIANT Emit
CHECK_DEADLOCK TRUE
