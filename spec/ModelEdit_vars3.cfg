\* all histories of depth 3 over the variable-only alphabet (declare / remove / remove keeping the
\* stoichiometries / update / clamp) from contents with reactions on two variables, one of them possibly dangling
CONSTANTS
    Depth = 3
    Seeds = {"dangle", "vv"}
    OpSet = "vars"
    EmitOn = TRUE
INIT Init
NEXT Next
INVARIANT StoichClosed
INVARIANT OneNameSpace
INVARIANT Emit
PROPERTY RejectedUnchanged
CHECK_DEADLOCK FALSE
