\* C14 seeded rich family (-simulate): up to 2 prefix calls out of 9, 1-3 steps with durations 1..4, four
\* parameter value pairs (repeats allowed), grids of up to 4 points from start-2 .. end+2
CONSTANTS
    Depth = 0
    EmitOn = TRUE
    Variant = "contract"
    MenuName = "c04"
    MaxPrefix = 2
    PrefixIdx = {1, 2, 3, 4, 5, 6, 7, 8, 9, 10, 11}
    MaxSteps = 3
    Durs = {1, 2, 3, 4}
    ParIdx = {1, 2, 3, 4, 5, 6, 7}
    MaxPts = 4
    EpsPts = TRUE
    ReadBefore = TRUE
    Repeat = TRUE
    Lead = 2
INIT PInit
NEXT PNext
INVARIANT CommitChecks
INVARIANT AxisIncreasing
INVARIANT SegChain
INVARIANT NowIsLast
INVARIANT PEmit
CHECK_DEADLOCK FALSE
