"""E02 (beyond the listed properties) -- comparing two models: model_diff / soft_eq, report.markdown, compare.*.

spec      : spec/ModelDiff.tla (EXTENDS ModelEdit: a pair = one seed content + two edit histories folded with Eff;
            pure operators Diff, SoftEq, NRC (report), SSTable / TCDesc (comparisons)), spec/ModelDiffOracle.tla
TLC (mc)  : laws over every pair with |h1| <= L1, |h2| <= L2 over a menu covering every component kind (SelfEmpty,
            TwoWayEmptyIffAgree, OneSided, Swapped, SoftEqLaws, SoftLibGap, SingleEditLaw, ReportLaws, CompareLaws);
            three implementation-shaped wrong instances (symmetric diff, surrogate differences dropped, one-way
            soft_eq) must be refuted
spec->code: every emitted (seed, h1, h2, predictions) is replayed: both real models are built with c03.apply_op
            (m2 = deepcopy(m1) + h2, or a second descendant of the seed), the library is asked and every answer is
            compared field by field with the specification's prediction
code->spec: a seeded random driver (c03.rand_op, larger universe) builds pairs, records the library's answers and
            TLC judges every record with the same operators
Not registered in MANIFEST.json (the property list is fixed); run with ./check E02.
"""

from __future__ import annotations

import copy
import json
import math
import random
import re

from .. import fnlib
from ..core import Ctx, Report, pmap
from ..modelkit import build_model, close, norm_content
from ..tlc import MachineryError, fn_to_dict
from . import c03

MISSING = ["missing_parameters", "missing_variables", "missing_derived", "missing_reactions", "missing_readouts",
           "missing_surrogates"]
DIFFERENT = ["different_parameters", "different_variables", "different_derived", "different_readouts",
             "different_reactions", "different_surrogates"]
TIME_POINTS = [0.0, 0.125, 0.5, 1.0]


# ---------------------------------------------------------------------------------------------
# normal forms: the specification's JSON and the library's objects in one shape
# ---------------------------------------------------------------------------------------------
_FN_NAMES: dict = {}


def fn_name(fn) -> str:
    if not _FN_NAMES:
        for k, v in fnlib.FNS.items():
            _FN_NAMES.setdefault(id(v), k)
    return _FN_NAMES.get(id(fn), f"?{getattr(fn, '__name__', fn)}")


def _num(v):
    f = float(v)
    return int(f) if f.is_integer() and abs(f) < 2**31 else f


def val_json(v) -> dict:
    from mxlpy.types import InitialAssignment

    if isinstance(v, InitialAssignment):
        return {"k": "ia", "fn": fn_name(v.fn), "args": list(v.args)}
    if isinstance(v, (int, float)) and not isinstance(v, bool):
        return {"k": "num", "v": _num(v)}
    return {"k": "object", "type": type(v).__name__}   # not a value: e.g. the Parameter object itself


def coef_json(x) -> dict:
    from mxlpy import fns
    from mxlpy.types import Derived

    if isinstance(x, Derived):
        return {"k": "calc", "fn": "id" if x.fn is fns.constant else fn_name(x.fn), "args": list(x.args)}
    if isinstance(x, (int, float)) and not isinstance(x, bool):
        return {"k": "num", "v": _num(x)}
    return {"k": "object", "type": type(x).__name__}


def _st_json(st, nested: bool) -> dict:
    if nested:
        return {str(o): {str(v): coef_json(co) for v, co in row.items()} for o, row in dict(st).items()}
    return {str(v): coef_json(co) for v, co in dict(st).items()}


def diff_json(d) -> dict:
    """mxlpy ModelDiff -> the specification's record shape."""
    out = {k: sorted(getattr(d, k)) for k in MISSING}
    for k in ("different_parameters", "different_variables"):
        out[k] = {n: [val_json(x) for x in pair] if isinstance(pair, tuple) and len(pair) == 2
                  else [{"k": "object", "type": type(pair).__name__}] for n, pair in getattr(d, k).items()}
    for k in ("different_derived", "different_readouts"):
        out[k] = {n: {"args1": list(x.args1), "args2": list(x.args2)} for n, x in getattr(d, k).items()}
    for k, nested in (("different_reactions", False), ("different_surrogates", True)):
        out[k] = {n: {"args1": list(x.args1), "args2": list(x.args2),
                      "st1": _st_json(x.stoichiometry1, nested), "st2": _st_json(x.stoichiometry2, nested)}
                  for n, x in getattr(d, k).items()}
    return out


def _spec_coef(co) -> dict:
    return {"k": co["k"], "v": co["v"]} if co["k"] == "num" else {"k": "calc", "fn": co["fn"], "args": list(co["args"])}


def _spec_val(v) -> dict:
    return {"k": "num", "v": v["v"]} if v["k"] == "num" else {"k": "ia", "fn": v["fn"], "args": list(v["args"])}


def spec_diff(d: dict) -> dict:
    """The specification's Diff record as printed by TLC -> the same normal form."""
    out = {k: sorted(d[k]) for k in MISSING}
    for k in ("different_parameters", "different_variables"):
        out[k] = {n: [_spec_val(x) for x in pair] for n, pair in fn_to_dict(d[k]).items()}
    for k in ("different_derived", "different_readouts"):
        out[k] = {n: {"args1": list(x["args1"]), "args2": list(x["args2"])} for n, x in fn_to_dict(d[k]).items()}
    out["different_reactions"] = {
        n: {"args1": list(x["args1"]), "args2": list(x["args2"]),
            "st1": {v: _spec_coef(co) for v, co in fn_to_dict(x["st1"]).items()},
            "st2": {v: _spec_coef(co) for v, co in fn_to_dict(x["st2"]).items()}}
        for n, x in fn_to_dict(d["different_reactions"]).items()}
    out["different_surrogates"] = {
        n: {"args1": list(x["args1"]), "args2": list(x["args2"]),
            "st1": {o: {v: _spec_coef(co) for v, co in fn_to_dict(row).items()} for o, row in fn_to_dict(x["st1"]).items()},
            "st2": {o: {v: _spec_coef(co) for v, co in fn_to_dict(row).items()} for o, row in fn_to_dict(x["st2"]).items()}}
        for n, x in fn_to_dict(d["different_surrogates"]).items()}
    return out


def content_ids(c: dict) -> dict:
    c = norm_content(copy.deepcopy(c))
    ids = {}
    for n in c["pars"]:
        ids[n] = "parameter"
    for n in c["vars"]:
        ids[n] = "variable"
    for n in c["der"]:
        ids[n] = "derived"
    for n in c["rxn"]:
        ids[n] = "reaction"
    for n in c["ro"]:
        ids[n] = "readout"
    for n in c["data"]:
        ids[n] = "data"
    for n, s in c["sur"].items():
        ids[n] = "surrogate"
        for o in s["outs"]:
            ids[o] = "surrogate"
    return ids


# ---------------------------------------------------------------------------------------------
# building the pair, asking the library
# ---------------------------------------------------------------------------------------------
def build_pair(start: dict, h1: list, h2: list, mode: str):
    c0 = norm_content(copy.deepcopy(start))
    m1, _ = build_model(c0)
    for op in h1:
        c03.apply_op(m1, op)
    if mode == "chain":
        m2 = copy.deepcopy(m1)          # the usual workflow: m2 is an edited copy of m1
    else:
        m2, _ = build_model(norm_content(copy.deepcopy(start)))
    for op in h2:
        c03.apply_op(m2, op)
    return m1, m2


def _ask(fn):
    try:
        return fn(), None
    except MachineryError:
        raise
    except Exception as e:  # noqa: BLE001
        return None, f"{type(e).__name__}: {str(e)[:160]}"


_ROW = re.compile(r"^\| <span style='color:\s*(green|orange|red)'>(.*?)</?span> \|")
_STAT = re.compile(r"^\| (variables|parameters|derived parameters|derived variables|reactions|surrogates) \| (\d+) \| (\d+)\|$")
_COLOUR = {"green": "new", "orange": "changed", "red": "removed"}
_SECTIONS = {"## Variables": "variables", "## Parameters": "parameters", "## Derived": "derived",
             "## Reactions": "reactions", "## Numerical differences of dependent values": "dependent",
             "## Numerical differences of right hand side values": "rhs"}


def parse_report(text: str) -> dict:
    """Which names the report lists where (colours = new / changed / removed), and the component-count table."""
    out = {k: {"new": set(), "removed": set(), "changed": set()} for k in ("variables", "parameters", "derived", "reactions")}
    out["dependent"] = set()
    out["rhs"] = set()
    out["stats1"] = {}
    out["stats2"] = {}
    sec = None
    for ln in text.splitlines():
        s = ln.strip()
        if s.startswith("## "):
            sec = _SECTIONS.get(s)
            continue
        m = _STAT.match(s)
        if m:
            key = m.group(1).replace(" ", "_")
            out["stats1"][key] = int(m.group(2))
            out["stats2"][key] = int(m.group(3))
            continue
        m = _ROW.match(s)
        if m and sec:
            if sec in ("dependent", "rhs"):
                out[sec].add(m.group(2))
            else:
                out[sec][_COLOUR[m.group(1)]].add(m.group(2))
    return out


class _Fig:
    def suptitle(self, *_a, **_k):
        return None


class _PlotStub:
    """Stands in for mxlpy.plot inside mxlpy.compare: the tables handed to the plotting routines are kept."""

    def __init__(self):
        self.tables = []

    def line_autogrouped(self, df, **_k):
        self.tables.append(df)
        return _Fig(), []

    def bars_autogrouped(self, s, **_k):
        self.tables.append(s)
        return _Fig(), []

    def grid_labels(self, *_a, **_k):
        return None


def _rat(x):
    """spec rational -> ('num', float) | ('absent',) | ('undef',) | ('skip',)"""
    if x["d"] > 0:
        return ("num", x["n"] / x["d"])
    return {0: ("undef",), 1: ("skip",), 2: ("absent",)}[x["n"]]


def _near(e: float, o: float, rel=1e-5, ab=1e-6) -> bool:
    if o != o:
        return False
    return abs(e - o) <= ab + rel * max(abs(e), abs(o))


def _cmp_ss_table(name: str, exp: dict, df) -> dict | None:
    import numpy as np

    exp = fn_to_dict(exp)
    if list(df.columns) != ["m1", "m2", "diff", "rel_diff"]:
        return {"what": f"steady_states.{name} columns", "observed": list(df.columns)}
    if set(df.index) != set(exp) or len(df.index) != len(exp):
        return {"what": f"steady_states.{name} rows", "expected": sorted(exp), "observed": [str(i) for i in df.index]}
    for n, row in exp.items():
        for col in ("m1", "m2", "diff", "rel_diff"):
            e = _rat(row[col])
            o = float(df.loc[n, col])
            if e[0] == "absent":
                if not np.isnan(o):
                    return {"what": f"steady_states.{name}", "row": n, "column": col, "expected": "NaN (no such row in that model)",
                            "observed": o}
            elif e[0] == "num":
                # values are steady states reached by integration; rel_diff divides by m1, so its error scales with 1/m1
                tol = 1e-6 if col != "rel_diff" else 1e-6 / max(abs(_rat(row["m1"])[1]), 1e-3)
                if not _near(e[1], o, rel=1e-5, ab=tol):
                    return {"what": f"steady_states.{name}", "row": n, "column": col, "expected": e[1], "observed": o}
        # the table's own arithmetic: diff = m2 - m1, rel_diff = diff / m1 of the two models' own results
        a, b, d, r = (float(df.loc[n, k]) for k in ("m1", "m2", "diff", "rel_diff"))
        if not (np.isnan(a) or np.isnan(b)):
            if not close(d, b - a, 1e-9) and abs(d - (b - a)) > 1e-12:
                return {"what": f"steady_states.{name}: diff is not m2 - m1", "row": n, "m1": a, "m2": b, "diff": d}
            if abs(a) > 1e-3 and not _near((b - a) / a, r, rel=1e-9, ab=1e-12):
                return {"what": f"steady_states.{name}: rel_diff is not (m2 - m1) / m1", "row": n, "m1": a, "m2": b, "rel_diff": r}
    return None


def _tc_values(desc: dict, tps: list[float]) -> dict:
    """Closed form of a diagonal-affine content: y' = alpha + beta y per variable; dependent names p + q.y."""
    ys = {}
    for v, d in fn_to_dict(desc["vars"]).items():
        y0, al, be = d["y0"], d["alpha"], d["beta"]
        if be == 0:
            ys[v] = [y0 + al * t for t in tps]
        else:
            star = -al / be
            ys[v] = [star + (y0 - star) * math.exp(be * t) for t in tps]
    out = dict(ys)
    for n, d in fn_to_dict(desc["names"]).items():
        q = fn_to_dict(d["q"])
        out[n] = [d["p"] + sum(q[v] * ys[v][j] for v in ys) for j in range(len(tps))]
    return out


def _cmp_tc_frame(what: str, rows: list, vals: dict, df) -> dict | None:
    if set(df.columns) != set(rows) or len(df.columns) != len(rows):
        return {"what": f"{what} columns", "expected": sorted(rows), "observed": [str(x) for x in df.columns]}
    if [float(t) for t in df.index] != TIME_POINTS:
        return {"what": f"{what} time axis", "expected": TIME_POINTS, "observed": [float(t) for t in df.index]}
    for n in rows:
        for j, t in enumerate(TIME_POINTS):
            o = float(df[n].iloc[j])
            if not _near(vals[n][j], o, rel=1e-5, ab=1e-7):
                return {"what": what, "name": n, "time": t, "expected": vals[n][j], "observed": o}
    return None


def _cmp_rel_frame(what: str, rows: list, v1: dict, v2: dict, df) -> dict | None:
    """The table handed to the plot: m1's columns, (m2 - m1) / m1 per cell, 0 where that is NaN."""
    if [str(x) for x in df.columns] != [str(x) for x in rows["order"]]:
        return {"what": f"{what} columns", "expected": rows["order"], "observed": [str(x) for x in df.columns]}
    for n in rows["order"]:
        for j, t in enumerate(TIME_POINTS):
            a, b = v1[n][j], v2[n][j]
            o = float(df[n].iloc[j])
            if abs(a) < 1e-6:
                continue        # division by (nearly) zero: not judged
            e = (b - a) / a
            if not _near(e, o, rel=1e-4, ab=1e-6 / abs(a)):
                return {"what": what, "name": n, "time": t, "expected": e, "observed": o}
    return None


def replay_compare(p: dict, m1, m2) -> list[dict]:
    """compare.steady_states / compare.time_courses against SSTable / TCDesc."""
    import numpy as np
    import mxlpy.compare as cmp_mod

    bad: list[dict] = []
    cmpx = p["pred"]["cmp"]
    if cmpx["ss"]["k"] == "ok":
        ssc, exc = _ask(lambda: cmp_mod.steady_states(copy.deepcopy(m1), copy.deepcopy(m2)))
        if exc:
            bad.append({"part": "steady_states", "what": "steady_states raised", "exception": exc})
        else:
            for name in ("variables", "fluxes", "all"):
                df, exc = _ask(lambda name=name: getattr(ssc, name))
                b = {"what": f"steady_states.{name} raised", "exception": exc} if exc else _cmp_ss_table(name, cmpx["ss"][name], df)
                if b:
                    bad.append({"part": "steady_states", **b})
                    break
    if cmpx["tc"]["k"] == "ok":
        tcc, exc = _ask(lambda: cmp_mod.time_courses(copy.deepcopy(m1), copy.deepcopy(m2), np.array(TIME_POINTS)))
        if exc:
            bad.append({"part": "time_courses", "what": "time_courses raised", "exception": exc})
            return bad
        d1, d2 = cmpx["tc"]["m1"], cmpx["tc"]["m2"]
        v1, v2 = _tc_values(d1, TIME_POINTS), _tc_values(d2, TIME_POINTS)
        for tag, res, d, v in (("res1", tcc.res1, d1, v1), ("res2", tcc.res2, d2, v2)):
            for kind, rows in (("variables", d["varrows"]), ("fluxes", d["fluxrows"])):
                df, exc = _ask(lambda res=res, kind=kind: getattr(res, kind))
                b = {"what": f"time_courses.{tag}.{kind} raised", "exception": exc} if exc else \
                    _cmp_tc_frame(f"time_courses.{tag}.{kind}", list(rows), v, df)
                if b:
                    bad.append({"part": "time_courses", **b})
                    return bad
        # the relative-difference tables (what the plots are drawn from), plotting itself stubbed out
        stub = _PlotStub()
        real = cmp_mod.plot
        cmp_mod.plot = stub
        try:
            for flag, meth, kind in (("relvars", "plot_variables_relative_difference", "variables"),
                                     ("relfluxes", "plot_fluxes_relative_difference", "fluxes")):
                if not cmpx["tc"][flag]:
                    continue        # m2 lacks one of m1's columns: nothing is promised
                stub.tables.clear()
                _r, exc = _ask(getattr(tcc, meth))
                if exc:
                    bad.append({"part": "time_courses", "what": f"{meth} raised", "exception": exc})
                    break
                order = [str(x) for x in getattr(tcc.res1, kind).columns]
                b = _cmp_rel_frame(f"time_courses relative difference of {kind}", {"order": order}, v1, v2, stub.tables[0])
                if b:
                    bad.append({"part": "time_courses", **b})
                    break
        finally:
            cmp_mod.plot = real
    return bad


def _sets(x: dict) -> dict:
    return {k: sorted(x[k]) for k in ("new", "removed", "changed")}


def replay_pair(p: dict) -> list[dict]:
    """Every disagreement between the library's answers on the pair and the specification's predictions."""
    from mxlpy import report as report_mod
    from mxlpy.experimental.diff import model_diff, soft_eq

    pred = p["pred"]
    m1, m2 = build_pair(p["start"], p["h1"], p["h2"], p["mode"])
    for tag, m, c in (("m1", m1, pred["c1"]), ("m2", m2, pred["c2"])):
        if dict(m.ids) != content_ids(c):
            return [{"part": "content", "what": f"{tag} built by replaying the history is not the content ModelEdit predicts",
                     "expected": content_ids(c), "observed": dict(m.ids)}]
    before = (c03.observe(m1, False), c03.observe(m2, False))
    bad: list[dict] = []
    for tag, a, b in (("d12", m1, m2), ("d21", m2, m1)):
        d, exc = _ask(lambda a=a, b=b: model_diff(a, b))
        if exc:
            bad.append({"part": tag, "what": "model_diff raised", "exception": exc})
            continue
        obs, exp = diff_json(d), spec_diff(pred[tag])
        for k in MISSING + DIFFERENT:
            if obs[k] != exp[k]:
                bad.append({"part": tag, "what": k, "expected": exp[k], "observed": obs[k]})
                break
    for tag, a, b in (("s12", m1, m2), ("s21", m2, m1)):
        s, exc = _ask(lambda a=a, b=b: soft_eq(a, b))
        if exc:
            bad.append({"part": tag, "what": "soft_eq raised", "exception": exc})
        elif bool(s) != pred[tag]:
            bad.append({"part": tag, "what": "soft_eq", "expected": pred[tag], "observed": bool(s)})
    # _new_removed_changed on the raw containers
    for kind, getter in (("derived", "get_raw_derived"), ("reactions", "get_raw_reactions")):
        r, exc = _ask(lambda getter=getter: report_mod._new_removed_changed(getattr(m1, getter)(), getattr(m2, getter)()))
        if exc:
            bad.append({"part": "nrcs", "what": f"_new_removed_changed({kind}) raised", "exception": exc})
            continue
        obs = {"new": sorted(r[0]), "removed": sorted(r[1]), "changed": sorted(r[2])}
        exp = _sets(pred["nrcs"][kind])
        if obs != exp:
            bad.append({"part": "nrcs", "what": f"_new_removed_changed on {kind}", "expected": exp, "observed": obs})
    if pred["report"]["k"] == "ok":
        nrc = pred["report"]["nrc"]
        txt, exc = _ask(lambda: str(report_mod.markdown(m1, m2)))
        if exc:
            bad.append({"part": "report", "what": "markdown raised", "exception": exc})
        else:
            rp = parse_report(txt)
            for sec in ("variables", "parameters", "derived", "reactions"):
                obs = _sets(rp[sec])
                exp = _sets(nrc[sec])
                if obs != exp:
                    bad.append({"part": "report", "what": f"section {sec}", "expected": exp, "observed": obs,
                                "plain_reading": _sets(nrc["parameters_plain"]) if sec == "parameters" else None})
            for which in ("stats1", "stats2"):
                if rp[which] != dict(nrc[which]):
                    bad.append({"part": "report", "what": f"component counts ({which})", "expected": dict(nrc[which]),
                                "observed": rp[which], "nplain": nrc["nplain1" if which == "stats1" else "nplain2"]})
            for sec in ("dependent", "rhs"):
                frag = set(nrc[sec]["fragile"])
                exp = set(nrc[sec]["listed"])
                if (rp[sec] - frag) != (exp - frag):
                    bad.append({"part": "report", "what": f"numerical differences ({sec})", "expected": sorted(exp),
                                "observed": sorted(rp[sec]), "fragile": sorted(frag)})
    bad += replay_compare(p, m1, m2)
    if (c03.observe(m1, False), c03.observe(m2, False)) != before:
        bad.append({"part": "purity", "what": "a comparison changed one of the two models"})
    return bad


def _replay_safe(p):
    try:
        return replay_pair(p)
    except MachineryError:
        raise
    except Exception as e:  # noqa: BLE001
        import traceback

        return [{"part": "harness", "what": "harness exception", "exception": f"{type(e).__name__}: {e}",
                 "trace": traceback.format_exc()[-900:]}]


# ---------------------------------------------------------------------------------------------
# finding keys from the shape of the failing pair
# ---------------------------------------------------------------------------------------------
def _has_ia_parameter(c: dict) -> bool:
    return any(v["k"] == "ia" for v in fn_to_dict(c["pars"]).values())


def classify(p: dict, bad: dict) -> str | None:
    pred = p["pred"]
    part, what = bad.get("part"), bad.get("what", "")
    if part in ("s12", "s21") and what == "soft_eq":
        lib = pred[part + "lib"]
        if bad["observed"] == lib and bad["expected"] != lib:
            # the implemented reading (SoftEqLib, SoftLibGap): stricter through functions, blind to data / outputs
            return "soft-eq-compares-functions" if bad["expected"] else "soft-eq-blind-to-data-and-outputs"
    if part == "report" and (_has_ia_parameter(pred["c1"]) or _has_ia_parameter(pred["c2"])):
        nrc = pred["report"]["nrc"]
        if what == "section parameters" and bad["observed"] == _sets(nrc["parameters_plain"]):
            return "report-ia-parameters"
        if what.startswith("component counts"):
            exp = dict(bad["expected"])
            exp["parameters"] = bad["nplain"]
            if bad["observed"] == exp:
                return "report-ia-parameters"
    return None


# ---------------------------------------------------------------------------------------------
# code -> spec: random driver
# ---------------------------------------------------------------------------------------------
def record_pair(args) -> dict | None:
    from mxlpy import report as report_mod
    from mxlpy.experimental.diff import model_diff, soft_eq

    seed, tid, starts = args
    rnd = random.Random(f"{seed}/e02/{tid}")
    name = rnd.choice(sorted(starts))
    start = starts[name]
    mode = rnd.choice(["chain", "chain", "fork"])
    m1, _ = build_model(norm_content(copy.deepcopy(start)))
    h1 = []
    for _ in range(rnd.randint(0, 3)):
        op = c03.rand_op(rnd, m1)
        c03.apply_op(m1, op)
        h1.append(op)
    m2 = copy.deepcopy(m1) if mode == "chain" else build_model(norm_content(copy.deepcopy(start)))[0]
    h2 = []
    for _ in range(rnd.randint(1, 4)):
        op = c03.rand_op(rnd, m2)
        c03.apply_op(m2, op)
        h2.append(op)
    rec = {"id": tid, "seed": name, "start": norm_content(copy.deepcopy(start)), "mode": mode, "h1": h1, "h2": h2,
           "ids1": dict(m1.ids), "ids2": dict(m2.ids)}
    try:
        rec["d12"] = diff_json(model_diff(m1, m2))
        rec["d21"] = diff_json(model_diff(m2, m1))
        rec["s12"] = bool(soft_eq(m1, m2))
        rec["s21"] = bool(soft_eq(m2, m1))
        rec["nrcs"] = {}
        for kind, getter in (("derived", "get_raw_derived"), ("reactions", "get_raw_reactions")):
            r = report_mod._new_removed_changed(getattr(m1, getter)(), getattr(m2, getter)())
            rec["nrcs"][kind] = {"new": sorted(r[0]), "removed": sorted(r[1]), "changed": sorted(r[2])}
    except MachineryError:
        raise
    except Exception as e:  # noqa: BLE001
        rec["exception"] = f"{type(e).__name__}: {str(e)[:160]}"
        return rec
    blob = json.dumps(rec)
    if '"object"' in blob or '"?' in blob or any(isinstance(x, float) for x in _walk(rec)):
        rec["unrepresentable"] = True     # an answer outside the documented value shapes: judged in Python (rejected)
    return rec


def _walk(x):
    if isinstance(x, dict):
        for v in x.values():
            yield from _walk(v)
    elif isinstance(x, list):
        for v in x:
            yield from _walk(v)
    else:
        yield x


def tamper_record(rec: dict, rnd: random.Random) -> dict:
    """Binding self-test: change one recorded answer; TLC must reject the result."""
    t = copy.deepcopy(rec)
    t["id"] = rec["id"] + 1_000_000
    choice = rnd.choice(["soft", "missing", "drop", "nrcs"])
    if choice == "drop":
        keys = [(d, k) for d in ("d12", "d21") for k in DIFFERENT if t[d][k]]
        if keys:
            d, k = rnd.choice(keys)
            t[d][k].pop(sorted(t[d][k])[0])
            return t
        choice = "missing"
    if choice == "soft":
        t["s12"] = not t["s12"]
        t["s21"] = not t["s21"]
    elif choice == "missing":
        t["d12"]["missing_reactions"] = sorted(set(t["d12"]["missing_reactions"]) | {"ghost"})
    else:
        t["nrcs"]["derived"]["new"] = sorted(set(t["nrcs"]["derived"]["new"]) | {"ghost"})
    return t


def classify_record(rec: dict, verdict: str) -> str | None:
    if verdict in ("s12:lib", "s21:lib"):
        return "soft-eq-compares-functions" if not rec[verdict[:3]] else "soft-eq-blind-to-data-and-outputs"
    return None


# ---------------------------------------------------------------------------------------------
def _tamper_prediction(p: dict, which: str) -> dict:
    t = copy.deepcopy(p)
    pred = t["pred"]
    if which == "missing":
        pred["d12"]["missing_parameters"] = sorted(set(pred["d12"]["missing_parameters"]) | {"ghost"})
    elif which == "soft":
        pred["s12"] = not pred["s12"]
        pred["s12lib"] = pred["s12"]
    elif which == "report":
        pred["report"]["nrc"]["reactions"]["changed"] = sorted(set(pred["report"]["nrc"]["reactions"]["changed"]) | {"ghost"})
    elif which == "ss":
        row = sorted(fn_to_dict(pred["cmp"]["ss"]["variables"]))[0]
        pred["cmp"]["ss"]["variables"][row]["rel_diff"] = {"n": 7, "d": 3}
    elif which == "tc":
        v = sorted(fn_to_dict(pred["cmp"]["tc"]["m2"]["vars"]))[0]
        pred["cmp"]["tc"]["m2"]["vars"][v]["y0"] += 1
    return t


def _key_of(p: dict) -> str:
    return json.dumps([p["seed"], p["mode"], p["h1"], p["h2"]], sort_keys=True)


def run(ctx: Ctx) -> int:
    rep = Report(ctx)
    rep.rule = ("spec->code: one case = (seed content, h1, h2, chain|fork) with the library asked for model_diff both ways, "
                "soft_eq both ways, _new_removed_changed, markdown (when both contents can be evaluated) and "
                "steady_states / time_courses (diagonal-affine contents); non-trivial = the two contents differ; "
                "code->spec: one case = one recorded random pair judged by TLC; distinct by (seed, mode, h1, h2)")
    rep.assumptions = [
        "functions from FnLib (same name = same function object, so identity comparison of functions is name comparison)",
        "units / sources of components are not modelled; data sets are represented by the sum of their entries",
        "report: only which names are listed where (colour = new / changed / removed), the count table and the names "
        "under 'numerical differences' (pairs sitting exactly on the 1% threshold excluded as fragile)",
        "comparisons: contents whose derivatives the specification verified to be diagonal-affine on {0,1,2}^n x {0,1} "
        "(functions of the lin seeds are polynomials of degree <= 2); exponentials evaluated by the harness",
        "steady states by integration: 1e-5 relative + 1e-6 absolute; time courses 1e-5 relative + 1e-7 absolute",
    ]
    q = ctx.quick
    # ---- TLC: model checking, wrong instances, generation ---------------------------------------
    # quick tier: the nine runs are independent; two at a time with 4 workers each (start-up and the single-threaded
    # phases of one overlap the search of the other) -- never more than 8 TLC workers in total
    teeth = (("ModelDiff_symmetric.cfg", "OneSided"), ("ModelDiff_nosur.cfg", "TwoWayEmptyIffAgree"),
             ("ModelDiff_softoneway.cfg", "SoftEqLaws"))
    sims = [("ModelDiff_sim11.cfg", 60 if q else 700), ("ModelDiff_sim12.cfg", 40 if q else 500),
            ("ModelDiff_simlin.cfg", 40 if q else 500)]
    w = 4 if q else 8
    jobs = [("mc", lambda: ctx.tlc("ModelDiff.tla", "ModelDiff_quick.cfg" if q else "ModelDiff_thorough.cfg", workers=w)),
            ("heavy", lambda: ctx.tlc("ModelDiff.tla", "ModelDiff_heavy.cfg" if q else "ModelDiff_heavy_thorough.cfg", workers=w))]
    jobs += [(cfg, lambda cfg=cfg: ctx.tlc("ModelDiff.tla", cfg, workers=min(w, 4), expect_violation=True)) for cfg, _ in teeth]
    jobs += [("gen1", lambda: ctx.tlc("ModelDiff.tla", "ModelDiff_gen1.cfg", workers=w))]
    jobs += [(cfg, lambda cfg=cfg, num=num: ctx.tlc("ModelDiff.tla", cfg, simulate=f"num={num}", depth=12, seed=ctx.seed, workers=w))
             for cfg, num in sims]
    if q:
        from concurrent.futures import ThreadPoolExecutor

        with ThreadPoolExecutor(2) as ex:
            futs = {name: ex.submit(fn) for name, fn in jobs}
            out = {name: f.result() for name, f in futs.items()}
    else:
        out = {name: fn() for name, fn in jobs}
    res = out["mc"]
    rep.add_tlc(res, "laws of Diff / SoftEq over every pair within the bounds (SelfEmpty, TwoWayEmptyIffAgree, OneSided, "
                     "Swapped, SoftEqLaws, SoftLibGap, SingleEditLaw)")
    if res.distinct < (15000 if q else 200000) or res.depth < 4:      # vacuity guard (-coverage is prohibitively slow here)
        raise MachineryError(f"vacuity: only {res.distinct} states, depth {res.depth}")
    rep.add_tlc(out["heavy"], "ReportLaws / CompareLaws / ArgsAtAgrees (whole-model evaluation) on the full and linear seeds")
    for cfg, inv in teeth:
        res = out[cfg]
        if res.violated != inv:
            raise MachineryError(f"{cfg}: TLC should refute the wrong instance through {inv}, got violated={res.violated}")
        rep.add_tlc(res, f"teeth: wrong implementation-shaped instance refuted ({inv} violated)")
    rep.notes["wrong_instances_refuted"] = ["symmetric", "nosur", "softoneway"]
    # ---- spec -> code --------------------------------------------------------------------------
    pairs = []
    res = out["gen1"]
    rep.add_tlc(res, "gen: every single edit of the menu on every seed, with predictions")
    pairs += res.payloads
    n_single = len(pairs)
    starts = {p["seed"]: p["start"] for p in pairs}
    for cfg, _num in sims:
        res = out[cfg]
        rep.add_tlc(res, f"gen: seeded -simulate pairs ({cfg})")
        pairs += res.payloads
    seen = set()
    uniq = []
    for p in pairs:
        k = _key_of(p)
        if k not in seen:
            seen.add(k)
            uniq.append(p)
    pairs = uniq
    if n_single < 300 or len(pairs) - n_single < (150 if q else 2000):
        raise MachineryError(f"too few pairs: single-edit {n_single}, simulated {len(pairs) - n_single}")
    rep.notes["pairs_single_edit"] = n_single
    rep.notes["pairs_simulated"] = len(pairs) - n_single
    results = pmap(_replay_safe, pairs, chunk=24)
    n_report = n_ss = n_tc = 0
    for p, bads in zip(pairs, results):
        rep.replayed += 1
        rep.evaluations += 1
        if p["pred"]["c1"] != p["pred"]["c2"]:
            rep.distinct.add(_key_of(p))
        n_report += p["pred"]["report"]["k"] == "ok"
        n_ss += p["pred"]["cmp"]["ss"]["k"] == "ok"
        n_tc += p["pred"]["cmp"]["tc"]["k"] == "ok"
        for bad in bads:
            scen = {"pair": {k: p[k] for k in ("seed", "mode", "start", "h1", "h2")}, "pred": p["pred"]}
            rep.mismatch(scen, bad, classify(p, bad))
    rep.notes["pairs_with_report"] = n_report
    rep.notes["pairs_with_steady_state_tables"] = n_ss
    rep.notes["pairs_with_time_courses"] = n_tc
    if min(n_report, n_ss, n_tc) < (40 if q else 300):
        raise MachineryError(f"vacuity: report {n_report}, steady-state {n_ss}, time-course {n_tc} pairs")
    for p in pairs[:: max(1, len(pairs) // 4)][:4]:
        rep.sample({"seed": p["seed"], "mode": p["mode"], "h1": p["h1"], "h2": p["h2"],
                    "d12": {k: v for k, v in spec_diff(p["pred"]["d12"]).items() if v}, "soft_eq": p["pred"]["s12"]})
    # binding self-test (spec -> code): a tampered prediction must be noticed
    if not rep.violations:
        def first(pred):
            for p in pairs:
                if pred(p) and not _replay_safe(p):
                    return p
            raise MachineryError("binding self-test: no conforming pair of the required shape")

        any_p = first(lambda p: True)
        rp = first(lambda p: p["pred"]["report"]["k"] == "ok")
        sp = first(lambda p: p["pred"]["cmp"]["ss"]["k"] == "ok" and p["pred"]["cmp"]["tc"]["k"] == "ok")
        tampered = [(_tamper_prediction(any_p, "missing"), "d12"), (_tamper_prediction(any_p, "soft"), "s12"),
                    (_tamper_prediction(rp, "report"), "report"), (_tamper_prediction(sp, "ss"), "steady_states"),
                    (_tamper_prediction(sp, "tc"), "time_courses")]
        for t, part in tampered:
            if not any(b.get("part") == part for b in _replay_safe(t)):
                raise MachineryError(f"binding self-test failed: tampered prediction ({part}) was not noticed")
        rep.notes["tampered_predictions_noticed"] = len(tampered)
    # ---- code -> spec --------------------------------------------------------------------------
    nrec = 400 if q else 6000
    recs = [r for r in pmap(record_pair, [(ctx.seed, j, starts) for j in range(nrec)], chunk=32) if r]
    judged = []
    for r in recs:
        rep.evaluations += 1
        if "exception" in r or r.get("unrepresentable"):
            rep.mismatch({"record": r}, {"part": "oracle", "what": "the library raised or answered outside the documented "
                          "value shapes", "exception": r.get("exception")}, None)
        else:
            judged.append(r)
    rnd = random.Random(ctx.seed)
    tampered_recs = [tamper_record(r, rnd) for r in judged[:60]]
    verdicts = {}
    allr = judged + tampered_recs
    for lo in range(0, len(allr), 2000):
        cf = ctx.work / f"records_{lo}.json"
        cf.write_text(json.dumps(allr[lo:lo + 2000]))
        res = ctx.tlc("ModelDiffOracle.tla", "ModelDiffOracle.cfg", tag=f"oracle{lo}", env={"CASE_FILE": str(cf)}, workers=1)
        rep.add_tlc(res, "oracle: recorded answers of the library judged with Diff / SoftEq / NRCStruct")
        for v in res.payloads:
            verdicts[v["id"]] = v["verdict"]
    unjudged = 0
    for r in judged:
        v = verdicts.get(r["id"])
        if v is None:
            raise MachineryError(f"no verdict for record {r['id']}")
        if v == "unjudged":
            unjudged += 1
        elif v == "accept":
            rep.traces += 1
            rep.distinct.add(("record", r["id"]))
        else:
            rep.mismatch({"record": r}, {"part": "oracle", "what": "recorded answer rejected by TLC", "field": v},
                         classify_record(r, v))
    # binding self-test (code -> spec): only tampered copies of records TLC accepted say anything
    of_accepted = [t for t in tampered_recs if verdicts.get(t["id"] - 1_000_000) == "accept"]
    rej = sum(1 for t in of_accepted if verdicts.get(t["id"]) not in ("accept", "unjudged", None))
    if rej != len(of_accepted):
        raise MachineryError(f"binding self-test failed: {len(of_accepted) - rej} tampered records accepted by TLC")
    if rej < 10 and not rep.violations:
        raise MachineryError(f"binding self-test: only {rej} tampered records could be tried")
    rep.notes["tampered_records_rejected"] = rej
    rep.notes["records"] = len(recs)
    rep.notes["records_unjudged"] = unjudged
    if rep.traces < (250 if q else 4000) and not rep.violations:
        raise MachineryError(f"too few recorded pairs accepted: {rep.traces}")
    return rep.finish()


def replay(ctx: Ctx, doc: dict) -> int:
    scn = doc["scenario"]
    if "pair" in scn:
        p = {**scn["pair"], "pred": scn["pred"]}
        bads = _replay_safe(p)
        print(json.dumps({"h1": p["h1"], "h2": p["h2"], "mode": p["mode"], "disagreements": bads}, indent=1, default=str))
        from ..core import load_findings

        known = {f["key"] for f in load_findings() if f["property"] == "E02" and f["status"] == "known"}
        for b in bads:
            print("finding key:", classify(p, b))
        if any(classify(p, b) not in known for b in bads):
            print("VIOLATION property=E02 replay=(given)")
            return 1
        print("conforms")
        return 0
    r = scn["record"]
    m1, m2 = build_pair(r["start"], r["h1"], r["h2"], r["mode"])
    from mxlpy.experimental.diff import model_diff, soft_eq

    print(json.dumps({"h1": r["h1"], "h2": r["h2"], "mode": r["mode"], "recorded": {k: r.get(k) for k in ("d12", "d21", "s12", "s21")},
                      "now": {"d12": diff_json(model_diff(m1, m2)), "d21": diff_json(model_diff(m2, m1)),
                              "s12": bool(soft_eq(m1, m2)), "s21": bool(soft_eq(m2, m1))},
                      "refused_field": doc["detail"].get("field")}, indent=1, default=str))
    print("(re-run ./check E02 to have TLC judge freshly recorded answers)")
    return 0
