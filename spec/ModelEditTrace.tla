------------------------- MODULE ModelEditTrace -------------------------
(***************************************************************************)
(* code -> spec for C03: edit histories recorded from the real Model       *)
(* (random driver over a larger name universe than the generator's) are    *)
(* validated against the SAME effect operator Eff and observation Obs as   *)
(* ModelEdit.  One TLC run validates a whole batch: tid selects the trace, *)
(* l is the next event; every reached (tid, l) is printed and the harness  *)
(* accepts a trace iff l = Len(events) + 1 was reached.                    *)
(***************************************************************************)
EXTENDS ModelEdit, IOUtils

Traces == JsonDeserialize(IOEnv.TRACE_FILE)

VARIABLES tid, l

tvars == <<c, hist, seed, fin, tid, l>>

ToSet(s) == {s[j] : j \in DOMAIN s}

\* JSON has no sets: the recorder writes name sets as arrays
ObsMatches(exp, obs) ==
    /\ obs.ids = exp.ids
    /\ obs.vars = exp.vars
    /\ ToSet(obs.pars) = exp.pars /\ ToSet(obs.der) = exp.der /\ ToSet(obs.rxn) = exp.rxn
    /\ ToSet(obs.ro) = exp.ro /\ ToSet(obs.sur) = exp.sur /\ ToSet(obs.data) = exp.data
    /\ \/ exp.q.kind = {"error"}                      \* nothing is promised about a content that cannot be evaluated
       \/ /\ obs.q.kind \in exp.q.kind
          /\ obs.q.kind = "ok" =>
                /\ obs.q.args = exp.q.args
                /\ obs.q.rhs = exp.q.rhs
                /\ obs.q.stoich = exp.q.stoich
                /\ obs.q.init = exp.q.init
                /\ obs.q.parvals = exp.q.parvals
                /\ ToSet(obs.q.static) = exp.q.static

TInit ==
    /\ tid \in 1..Len(Traces)
    /\ l = 1
    /\ c = Traces[tid].start
    /\ hist = <<>>
    /\ seed = "trace"
    /\ fin = FALSE

TStep ==
    /\ l <= Len(Traces[tid].events)
    /\ LET e == Traces[tid].events[l]
           r == Eff(e.op, c)
       IN IF e.op.op # "plural" /\ Unjudgeable(e.op, c)
          THEN c' = c /\ l' = Len(Traces[tid].events) + 1       \* the rest of this trace is not judged
          ELSE /\ r.ok = e.ok
               /\ ObsMatches(Obs(r.c), e.obs)
               /\ c' = r.c
               /\ l' = l + 1
    /\ UNCHANGED <<hist, seed, fin, tid>>

\* which clause refuses the next event ("" = it matches, or the trace is finished)
Why ==
    IF l > Len(Traces[tid].events) THEN ""
    ELSE LET e == Traces[tid].events[l]
             r == Eff(e.op, c)
             exp == Obs(r.c)
         IN IF e.op.op # "plural" /\ Unjudgeable(e.op, c) THEN ""
            ELSE IF r.ok # e.ok THEN "accepted"
            ELSE IF e.obs.ids # exp.ids THEN "ids"
            ELSE IF ~ObsMatches([exp EXCEPT !.q = [kind |-> {"error"}]], e.obs) THEN "containers"
            ELSE IF ~ObsMatches(exp, e.obs) THEN "query"
            ELSE ""

Progress == PrintT("@J@" \o ToJson([id |-> Traces[tid].id, l |-> l, why |-> Why]) \o "@E@")
=============================================================================
