\* E02 gen: seeded random pairs of the linear seeds (comparisons), |h1| = 1, |h2| = 1
CONSTANTS
    Depth = 0
    Seeds = {"lin1", "lin2"}
    OpSet = "all"
    EmitOn = TRUE
    Variant = "doc"
    L1 = 1
    L2 = 1
    Modes = {"chain", "fork"}
    Exact = TRUE
    Heavy = {}
INIT DInit
NEXT DNext
INVARIANT DEmit
CHECK_DEADLOCK FALSE
