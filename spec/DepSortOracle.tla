------------------------- MODULE DepSortOracle -------------------------
(***************************************************************************)
(* code -> spec for C02: dependency graphs drawn by a random driver (5-10  *)
(* components, several multi-output providers, long cycles) were run       *)
(* through the real Model; each record carries the graph and what the      *)
(* implementation answered.  TLC judges every record against the contract  *)
(* of DepGraph and prints one verdict per case.                            *)
(***************************************************************************)
EXTENDS Naturals, Sequences, FiniteSets, TLC, Json, IOUtils, Functions, DepGraph

Cases == JsonDeserialize(IOEnv.CASE_FILE)

VARIABLE tid
ToSet(s) == {s[j] : j \in DOMAIN s}

Comps(c) == ToSet(c.comps)
ProvF(c) == [k \in Comps(c) |-> ToSet(c.prov[k])]
ReqF(c)  == [k \in Comps(c) |-> ToSet(c.req[k])]
BaseS(c) == DOMAIN c.benv

Expected(c) == GOutcomeKinds(Comps(c), ProvF(c), ReqF(c), BaseS(c))

MissingExp(c) ==
    LET m == GMissing(Comps(c), ProvF(c), ReqF(c), BaseS(c))
    IN [k \in {j \in Comps(c) : m[j] # {}} |-> m[k]]

ValuesExp(c) == GValues(Comps(c), ProvF(c), ReqF(c), c.rank, c.benv)

ObsMissing(c) == [k \in DOMAIN c.obs.missing |-> ToSet(c.obs.missing[k])]

Verdict(c) ==
    IF c.obs.kind \notin Expected(c) THEN "kind"
    ELSE IF c.obs.kind = "ok" /\ \E n \in DOMAIN ValuesExp(c) : c.obs.values[n] # ValuesExp(c)[n] THEN "values"
    ELSE IF c.obs.kind = "missing" /\ ObsMissing(c) # MissingExp(c) THEN "missing-names"
    ELSE "accept"

Init == tid \in 1..Len(Cases)
Next == UNCHANGED tid

Judge == PrintT("@J@" \o ToJson([id |-> Cases[tid].id, verdict |-> Verdict(Cases[tid]),
                                   expected |-> Expected(Cases[tid])]) \o "@E@")
=============================================================================
