"""./check <Cnn|setup> [--tier quick|thorough] [--replay path]

The binding self-tests of DESIGN.md section 7 (tampered predictions / corrupted traces must be rejected, wrong
implementation-shaped spec instances must be refuted by TLC) are a permanent part of every check run: if one of
them fails the run is a machinery failure (exit 2)."""

from __future__ import annotations

import argparse
import importlib
import json
import os
import subprocess
import sys
import traceback
from pathlib import Path

from . import core
from .tlc import JAR_CP, SPEC_DIR, MachineryError


def setup() -> int:
    """Offline build step: parse every specification module with SANY, create scratch directories."""
    core.WORK.mkdir(exist_ok=True)
    core.EVIDENCE.mkdir(exist_ok=True)
    bad = 0
    mods = sorted(SPEC_DIR.glob("*.tla"))
    for tla in mods:
        p = subprocess.run(["java", "-cp", JAR_CP, "tla2sany.SANY", tla.name], cwd=SPEC_DIR,
                           capture_output=True, text=True)
        ok = p.returncode == 0 and "Semantic errors" not in p.stdout and "***Parse Error***" not in p.stdout \
            and "Fatal errors" not in p.stdout
        if not ok:
            bad += 1
            print(f"SANY failed on {tla.name}:\n{p.stdout[-2000:]}", file=sys.stderr)
    print(f"setup: {len(mods)} specification modules parsed, {bad} failures")
    core.use_repo()
    import mxlpy  # noqa: F401

    print(f"setup: mxlpy importable from {mxlpy.__file__}")
    return 2 if bad else 0


def main(argv=None) -> int:
    ap = argparse.ArgumentParser(prog="check")
    ap.add_argument("target")
    ap.add_argument("--tier", default=os.environ.get("VERIF_TIER") or "quick", choices=["quick", "thorough"])
    ap.add_argument("--replay", default=None)
    ap.add_argument("--seed", type=int, default=int(os.environ.get("VERIF_SEED") or 20260101))
    args = ap.parse_args(argv)

    if args.target == "setup":
        return setup()
    prop = args.target.upper()
    try:
        mod = importlib.import_module(f"mbt.props.{prop.lower()}")
    except ModuleNotFoundError as e:
        if f"mbt.props.{prop.lower()}" in str(e):
            print(f"no check implemented for {prop}", file=sys.stderr)
            return 2
        raise
    core.use_repo()
    try:
        if args.replay:
            scenario = json.loads(Path(args.replay).read_text())
            ctx = core.Ctx(prop + "_replay", args.tier, args.seed)
            return mod.replay(ctx, scenario)
        ctx = core.Ctx(prop, args.tier, args.seed)
        return mod.run(ctx)
    except MachineryError as e:
        print(f"MACHINERY FAILURE ({prop}): {e}", file=sys.stderr)
        return 2
    except Exception:  # noqa: BLE001
        traceback.print_exc()
        print(f"MACHINERY FAILURE ({prop}): unexpected exception in the harness", file=sys.stderr)
        return 2


if __name__ == "__main__":
    sys.exit(main())
