---------------------------- MODULE DepSort ----------------------------
(***************************************************************************)
(* C02 -- dependency resolution.                                           *)
(*                                                                         *)
(* Two levels in one module:                                               *)
(*   * the CONTRACT: Outcome(req) of a dependency graph (missing /         *)
(*     circular / ok with values), defined without any notion of order;    *)
(*   * the ALGORITHM of mxlpy.model._sort_dependencies as actions (FIFO    *)
(*     queue, re-enqueue, "stuck twice" shortcut, n^2 iteration cap),      *)
(*     model-checked against the contract over every graph and every      *)
(*     declaration order in the bound.                                     *)
(*                                                                         *)
(* The real code is judged against the contract only (Emit lines carry the *)
(* scenario and the contract's prediction).                                *)
(***************************************************************************)
EXTENDS Naturals, Sequences, FiniteSets, TLC, Json, FiniteSetsExt, SequencesExt, Functions, DepGraph

CONSTANTS
    Comps,      \* component names; the component called "s" is a two-output provider
    MaxReq,     \* bound on |req[k]|
    Shortcut,   \* "raise": stuck-twice raises the circular error (contract / repaired code)
                \* "append": pinned-commit behaviour (appends the stuck component and stops)
    EmitOn      \* TRUE: print one JSON line per finished scenario

Prov(k)  == IF k = "s" THEN {"s1", "s2"} ELSE {k}
Base     == {"p"}                \* a plain parameter, always available
Ghost    == {"zz"} \cup (Comps \cap {"s"})   \* names nobody provides: "zz", and the two-output provider's OWN name
                                            \* (a label, never a value: only its outputs s1, s2 are provided)
Provided == UNION {Prov(k) : k \in Comps}
Names    == Provided \cup Base \cup Ghost

ReqSets  == {S \in SUBSET Names : Cardinality(S) <= MaxReq}

(***************************************************************************)
(* Contract: DepGraph instantiated on this universe                       *)
(***************************************************************************)
ProvF == [k \in Comps |-> Prov(k)]
Rank  == [n \in Provided |-> IF n = "s2" THEN 2 ELSE 1]
BEnv  == [n \in Base |-> 10]

Missing(req)      == GMissing(Comps, ProvF, req, Base)
HasMissing(req)   == GHasMissing(Comps, ProvF, req, Base)
OutcomeKinds(req) == GOutcomeKinds(Comps, ProvF, req, Base)
Values(req)       == GValues(Comps, ProvF, req, Rank, BEnv)

(***************************************************************************)
(* Algorithm (implementation-shaped; checked against the contract)         *)
(***************************************************************************)
VARIABLES req, ord, queue, avail, order, last, i, pc

vars == <<req, ord, queue, avail, order, last, i, pc>>
N == Cardinality(Comps)

Perms == {f \in [1..N -> Comps] : \A a, b \in 1..N : a # b => f[a] # f[b]}

Init ==
    /\ req \in [Comps -> ReqSets]
    /\ ord \in Perms
    /\ queue = ord
    /\ avail = Base
    /\ order = <<>>
    /\ last = "none"
    /\ i = 0
    /\ pc = "check"

Check ==
    /\ pc = "check"
    /\ pc' = IF HasMissing(req) THEN "missing" ELSE "loop"
    /\ UNCHANGED <<req, ord, queue, avail, order, last, i>>

Bump == /\ i' = i + 1
        /\ pc' = IF i + 1 > N * N THEN "circular" ELSE "loop"

TakeSatisfied ==
    /\ pc = "loop" /\ queue # <<>>
    /\ req[Head(queue)] \subseteq avail
    /\ avail' = avail \cup Prov(Head(queue))
    /\ order' = Append(order, Head(queue))
    /\ queue' = Tail(queue)
    /\ Bump
    /\ UNCHANGED <<req, ord, last>>

Requeue ==
    /\ pc = "loop" /\ queue # <<>>
    /\ ~(req[Head(queue)] \subseteq avail)
    /\ last # Head(queue)
    /\ queue' = Append(Tail(queue), Head(queue))
    /\ last' = Head(queue)
    /\ Bump
    /\ UNCHANGED <<req, ord, avail, order>>

StuckTwice ==
    /\ pc = "loop" /\ queue # <<>>
    /\ ~(req[Head(queue)] \subseteq avail)
    /\ last = Head(queue)
    /\ IF Shortcut = "raise"
       THEN pc' = "circular" /\ UNCHANGED order
       ELSE pc' = "ok" /\ order' = Append(order, Head(queue))
    /\ queue' = Tail(queue)
    /\ UNCHANGED <<req, ord, avail, last, i>>

Drained ==
    /\ pc = "loop" /\ queue = <<>>
    /\ pc' = "ok"
    /\ UNCHANGED <<req, ord, queue, avail, order, last, i>>

Done == pc \in {"ok", "missing", "circular"}

Next == Check \/ TakeSatisfied \/ Requeue \/ StuckTwice \/ Drained

Spec == Init /\ [][Next]_vars /\ WF_vars(Next)

(***************************************************************************)
(* Properties of the algorithm                                             *)
(***************************************************************************)
Pos(k) == CHOOSE j \in 1..Len(order) : order[j] = k
Complete    == Range(order) = Comps /\ Len(order) = N
Topological ==
    \A j \in 1..Len(order) :
        req[order[j]] \subseteq Base \cup UNION {Prov(order[m]) : m \in 1..(j - 1)}

OkIsRight       == pc = "ok" => "ok" \in OutcomeKinds(req) /\ Complete /\ Topological
MissingIsRight  == pc = "missing" => "missing" \in OutcomeKinds(req)
CircularIsRight == pc = "circular" => "circular" \in OutcomeKinds(req)
\* the iteration cap never cuts off a resolvable graph
Bounded         == i <= N * N + 1
Terminates      == <>Done

(***************************************************************************)
(* Emission: one JSON line per finished scenario (contract's prediction)   *)
(***************************************************************************)
\* the values when single-output component k is SUPPLIED (a variable whose current value, 100, is given by the
\* caller instead of being computed): everything naming it must see that value
Given(k) ==
    LET rest == Comps \ {k}
    IN GValues(rest, [j \in rest |-> Prov(j)], [j \in rest |-> req[j]], Rank, BEnv @@ (k :> 100))

Scenario ==
    [req    |-> [k \in Comps |-> req[k]],
     given  |-> IF OutcomeKinds(req) = {"ok"} THEN [k \in Comps \ {"s"} |-> Given(k)] ELSE [n \in {} |-> 0],
     ord    |-> ord,
     kinds  |-> OutcomeKinds(req),
     missing|-> [k \in {j \in Comps : Missing(req)[j] # {}} |-> Missing(req)[k]],
     values |-> IF OutcomeKinds(req) = {"ok"} THEN Values(req) ELSE [n \in {} |-> 0],
     algo   |-> pc]

Emit == (EmitOn /\ Done) => PrintT("@J@" \o ToJson(Scenario) \o "@E@")

=============================================================================
