-------------------------------- MODULE Mca --------------------------------
(***************************************************************************)
(* C18: metabolic control analysis of power-law / mass-action networks     *)
(* over exact rationals.  A point (network, values of every variable and   *)
(* parameter) is built one symbol per step; at every complete point TLC    *)
(* checks the theorems below and (gen) prints the coefficients the         *)
(* property demands:                                                       *)
(*   unscaled elasticity  = D(rate, symbol) evaluated exactly,             *)
(*   scaled elasticity    = symbol/flux * that  (= the kinetic order for   *)
(*                          power laws: theorem ScaledIsOrder),            *)
(*   response coefficient = D(closed-form steady state / steady flux,      *)
(*                          parameter), optionally scaled.                 *)
(* Theorems: ScaledIsOrder, QuotExact (the symmetric difference quotient   *)
(* of the routines equals D exactly wherever the rate is at most quadratic *)
(* in the symbol), SteadyIsSteady (the closed forms are steady states),    *)
(* Summation (flux responses sum to 1, concentration responses to 0).      *)
(***************************************************************************)
EXTENDS McaCore, Json

CONSTANTS Nets,       \* subset of {"chain2", "branch", "rev", "sgn", "cycle", "ia", "iac", "ipar", "pl"}
          Grid,       \* "quick" | "mid" | "full"
          EmitOn
VARIABLES nm, env, ph
vars == <<nm, env, ph>>

kin == Sym("kin")
k1 == Sym("k1")
k2 == Sym("k2")
k3 == Sym("k3")
km == Sym("km")
x1 == Sym("x1")
x2 == Sym("x2")

Rx(n, rate, st) == [name |-> n, rate |-> rate, st |-> st]
In1  == ("x1" :> 1)
Out1 == ("x1" :> (0 - 1))
Out2 == ("x2" :> (0 - 1))
X1X2 == ("x1" :> (0 - 1)) @@ ("x2" :> 1)
X2X1 == ("x1" :> 1) @@ ("x2" :> (0 - 1))
NoSS == <<>>

Net(n) ==
    CASE n = "chain2" ->
            [vars |-> <<"x1", "x2">>, pars |-> <<"kin", "k1", "k2">>,
             rxns |-> <<Rx("v0", kin, In1), Rx("v1", Mul(k1, x1), X1X2), Rx("v2", Mul(k2, x2), Out2)>>,
             ss |-> ("x1" :> Div(kin, k1)) @@ ("x2" :> Div(kin, k2)), cons |-> <<>>, init |-> <<>>, vals |-> <<>>]
      [] n = "branch" ->
            [vars |-> <<"x1", "x2">>, pars |-> <<"kin", "k1", "k2", "k3">>,
             rxns |-> <<Rx("v0", kin, In1), Rx("v1", Mul(k1, x1), X1X2), Rx("v2", Mul(k2, x2), Out2),
                        Rx("v3", Mul(k3, x1), Out1)>>,
             ss |-> ("x1" :> Div(kin, Add(k1, k3))) @@ ("x2" :> Div(Mul(k1, kin), Mul(Add(k1, k3), k2))), cons |-> <<>>, init |-> <<>>, vals |-> <<>>]
      [] n = "rev" ->
            [vars |-> <<"x1", "x2">>, pars |-> <<"kin", "k1", "km", "k2">>,
             rxns |-> <<Rx("v0", kin, In1), Rx("v1", Sub(Mul(k1, x1), Mul(km, x2)), X1X2), Rx("v2", Mul(k2, x2), Out2)>>,
             ss |-> ("x1" :> Div(Add(kin, Div(Mul(km, kin), k2)), k1)) @@ ("x2" :> Div(kin, k2)), cons |-> <<>>, init |-> <<>>, vals |-> <<>>]
      [] n = "cycle" ->  \* closed loop x1 <-> x2: the total T = x1 + x2 of the STARTING state is conserved, so the
                         \* steady state is a function of the parameters AND of the state the analysis starts from
            [vars |-> <<"x1", "x2">>, pars |-> <<"k1", "k2">>,
             rxns |-> <<Rx("v1", Mul(k1, x1), X1X2), Rx("v2", Mul(k2, x2), X2X1)>>,
             ss |-> ("x1" :> Div(Mul(Sym("T"), k2), Add(k1, k2))) @@ ("x2" :> Div(Mul(Sym("T"), k1), Add(k1, k2))),
             cons |-> <<[name |-> "T", members |-> <<"x1", "x2">>]>>, init |-> <<>>,
             \* ZERO is a regular value of a state (an empty pool): of the supplied state and of the model's own
             vals |-> ("x2" :> {RZero, RInt(3)})]
      [] n = "ia" ->     \* closed power-law loop whose INITIAL VALUES are assignment rules of parameters:
                         \* x1(0) = frac * T, x2(0) = T - x1(0).  "At the given state" with variables=None is the model's
                         \* initial state computed ONCE: elasticities stay PARTIAL derivatives (state held fixed), so
                         \* the fluxes have elasticity 0 w.r.t. T and frac although the state depends on them.
            [vars |-> <<"x1", "x2">>, pars |-> <<"k1", "k2", "T", "frac">>,
             rxns |-> <<Rx("v1", Mul(k1, Pow(x1, 2)), X1X2), Rx("v2", Mul(k2, x2), X2X1)>>,
             ss |-> NoSS, cons |-> <<>>,
             init |-> ("x1" :> Mul(Sym("frac"), Sym("T"))) @@ ("x2" :> Sub(Sym("T"), x1)), vals |-> <<>>]
      [] n = "iac" ->    \* the mass-action loop with the same assignment rules: it has a closed-form steady state, so the
                         \* response coefficients can be asked of a model that HOLDS ASSIGNMENT RULES.  Supplied state:
                         \* the conserved total Tot is a constant; variables=None: the search starts from the model's
                         \* own initial state, a function of the parameters (Tot = x1(0) + x2(0) = T), see NetM.
            [vars |-> <<"x1", "x2">>, pars |-> <<"k1", "k2", "T", "frac">>,
             rxns |-> <<Rx("v1", Mul(k1, x1), X1X2), Rx("v2", Mul(k2, x2), X2X1)>>,
             ss |-> ("x1" :> Div(Mul(Sym("Tot"), k2), Add(k1, k2))) @@ ("x2" :> Div(Mul(Sym("Tot"), k1), Add(k1, k2))),
             cons |-> <<[name |-> "Tot", members |-> <<"x1", "x2">>]>>,
             init |-> ("x1" :> Mul(Sym("frac"), Sym("T"))) @@ ("x2" :> Sub(Sym("T"), x1)), vals |-> <<>>]
      [] n = "sgn" ->    \* SIGNED values: the rate k1 x1 + g x2 has a NEGATIVE parameter g (x2 inhibits its own formation;
                         \* the steady state stays stable: trace -k1 + g - k2 < 0, determinant k1 k2 > 0) and the state
                         \* may hold a negative x2: every difference quotient must be divided by the SIGNED step 2 h p
            [vars |-> <<"x1", "x2">>, pars |-> <<"kin", "k1", "g", "k2">>,
             rxns |-> <<Rx("v0", kin, In1), Rx("v1", Add(Mul(k1, x1), Mul(Sym("g"), x2)), X1X2), Rx("v2", Mul(k2, x2), Out2)>>,
             ss |-> ("x1" :> Div(Sub(kin, Div(Mul(Sym("g"), kin), k2)), k1)) @@ ("x2" :> Div(kin, k2)),
             cons |-> <<>>, init |-> <<>>,
             vals |-> ("g" :> {R(0 - 1, 2), R(0 - 1, 4)}) @@ ("x2" :> {RInt(0 - 1), RInt(3)})]
      [] n = "ipar" ->   \* the chain with a RULE-DEFINED PARAMETER k1 = 2 * kbase (pinit).  The rates below are written with
                         \* the rule substituted (what the model computes with); the harness declares k1 by the rule
                         \* and lets v1 read k1.  The scannable parameters end with kbase, so a sequential scan displaces
                         \* the rule's source AFTER other parameters; afterwards k1 must still be that rule.
            [vars |-> <<"x1", "x2">>, pars |-> <<"kin", "k2", "kbase">>,
             rxns |-> <<Rx("v0", kin, In1), Rx("v1", Mul(Mul(Num(2), Sym("kbase")), x1), X1X2), Rx("v2", Mul(k2, x2), Out2)>>,
             ss |-> ("x1" :> Div(kin, Mul(Num(2), Sym("kbase")))) @@ ("x2" :> Div(kin, k2)),
             cons |-> <<>>, init |-> <<>>, vals |-> <<>>]
      [] n = "pl" ->     \* power laws of several orders (no closed-form steady state: elasticities only)
            [vars |-> <<"x1", "x2">>, pars |-> <<"kin", "k1", "k2", "k3">>,
             rxns |-> <<Rx("v0", kin, In1), Rx("v1", Mul(k1, Pow(x1, 2)), X1X2), Rx("v2", Mul(Mul(k2, x1), x2), Out2),
                        Rx("v3", Mul(Pow(k3, 2), x2), Out2), Rx("v4", Div(Mul(k1, x1), x2), Out1),
                        Rx("v5", Mul(Mul(k1, k2), Pow(x2, 3)), Out2)>>,
             ss |-> NoSS, cons |-> <<>>, init |-> <<>>, vals |-> <<>>]

\* values per symbol (all positive; rate constants >= 1/2 keep the networks fast-relaxing)
ValsOf(s) == CASE Grid = "full"  -> IF s = "frac" THEN {R(1, 4), R(1, 2), R(3, 4)} ELSE {R(1, 2), RInt(1), RInt(2), RInt(3)}
               [] Grid = "mid"   -> IF s = "frac" THEN {R(1, 4), R(1, 2)} ELSE {R(1, 2), RInt(1), RInt(3)}
               [] Grid = "quick" -> IF s = "frac" THEN {R(1, 4), R(1, 2)} ELSE IF s = "T" THEN {RInt(2), RInt(4)}
                                    ELSE IF s \in {"x1", "x2"} THEN {R(1, 2), RInt(3)}
                                    ELSE IF s = "kin" THEN {R(1, 2), RInt(2)} ELSE {RInt(1), RInt(3)}
\* variables with an assignment rule are not free: their value is the rule's value at the parameters (and earlier variables)
Syms(net) == IF DOMAIN net.init = {} THEN net.vars \o net.pars ELSE net.pars \o net.vars
ValsAt(net, s, e) == IF s \in DOMAIN net.init THEN {Eval(net.init[s], e)}
                     ELSE IF s \in DOMAIN net.vals THEN net.vals[s] ELSE ValsOf(s)

Init == nm \in Nets /\ env = <<>> /\ ph = "build"
Next == /\ ph = "build"
        /\ LET ss == Syms(Net(nm))
               j == Cardinality(DOMAIN env) + 1
           IN  IF j > Len(ss) THEN ph' = "done" /\ UNCHANGED <<nm, env>>
               ELSE \E v \in ValsAt(Net(nm), ss[j], env) : env' = env @@ (ss[j] :> v) /\ UNCHANGED <<nm, ph>>

Done == ph = "done"
N == Net(nm)
\* parameters declared by a rule of other parameters (rendered by the harness; the rule is part of the model's content)
PInit == IF nm = "ipar" THEN ("k1" :> Mul(Num(2), Sym("kbase"))) ELSE <<>>
VarSet == Range(N.vars)
ParSet == Range(N.pars)
RxnSet == Range(RxnNames(N))
\* parameters plus the conserved totals of the point's state (the state the steady-state search starts from)
PEnv == ParEnv(N, env) @@ [c \in {N.cons[i].name : i \in 1..Len(N.cons)} |->
                              LET m == (CHOOSE x \in Range(N.cons) : x.name = c).members
                              IN  RSum([i \in 1..Len(m) |-> env[m[i]]])]

ScaledIsOrder == Done =>
    \A r \in RxnSet : \A s \in VarSet \cup ParSet :
        (IsPowerLaw(Rate(N, r)) /\ ~IsBad(Scaled(N, r, s, env))) => Scaled(N, r, s, env) = RInt(Order(Rate(N, r), s))

QuotExact == Done =>
    \A r \in RxnSet : \A s \in VarSet \cup ParSet :
        (Deg(Rate(N, r), s) <= 2 /\ ~RIsZero(env[s])) => Quot(Rate(N, r), s, env, R(1, 10)) = Unscaled(N, r, s, env)

SteadyIsSteady == (Done /\ HasSS(N)) => \A x \in VarSet : Rhs(N, x, SSEnv(N, PEnv)) = RZero

Summation == (Done /\ HasSS(N)) =>
    /\ \A r \in RxnSet : RSum([i \in 1..Len(N.pars) |-> FluxRCs(N, r, N.pars[i], PEnv)]) = ROne
    /\ \A x \in VarSet : RSum([i \in 1..Len(N.pars) |-> ConcRCs(N, x, N.pars[i], PEnv)]) = RZero

\* non-vacuity: some coefficient of every kind is non-zero and some scaled elasticity differs from 0 and 1
Witness == (Done /\ nm = "pl") => \E r \in RxnSet, s \in VarSet : Scaled(N, r, s, env) \notin {RZero, ROne, Bad}

HQ == R(1, 10)
\* the quotient converges to the derivative: for these rational steady states |Quot - D| <= 2 HQ^2 |D| (sanity link between the two)
QuotNearD == (Done /\ HasSS(N)) =>
    \A x \in VarSet : \A q \in ParSet :
        LET dd == ConcRC(N, x, q, PEnv)
            qq == ConcQ(N, x, q, PEnv, HQ)
        IN  RLe(RAbs(RSub(qq, dd)), RMul(RMul(RInt(2), RSq(HQ)), RAbs(dd)))

\* the family can tell a partial derivative from a total one: substituting the assignment rules into a rate and
\* differentiating (what re-deriving the state after each displacement computes) gives something else
TotalDiffers == (Done /\ nm = "ia") =>
    \E r \in RxnSet : Eval(D(Subst(Subst(Rate(N, r), N.init), N.init), "T"), env) # Unscaled(N, r, "T", env)
\* the state of such a point IS the model's initial state
InitIsState == Done => \A x \in DOMAIN N.init : env[x] = Eval(N.init[x], env)

\* the network as seen with variables=None when its initial values are assignment rules: every conserved total is the
\* sum of the members' rules (fully substituted: an expression in the parameters), so the steady state responds to
\* the parameters the rules read
FullInit(x) == Subst(Subst(N.init[x], N.init), N.init)
TotExpr(c) == LET m == (CHOOSE y \in Range(N.cons) : y.name = c).members
              IN  IF Len(m) = 2 THEN Add(FullInit(m[1]), FullInit(m[2])) ELSE FullInit(m[1])
HasM == HasSS(N) /\ DOMAIN N.init # {} /\ N.cons # <<>>
NetM == [N EXCEPT !.ss = [x \in DOMAIN N.ss |->
                            Subst(N.ss[x], [c \in {N.cons[i].name : i \in 1..Len(N.cons)} |-> TotExpr(c)])]]
\* at the point the two views have the same steady state (the state IS the model's initial state) ...
MSameState == (Done /\ HasM) => \A x \in VarSet : SSValue(NetM, x, PEnv) = SSValue(N, x, PEnv)
\* ... but not the same sensitivities
MDiffers == (Done /\ HasM) => \E x \in VarSet, q \in ParSet : ConcRC(NetM, x, q, PEnv) # ConcRC(N, x, q, PEnv)
\* negative values really occur, with non-zero coefficients attached
SignedWitness == (Done /\ nm = "sgn") => (RLt(env["g"], RZero) /\ ~RIsZero(Unscaled(N, "v1", "g", env)))

(***************************************************************************)
(* SCALE.  Rates are homogeneous in the rate constants (degree KDeg) and in *)
(* the pools (variables and the pool-size parameter T; degree XDeg), so     *)
(* multiplying every rate constant by sk and every pool by sx multiplies    *)
(* the UNSCALED elasticity of rate r w.r.t. symbol y by                     *)
(*      sk^KDeg(r) * sx^XDeg(r) / scale(y)                                  *)
(* and leaves every SCALED elasticity unchanged.  TLC checks this on every  *)
(* point with small exact factors; the replay applies it with sk = 2^-30,   *)
(* sx = 2^-7 (exact in binary floating point) and judges every unscaled     *)
(* coefficient of the scaled twin RELATIVELY: a coefficient of 1e-9 is a    *)
(* number, not noise.                                                       *)
(***************************************************************************)
Consts == ParSet \ {"T", "frac"}
Pools  == VarSet \cup (ParSet \cap {"T"})
KDeg(r) == HDeg(Rate(N, r), Consts)
XDeg(r) == HDeg(Rate(N, r), Pools)
ScaleOf(y, sk, sx) == IF y \in Consts THEN sk ELSE IF y \in Pools THEN sx ELSE ROne
EnvS(sk, sx) == [y \in DOMAIN env |-> RMul(env[y], ScaleOf(y, sk, sx))]
Factor(r, y, sk, sx) == RDiv(RMul(RPowZ(sk, KDeg(r)), RPowZ(sx, XDeg(r))), ScaleOf(y, sk, sx))
HomAt(sk, sx) ==
    \A r \in RxnSet : \A y \in VarSet \cup ParSet :
        LET u1 == Unscaled(N, r, y, env)
            u2 == Unscaled(N, r, y, EnvS(sk, sx))
            s1 == Scaled(N, r, y, env)
            s2 == Scaled(N, r, y, EnvS(sk, sx))
        IN  /\ (IsBad(u1) <=> IsBad(u2)) /\ (~IsBad(u1) => u2 = RMul(Factor(r, y, sk, sx), u1))
            /\ (IsBad(s1) <=> IsBad(s2)) /\ (~IsBad(s1) => s2 = s1)
            /\ Flux(N, r, EnvS(sk, sx)) = RMul(RMul(RPowZ(sk, KDeg(r)), RPowZ(sx, XDeg(r))), Flux(N, r, env))
Homogeneous == Done => (HomAt(R(1, 2), ROne) /\ HomAt(ROne, RInt(3)) /\ HomAt(R(1, 2), RInt(3)))

Table(rows, cols, F(_, _)) == [a \in rows |-> [b \in cols |-> F(a, b)]]

Emit == (EmitOn /\ Done) =>
    PrintT("@J@" \o ToJson(
        [net |-> nm, desc |-> N, env |-> env, pinit |-> PInit,
         flux |-> [r \in RxnSet |-> Flux(N, r, env)],
         evu |-> Table(VarSet, RxnSet, LAMBDA s, r : Unscaled(N, r, s, env)),
         evs |-> Table(VarSet, RxnSet, LAMBDA s, r : Scaled(N, r, s, env)),
         epu |-> Table(ParSet, RxnSet, LAMBDA s, r : Unscaled(N, r, s, env)),
         eps |-> Table(ParSet, RxnSet, LAMBDA s, r : Scaled(N, r, s, env)),
         consts |-> Consts, pools |-> Pools,
         kdeg |-> [r \in RxnSet |-> KDeg(r)], xdeg |-> [r \in RxnSet |-> XDeg(r)],
         hasss |-> HasSS(N),
         ss  |-> IF HasSS(N) THEN [x \in VarSet |-> SSValue(N, x, PEnv)] ELSE <<>>,
         ssflux |-> IF HasSS(N) THEN [r \in RxnSet |-> Eval(SSFluxExpr(N, r), PEnv)] ELSE <<>>,
         rcu |-> IF HasSS(N) THEN Table(ParSet, VarSet, LAMBDA q, x : ConcRC(N, x, q, PEnv)) ELSE <<>>,
         rcs |-> IF HasSS(N) THEN Table(ParSet, VarSet, LAMBDA q, x : ConcRCs(N, x, q, PEnv)) ELSE <<>>,
         rfu |-> IF HasSS(N) THEN Table(ParSet, RxnSet, LAMBDA q, r : FluxRC(N, r, q, PEnv)) ELSE <<>>,
         rfs |-> IF HasSS(N) THEN Table(ParSet, RxnSet, LAMBDA q, r : FluxRCs(N, r, q, PEnv)) ELSE <<>>,
         \* the exact symmetric quotients for the large displacement HQ (no truncation error in the comparison)
         hq  |-> HQ,
         qcu |-> IF HasSS(N) THEN Table(ParSet, VarSet, LAMBDA q, x : ConcQ(N, x, q, PEnv, HQ)) ELSE <<>>,
         qcs |-> IF HasSS(N) THEN Table(ParSet, VarSet, LAMBDA q, x : ConcQs(N, x, q, PEnv, HQ)) ELSE <<>>,
         qfu |-> IF HasSS(N) THEN Table(ParSet, RxnSet, LAMBDA q, r : FluxQ(N, r, q, PEnv, HQ)) ELSE <<>>,
         qfs |-> IF HasSS(N) THEN Table(ParSet, RxnSet, LAMBDA q, r : FluxQs(N, r, q, PEnv, HQ)) ELSE <<>>,
         \* the same tables for variables=None on a model whose initial values are assignment rules (NetM)
         hasm |-> HasM,
         rcu_m |-> IF HasM THEN Table(ParSet, VarSet, LAMBDA q, x : ConcRC(NetM, x, q, PEnv)) ELSE <<>>,
         rcs_m |-> IF HasM THEN Table(ParSet, VarSet, LAMBDA q, x : ConcRCs(NetM, x, q, PEnv)) ELSE <<>>,
         rfu_m |-> IF HasM THEN Table(ParSet, RxnSet, LAMBDA q, r : FluxRC(NetM, r, q, PEnv)) ELSE <<>>,
         rfs_m |-> IF HasM THEN Table(ParSet, RxnSet, LAMBDA q, r : FluxRCs(NetM, r, q, PEnv)) ELSE <<>>,
         qcu_m |-> IF HasM THEN Table(ParSet, VarSet, LAMBDA q, x : ConcQ(NetM, x, q, PEnv, HQ)) ELSE <<>>,
         qcs_m |-> IF HasM THEN Table(ParSet, VarSet, LAMBDA q, x : ConcQs(NetM, x, q, PEnv, HQ)) ELSE <<>>,
         qfu_m |-> IF HasM THEN Table(ParSet, RxnSet, LAMBDA q, r : FluxQ(NetM, r, q, PEnv, HQ)) ELSE <<>>,
         qfs_m |-> IF HasM THEN Table(ParSet, RxnSet, LAMBDA q, r : FluxQs(NetM, r, q, PEnv, HQ)) ELSE <<>>]) \o "@E@")
=============================================================================
