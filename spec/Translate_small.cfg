\* C06 small-scope exhaustive instance (BFS): every program with <= 3 statements and <= 6 expression nodes
\* over atoms a, b, 1, operators - * sub2(), comparisons > ==, one local y (quick tier; base of the teeth runs)
CHECK_DEADLOCK FALSE
INIT Init
NEXT Next
CONSTANTS
    Arities = {2}
    Locals = {"y"}
    NumLits = {1}
    ConstNames = {}
    UnOn = {}
    BinOn = {"sub", "mul"}
    CmpOn = {"gt", "eq"}
    Chains = FALSE
    BoolOn = {}
    IteOn = FALSE
    CallOn = {"sub2"}
    ScopeModes = {"plain"}
    CallModes = {"pos"}
    AugOn = {}
    PassOn = FALSE
    AnnOn = FALSE
    ChainOn = FALSE
    LoopOn = FALSE
    MaxToks = 6
    MinStmts = 1
    MaxStmts = 3
    MaxDepth = 1
    MaxNest = 1
    Sim = TRUE
    EqOk = TRUE
    CheckPW = TRUE
    EmitOn = TRUE
INVARIANTS EmitLib PWTheorem LibTheorem WellFormedAlways
