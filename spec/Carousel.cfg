CONSTANTS
    Depth = 0
    Seeds = {}
    OpSet = "all"
    EmitOn = FALSE
INIT CInit
NEXT CNext
INVARIANT ProductShape
INVARIANT CEmit
CHECK_DEADLOCK FALSE
