"""C14 -- protocols: each step's parameter values hold exactly over its interval; the time-course form returns the
start, the requested points inside the protocol and the step boundaries, each once.

spec      : spec/Simulator.tla (effects, shared with C04), spec/SimulatorProto.tla (the protocol family, built
            action by action), spec/SimulatorTrace.tla (code -> spec)
TLC (mc)  : for every way of committing a protocol call in the bound: refusal <=> last requested point <= start;
            the call adds exactly {requested points in (start, end]} + {step boundaries} (+ start when there is
            no result yet), each once; one segment per step, step i governing exactly (b_{i-1}, b_i] under its own
            values, last values stay in force; protocol == each step's values applied, then a single
            simulate / simulate_time_course call (Eff-level composition).
spec->code: every emitted scenario (exhaustive core + seeded -simulate rich family) is driven through the real
            Simulator: prefix calls, make_protocol (cumulative index against the spec's boundaries),
            simulate_protocol / simulate_protocol_time_course (absolute or relative grid), one more simulate;
            compared after every call: raised?, index, segment count, raw_parameters per segment, values against
            the closed form with switching times; fluxes of every point against its segment's values at the end.
code->spec: a protocol-heavy seeded random driver on the real Simulator, validated by TLC (SimulatorTrace).
"""

from __future__ import annotations

import collections
import json
from concurrent.futures import ThreadPoolExecutor

from .. import simkit
from ..core import Ctx, Report, pmap
from ..tlc import MachineryError
from . import c04

PROP = "C14"
WEIGHTS = {"sim": 2, "tc": 1, "proto": 4, "ptc": 8, "upd": 1, "ov": 2, "ss": 0, "clear": 1, "read": 3}


def check_make_protocol(steps: list, salt: int = 0) -> dict | None:
    """make_protocol's table against the specification's steps: cumulative index = boundaries, every value bound
    to the parameter the step NAMES it for, whatever the key order of the step dicts (pure arithmetic)."""
    import math

    from mxlpy import make_protocol

    written = simkit.step_dicts(steps, simkit.SMALL, salt)
    try:
        prot = make_protocol(written)
    except Exception as e:  # noqa: BLE001
        return {"what": "make_protocol-raised", "steps_as_written": written, "observed": f"{type(e).__name__}: {e}"[:200]}
    got = [float(v) for v in prot.index.total_seconds()]
    cum, exp = 0, []
    for s in steps:
        cum += s["d"]
        exp.append(cum * simkit.TS)
    if len(got) != len(exp) or any(not simkit.tclose(a, b) for a, b in zip(got, exp)):
        return {"what": "make_protocol-index", "expected": exp, "observed": got}
    for i, s in enumerate(steps):
        row = prot.iloc[i].to_dict()
        e = {n: v * simkit.PS for n, v in (("kin", s["p"]["kin"]), ("k", s["p"]["kk"])) if v != simkit.KEEP}
        # a parameter the step does not name: no column at all, or a missing-value cell
        extra = [n for n in row if n not in e and not (isinstance(row[n], float) and math.isnan(row[n]))]
        if extra or any(n not in row or not simkit.tclose(float(row[n]), e[n]) for n in e):
            return {"what": "make_protocol-values", "step": i, "expected": e, "observed": row}
    return None


def _replay(h):
    for j, s in enumerate(h):
        if s["op"]["k"] in ("proto", "ptc"):
            bad = check_make_protocol(s["op"]["steps"], salt=j) or check_make_protocol(s["op"]["steps"], salt=j + 1)
            if bad:
                return {**bad, "step": j}, {}
    return simkit.replay_renderings(h)


def proto_index(h: list) -> int:
    """Index of the protocol call under test: the last protocol call of the scenario."""
    return max(j for j, s in enumerate(h) if s["op"]["k"] in ("proto", "ptc"))


def grid_classes(h: list) -> set:
    """Where the requested points of the time-course call fall (coverage of the statement's quantifier)."""
    j = proto_index(h)
    op = h[j]["op"]
    out = set()
    if op["k"] == "proto":
        out.add(f"proto/n={op['n']}")
        return out
    pre = h[j - 1]["st"] if j > 0 else None
    now = pre["now"] if pre else {"o": 0, "e": 0}
    offs = [(v // 1000, v % 1000) for v in op["rpts"]] if op["rel"] else \
        [(q["o"] - now["o"], q.get("e", 0) - now.get("e", 0)) for q in op["pts"]]
    cum, bounds = 0, []
    for s in op["steps"]:
        cum += s["d"]
        bounds.append(cum)
    if j > 0 and h[j - 1]["op"]["k"] == "read":
        out.add("views-read-before-protocol")
    for o, e in offs:
        if e:
            out.add("just-after-start" if o == 0 else "just-after-boundary" if o in bounds else "just-after-other")
        elif o < 0:
            out.add("before-start")
        elif o == 0:
            out.add("on-start")
        elif o in bounds:
            out.add("on-boundary")
        elif o > bounds[-1]:
            out.add("beyond-end")
        else:
            out.add("between")
    out.add("relative" if op["rel"] else "absolute")
    out.add("refused" if h[j]["raised"] else "accepted")
    out.add("continued" if (pre and pre["segs"]) else "fresh")
    out.add(f"steps={len(op['steps'])}")
    if len({json.dumps(s["p"], sort_keys=True) for s in op["steps"]}) < len(op["steps"]):
        out.add("repeated-values")
    if len({s["d"] for s in op["steps"]}) > 1:
        out.add("unequal-durations")
    if any(simkit.KEEP in (s["p"]["kin"], s["p"]["kk"]) for s in op["steps"]):
        out.add("step-omitting-a-parameter")
    kins = [s["p"]["kin"] for s in op["steps"]]
    if 0 in kins:
        out.add("zero-valued-step")
    if any(a != 0 and b == 0 and c != 0 for a, b, c in zip(kins, kins[1:], kins[2:])):
        out.add("off-phase-between-non-zero-steps")
    if j >= 2 and h[j - 1]["op"] == op and op["rel"] and h[j - 2]["st"]["segs"]:
        out.add("same-relative-grid-used-twice-on-continued-simulator")
    if pre and any(r["k"] == "ov" for r in pre["hist"]):
        out.add("after-override")
    return out


def classify(h: list, detail: dict) -> str | None:
    return simkit.classify(h, detail)


def generate(ctx: Ctx, rep: Report) -> list:
    if ctx.quick:
        jobs = [("core", "SimulatorProto_quick.cfg", {}, "exhaustive core (<= 1 prefix call, <= 2 steps, <= 2 grid points)"),
                ("rich", "SimulatorProto_sim.cfg", dict(simulate="num=60", depth=18, seed=ctx.seed, workers=8),
                 "seeded -simulate rich family (<= 2 prefix calls, <= 3 steps, <= 4 grid points)")]
    else:
        jobs = [("core", "SimulatorProto_thorough.cfg", {},
                 "exhaustive core (<= 1 prefix call of 4, <= 2 steps, durations 1..3, <= 2 grid points)"),
                ("rich", "SimulatorProto_sim.cfg", dict(simulate="num=1500", depth=18, seed=ctx.seed, workers=8),
                 "seeded -simulate rich family (<= 2 prefix calls, <= 3 steps, <= 4 grid points)")]

    def go(job):
        tag, cfg, kw, _ = job
        return ctx.tlc("SimulatorProto.tla", cfg, tag=tag, **{"workers": 8, **kw})

    with ThreadPoolExecutor(len(jobs)) as ex:
        results = list(ex.map(go, jobs))
    hs = {}
    for job, res in zip(jobs, results):
        rep.add_tlc(res, f"{job[3]}; C14 statement checked for every way of committing")
        if not res.payloads:
            raise MachineryError(f"no scenarios emitted by {job[1]}")
        rep.notes[f"scenarios_{job[0]}"] = len(res.payloads)
        for h in res.payloads:
            hs.setdefault(c04.hist_key(h), h)
    rep.exhaustive = True
    return list(hs.values())


def run(ctx: Ctx) -> int:
    import mxlpy  # noqa: F401  (before forking)

    rep = Report(ctx)
    rep.rule = ("one case = one scenario (prefix calls, a protocol, simulate_protocol or a requested grid for "
                "simulate_protocol_time_course, one more simulate) with the specification's prediction after every "
                "call, or one recorded protocol-heavy call sequence; non-trivial = the protocol has >= 2 steps or "
                "continues an earlier result; distinct by the operation sequence")
    rep.assumptions = [
        "model family x' = kin - k*x: the state at a boundary depends on when the switch happened",
        "every protocol step gives both parameters (make_protocol fills missing entries with NaN: out of scope)",
        "times in ticks of 0.5, parameter values in units of 1/64 (every float exact); default integrator; values "
        "compared at 1e-6 relative + 1e-9 absolute, fluxes at 1e-9",
        "the starting row of the first segment is accepted but not demanded outside the protocol time course "
        "(for simulate_protocol_time_course on a fresh simulator the statement demands it: checked)",
    ]
    hs = generate(ctx, rep)
    classes = collections.Counter()
    for h in hs:
        for c in grid_classes(h):
            classes[c] += 1
    need = ["before-start", "on-start", "on-boundary", "between", "beyond-end", "relative", "absolute", "refused",
            "accepted", "continued", "fresh", "steps=1", "steps=2", "steps=3", "repeated-values", "unequal-durations",
            "after-override", "proto/n=1", "proto/n=2", "just-after-start", "just-after-boundary",
            "views-read-before-protocol", "zero-valued-step", "off-phase-between-non-zero-steps", "step-omitting-a-parameter",
            "same-relative-grid-used-twice-on-continued-simulator"]
    missing = [c for c in need if classes[c] == 0]
    if missing:
        raise MachineryError(f"vacuity: the scenario family never has {missing}")
    rep.notes["scenario_classes"] = dict(sorted(classes.items()))
    rep.notes["replayer_selftest_corruptions_detected"] = c04.selftest_replayer(hs, ctx.seed)
    outs = pmap(_replay, hs, chunk=32)
    worst, nvals = 0.0, 0
    for h, (bad, stats) in zip(hs, outs):
        rep.replayed += 1
        rep.evaluations += 1
        j = proto_index(h)
        if len(h[j]["op"]["steps"]) >= 2 or (j > 0 and h[j - 1]["st"]["segs"]):
            rep.distinct.add(c04.hist_key(h))
        if bad is None and h[j]["op"]["k"] == "ptc" and not h[j]["raised"] and (j == 0 or not h[j - 1]["st"]["segs"]):
            # the statement of C14 demands the start time in the time-course form: no tolerance for its absence
            bad = start_row_check(h, j)
        if bad is not None:
            rep.mismatch({"history": h}, bad, classify(h, bad))
        else:
            worst = max(worst, stats.get("worst", 0.0))
            nvals += stats.get("n", 0)
    rep.notes["values_compared_with_closed_form"] = nvals
    rep.notes["worst_error_over_tolerance"] = round(worst, 4)
    rep.notes["fragile_rows_judged_at_integrator_atol(|x|<1e-1)"] = sum(st.get("fragile", 0) for _, st in outs)
    c04.rendering_notes(rep, outs)
    for h in hs[:: max(1, len(hs) // 3)][:3]:
        rep.sample({"calls": [s["op"] for s in h], "refused": [s["raised"] for s in h],
                    "predicted_index_ticks": [[q["o"] if q["b"] == 0 else f"tau{q['b']}+{q['o']}" for q in g["times"]]
                                              for g in h[-1]["st"]["segs"]],
                    "predicted_parameters": [g["p"] for g in h[-1]["st"]["segs"]]})
    c04.trace_direction(ctx, rep, PROP, 500 if ctx.quick else 6000, 6 if ctx.quick else 8, WEIGHTS, "protocols")
    c04.repo_tests_direction(ctx, rep, only_protocols=True)
    return rep.finish()


def start_row_check(h: list, j: int) -> dict | None:
    """Fresh simulator + protocol time course: the result must begin with the start time itself."""
    run = simkit.Run()
    for s in h[:j + 1]:
        run.apply(s["op"])
    obs = run.observe()
    if not obs or not simkit.tclose(obs[0]["t"][0], run.t(h[j]["st"]["segs"][0]["t0"])):
        return {"what": "index", "step": j, "segment": 0, "expected": "the start time as first point",
                "observed": obs[0]["t"] if obs else None}
    return None


def replay(ctx: Ctx, doc: dict) -> int:
    import mxlpy  # noqa: F401

    scn = doc["scenario"]
    if "history" not in scn:
        return c04.replay(ctx, doc)
    h = scn["history"]
    bad, _ = _replay(h)
    if bad is None and any(s["op"]["k"] in ("proto", "ptc") for s in h):
        j = proto_index(h)
        if h[j]["op"]["k"] == "ptc" and not h[j]["raised"] and (j == 0 or not h[j - 1]["st"]["segs"]):
            bad = start_row_check(h, j)
    print(json.dumps({"calls": [s["op"] for s in h], "disagreement": bad}, indent=1))
    if bad:
        print("VIOLATION property=C14 replay=(given)")
        return 1
    print("conforms")
    return 0
