\* C19: implementation-shaped wrong order "rename before close" (temp file moved onto the final path while still open and buffered): must VIOLATE NoRaise
CONSTANTS
    NKeys = 2
    W = 1
    L = 2
    Design = "temp"
    Policy = "trust"
    RenameAt = "written"
    BypassOne = FALSE
    MkdirAtBuild = FALSE
    Recover = FALSE
    Forwards = TRUE
    MaxDrop = 0
    LossyNames = FALSE
    Memo = FALSE
    MaxClear = 0
    MaxExtra = 0
    MaxCrash = 1
    Fifo = TRUE
    EmitOn = FALSE
INIT Init
NEXT Next
INVARIANT TypeOK
INVARIANT NoRaise
CHECK_DEADLOCK TRUE
