\* implementation-shaped WRONG instance (pinned commit): the steady-state run does not advance the
\* integrator. TLC must report AxisIncreasing violated.
CONSTANTS
    Depth = 3
    EmitOn = FALSE
    Variant = "ssreset"
    MenuName = "variant"
INIT Init
NEXT Next
INVARIANT AxisIncreasing
CHECK_DEADLOCK FALSE
