\* every mutator (full alphabet) applied to every representative content; contract invariants
CONSTANTS
    Depth = 1
    Seeds = {"empty", "vp", "vpr", "vpd", "vpdyn", "iap", "iav", "vv", "named", "dyn", "sur", "surd", "data", "dataia", "ro", "dangle"}
    OpSet = "all"
    EmitOn = TRUE
INIT Init
NEXT Next
INVARIANT StoichClosed
INVARIANT OneNameSpace
INVARIANT Emit
PROPERTY RejectedUnchanged
CHECK_DEADLOCK FALSE
