"""C03 -- edit histories: answers depend only on the model's current content.

spec      : spec/ModelEdit.tla (Eff = every public mutator as a pure effect on content, Obs = what every
            query must answer, generator of histories), spec/ModelEditTrace.tla (code -> spec)
TLC (mc)  : contract invariants (one name space, stoichiometries closed) and the action property
            "rejected => unchanged, removal frees the name" over every mutator x representative content
spec->code: every emitted history is replayed twice into the real Model -- 'hot' (all queries after every step,
            so each edit hits a populated cache) and 'cold' (queries only at the end) -- comparing accepted /
            rejected, ids, names per container, variable order and every query's answer with the specification
code->spec: a seeded random driver over a larger universe records (op, accepted, observation) traces from the
            real Model; TLC validates them in batches with the same Eff / Obs
"""

from __future__ import annotations

import copy
import json
import random

from .. import fnlib
from ..core import Ctx, Report, pmap
from ..modelkit import build_model, close, data_series, norm_content, surrogate, value
from ..tlc import MachineryError, fn_to_dict

NOINVAL = {"update_surrogate", "remove_surrogate", "add_data", "update_data", "remove_data", "add_readout",
           "remove_readout"}


# ---------------------------------------------------------------------------------------------
# op -> API call
# ---------------------------------------------------------------------------------------------
def _coef_plain(co):
    from ..modelkit import coef

    return coef(co)


def _st(st):
    return {v: _coef_plain(co) for v, co in fn_to_dict(st).items()}


def apply_single(m, op: dict) -> None:
    o = op["op"]
    n = op.get("n")
    if o == "add_parameter":
        m.add_parameter(n, value(op["v"]))
    elif o == "remove_parameter":
        m.remove_parameter(n)
    elif o == "update_parameter":
        m.update_parameter(n, value(op["v"]))
    elif o == "scale_parameter":
        m.scale_parameter(n, float(op["f"]))
    elif o == "make_parameter_dynamic":
        iv = None if op["iv"]["k"] == "none" else value(op["iv"])
        st = fn_to_dict(op["st"])
        m.make_parameter_dynamic(n, initial_value=iv, stoichiometries={k: float(v) for k, v in st.items()} if st else None)
    elif o == "add_variable":
        m.add_variable(n, value(op["v"]))
    elif o == "remove_variable":
        m.remove_variable(n)
    elif o == "remove_variable_keepst":
        m.remove_variable(n, remove_stoichiometries=False)
    elif o == "update_variable":
        m.update_variable(n, value(op["v"]))
    elif o == "make_variable_static":
        iv = None if op["iv"]["k"] == "none" else value(op["iv"])
        m.make_variable_static(n, value=iv)
    elif o == "add_derived":
        m.add_derived(n, fnlib.FNS[op["call"]["fn"]], args=list(op["call"]["args"]))
    elif o == "update_derived":
        kw = {}
        if op["mode"] in ("both", "fn"):
            kw["fn"] = fnlib.FNS[op["call"]["fn"]]
        if op["mode"] in ("both", "args"):
            kw["args"] = list(op["call"]["args"])
        m.update_derived(n, **kw)
    elif o == "remove_derived":
        m.remove_derived(n)
    elif o == "add_reaction":
        m.add_reaction(n, fnlib.FNS[op["call"]["fn"]], args=list(op["call"]["args"]), stoichiometry=_st(op["st"]))
    elif o == "update_reaction":
        kw = {}
        if op["call"]["fn"] != "none":
            if op["mode"] in ("both", "fn"):
                kw["fn"] = fnlib.FNS[op["call"]["fn"]]
            if op["mode"] in ("both", "args"):
                kw["args"] = list(op["call"]["args"])
        if not op["keepst"]:
            kw["stoichiometry"] = _st(op["st"])
        m.update_reaction(n, **kw)
    elif o == "remove_reaction":
        m.remove_reaction(n)
    elif o == "add_readout":
        m.add_readout(n, fnlib.FNS[op["call"]["fn"]], args=list(op["call"]["args"]))
    elif o == "remove_readout":
        m.remove_readout(n)
    elif o == "add_surrogate":
        s = dict(op["sur"])
        s["st"] = {k: fn_to_dict(v) for k, v in fn_to_dict(s["st"]).items()}
        m.add_surrogate(n, surrogate(s))
    elif o == "update_surrogate":
        kw = {}
        if not op["keepargs"]:
            kw["args"] = list(op["args"])
        if not op["keepouts"]:
            kw["outputs"] = list(op["outs"])
        if not op["keepst"]:
            from ..modelkit import coef_sur

            kw["stoichiometries"] = {k: {v: coef_sur(co) for v, co in fn_to_dict(vv).items()}
                                     for k, vv in fn_to_dict(op["st"]).items()}
        m.update_surrogate(n, **kw)
    elif o == "replace_surrogate":
        sr = dict(op["sur"])
        sr["st"] = {k: fn_to_dict(v) for k, v in fn_to_dict(sr["st"]).items()}
        m.update_surrogate(n, surrogate(sr))
    elif o == "remove_surrogate":
        m.remove_surrogate(n)
    elif o == "add_data":
        m.add_data(n, data_series(op["d"]))
    elif o == "update_data":
        m.update_data(n, data_series(op["d"]))
    elif o == "remove_data":
        m.remove_data(n)
    else:
        raise MachineryError(f"unknown op {o}")


def apply_op(m, op: dict) -> tuple[bool, str | None]:
    try:
        if op["op"] == "plural":
            name = op["name"]
            ops = op["ops"]
            if name in ("add_parameters", "update_parameters", "add_variables", "update_variables"):
                getattr(m, name)({o["n"]: value(o["v"]) for o in ops})
            elif name == "scale_parameters":
                m.scale_parameters({o["n"]: float(o["f"]) for o in ops})
            elif name in ("remove_parameters", "remove_variables"):
                getattr(m, name)([o["n"] for o in ops])
            else:
                raise MachineryError(f"unknown plural {name}")
        else:
            apply_single(m, op)
        return True, None
    except MachineryError:
        raise
    except Exception as e:  # noqa: BLE001
        return False, f"{type(e).__name__}: {str(e)[:120]}"


# ---------------------------------------------------------------------------------------------
# observation of the real model, projected on the specification's Obs
# ---------------------------------------------------------------------------------------------
def _query(fn):
    from mxlpy.model import ArityMismatchError, CircularDependencyError, MissingDependenciesError

    try:
        return "ok", fn()
    except ArityMismatchError:
        return "arity", None
    except MissingDependenciesError:
        return "missing", None
    except CircularDependencyError:
        return "circular", None
    except Exception as e:  # noqa: BLE001
        return "error", f"{type(e).__name__}: {str(e)[:100]}"


def observe(m, queries: bool = True) -> dict:
    obs = {
        "ids": dict(m.ids),
        "vars": list(m.get_variable_names()),
        "pars": sorted(m.get_parameter_names()),
        "der": sorted(m.get_raw_derived(as_copy=False)),
        "rxn": sorted(m.get_reaction_names()),
        "ro": sorted(m.get_readout_names()),
        "sur": sorted(m.get_raw_surrogates(as_copy=False)),
        "data": sorted(m._data),  # no public accessor for data-set names other than ids
    }
    if not queries:
        return obs
    res = {}
    kinds = {}
    # stoichiometries first: a query must not change what later queries answer
    def _stoich():
        df = m.get_stoichiometries()
        return {str(v): {str(f): float(df.loc[v, f]) for f in df.columns if float(df.loc[v, f]) != 0.0} for v in df.index}

    kinds["stoich"], res["stoich"] = _query(_stoich)
    kinds["args"], res["args"] = _query(lambda: {k: float(v) for k, v in m.get_args().to_dict().items()})
    kinds["rhs"], res["rhs"] = _query(lambda: [float(v) for v in m.get_right_hand_side().to_numpy()])
    kinds["init"], res["init"] = _query(lambda: {k: float(v) for k, v in m.get_initial_conditions().items()})
    kinds["parvals"], res["parvals"] = _query(lambda: {k: float(v) for k, v in m.get_parameter_values().items()})
    kinds["static"], res["static"] = _query(lambda: sorted(m.get_derived_parameter_names()))
    obs["q"] = {"kinds": kinds, **res}
    return obs


def cmp_obs(exp: dict, obs: dict, queries: bool) -> dict | None:
    e_ids = fn_to_dict(exp["ids"])
    if obs["ids"] != e_ids:
        return {"what": "ids", "expected": e_ids, "observed": obs["ids"]}
    if list(exp["vars"]) != obs["vars"]:
        return {"what": "variable order", "expected": exp["vars"], "observed": obs["vars"]}
    for k in ("pars", "der", "rxn", "ro", "sur", "data"):
        if sorted(exp[k]) != obs[k]:
            return {"what": f"names in container {k}", "expected": sorted(exp[k]), "observed": obs[k]}
    if not queries:
        return None
    eq = exp["q"]
    ek = set(eq["kind"])
    q = obs["q"]
    if ek == {"error"}:
        return None  # nothing is promised about a content that cannot be evaluated
    for name, kind in q["kinds"].items():
        if kind not in ek:
            return {"what": f"query {name}", "expected_kind": sorted(ek), "observed_kind": kind, "observed": q[name]}
    if ek == {"ok"}:
        for name in ("args", "init", "parvals"):
            e = fn_to_dict(eq[name])
            o = q[name]
            if set(e) != set(o):
                return {"what": f"query {name} names", "expected": e, "observed": o}
            for n, v in e.items():
                if not close(v, o[n]):
                    return {"what": f"query {name}", "name": n, "expected": v, "observed": o[n]}
        e = list(eq["rhs"])
        if len(e) != len(q["rhs"]) or any(not close(a, b) for a, b in zip(e, q["rhs"])):
            return {"what": "query rhs", "expected": e, "observed": q["rhs"]}
        e_st = {v: {f: x for f, x in fn_to_dict(row).items() if x != 0} for v, row in fn_to_dict(eq["stoich"]).items()}
        e_st = {v: row for v, row in e_st.items() if row}
        o_st = {v: row for v, row in q["stoich"].items() if row}
        if set(e_st) != set(o_st) or any(set(e_st[v]) != set(o_st[v]) or any(not close(e_st[v][f], o_st[v][f]) for f in e_st[v])
                                          for v in e_st):
            return {"what": "query stoichiometries", "expected": e_st, "observed": o_st}
        if sorted(eq["static"]) != q["static"]:
            return {"what": "query derived parameter names", "expected": sorted(eq["static"]), "observed": q["static"]}
    return None


# ---------------------------------------------------------------------------------------------
# spec -> code
# ---------------------------------------------------------------------------------------------
def replay_history(h: dict, mode: str) -> dict | None:
    """mode 'hot': observe (incl. all queries) before the first and after every step;
    mode 'cold': queries only after the last step (ids / containers after every step)."""
    c0 = norm_content(copy.deepcopy(h["start"]))
    m, _ = build_model(c0)
    if mode == "hot":
        bad = cmp_obs(h["startobs"], observe(m), True)
        if bad:
            return {"step": 0, **bad}
    steps = h["hist"]
    for j, st in enumerate(steps, start=1):
        ok, exc = apply_op(m, st["op"])
        if ok != st["ok"]:
            return {"step": j, "what": "accepted/rejected", "expected_accepted": st["ok"], "observed_accepted": ok,
                    "exception": exc, "op": st["op"]}
        q = mode == "hot" or j == len(steps)
        bad = cmp_obs(st["obs"], observe(m, q), q)
        if bad:
            return {"step": j, "op": st["op"], "accepted": ok, "exception": exc, **bad}
    return None


def _replay_raw(raw):
    """Decode one emitted history in the worker, replay it hot and cold, hand back only what the verdict needs (the
    parent never holds the decoded family: a thorough run emits several GB of Python objects)."""
    import hashlib

    from ..tlc import decode_payload

    h = decode_payload(raw)
    hot, cold = _replay_both(h)
    accepted = any(s["ok"] for s in h["hist"])
    key = hashlib.sha1(json.dumps([h["seed"], [s["op"] for s in h["hist"]]], sort_keys=True).encode()).hexdigest()
    return hot, cold, accepted, key, (h if (hot is not None or cold is not None) else None)


def _replay_both(h):
    out = []
    for mode in ("hot", "cold"):
        try:
            bad = replay_history(h, mode)
        except MachineryError:
            raise
        except Exception as e:  # noqa: BLE001
            import traceback

            bad = {"what": "harness exception", "exc": f"{type(e).__name__}: {e}", "trace": traceback.format_exc()[-800:]}
        out.append(bad)
    return out


def classify(h: dict, bad: dict, mode: str) -> str | None:
    """Finding key from the shape of the failing step."""
    j = bad.get("step")
    if not j:
        return None
    st = h["hist"][j - 1]
    op = st["op"]
    o = op["op"]
    what = bad.get("what", "")
    prev_ids = fn_to_dict(h["hist"][j - 2]["obs"]["ids"] if j >= 2 else h["startobs"]["ids"])
    if o.startswith("remove_") and not st["ok"] and what == "ids" and op.get("n") in prev_ids \
            and op["n"] not in bad["observed"]:
        return "remove-other-kind"
    if o == "add_surrogate" and not st["ok"] and what == "ids":
        return "add-surrogate-partial"
    if o == "update_data" and not st["ok"] and what == "accepted/rejected":
        return "update-data-unknown"
    if o == "make_parameter_dynamic" and not st["ok"] and what in ("ids", "variable order", "names in container pars"):
        return "make-parameter-dynamic-partial"
    if o == "update_surrogate" and what in ("accepted/rejected", "ids") and not op["keepouts"]:
        return "update-surrogate-outputs"
    if o in NOINVAL and mode == "hot" and what.startswith("query"):
        return f"no-invalidate:{o}"
    if o == "plural":
        # the same shapes inside a plural form
        for s in op["ops"]:
            if s["op"].startswith("remove_") and what == "ids":
                return "remove-other-kind"
    return None


# ---------------------------------------------------------------------------------------------
# code -> spec: random driver + recorder
# ---------------------------------------------------------------------------------------------
UNI = ["a", "b", "c", "d", "e", "f"]
OUTS = [["o1", "o2"], ["o3", "o4"], ["a", "o1"], ["o2", "o2"]]


def _rand_value(rnd, names):
    r = rnd.random()
    if r < 0.55:
        return {"k": "num", "v": rnd.choice([0, 2, 3, 5, 7])}
    if r < 0.7:
        return {"k": "ia", "fn": "two", "args": []}
    if r < 0.9:
        return {"k": "ia", "fn": rnd.choice(["inc", "dbl", "neg"]), "args": [rnd.choice(names)]}
    return {"k": "ia", "fn": rnd.choice(["add", "mul"]), "args": [rnd.choice(names), rnd.choice(names)]}


def _rand_call(rnd, names):
    f = rnd.choice(["two", "inc", "dbl", "id", "add", "mul", "sub", "mad"])
    k = fnlib.ARITY[f]
    if rnd.random() < 0.04:  # one argument too many / too few: every query must then raise ArityMismatchError
        k = k + 1 if k == 0 or rnd.random() < 0.5 else k - 1
    return {"fn": f, "args": [rnd.choice(names) for _ in range(k)]}


_SAME = {0: ["one", "two"], 1: ["inc", "dbl", "neg", "id"], 2: ["mul", "add", "sub"], 3: ["mad"]}


def _partial_call(rnd, names, existing):
    """A full call, or -- keeping the component's current arity -- only a new function / only new arguments."""
    if existing is None or rnd.random() < 0.4 or len(existing.args) not in _SAME:
        return _rand_call(rnd, names), "both"
    k = len(existing.args)
    mode = rnd.choice(["fn", "args"])
    return {"fn": rnd.choice(_SAME[k]), "args": [rnd.choice(names) for _ in range(k)]}, mode


def _rand_st(rnd, m):
    vs = list(m.get_variable_names())
    ps = list(m.get_parameter_names())
    st = {}
    for v in rnd.sample(vs, min(len(vs), rnd.randint(0, 2))):
        r = rnd.random()
        if ps and r < 0.2:
            st[v] = {"k": "calc", "fn": "id", "args": [rnd.choice(ps)]}
        elif r < 0.35:
            st[v] = {"k": "calc", "fn": rnd.choice(["neg", "inc", "dbl"]), "args": [rnd.choice(vs + ["time"])]}
        else:
            st[v] = {"k": "num", "v": rnd.choice([-2, -1, 1, 2])}
    if rnd.random() < 0.08:  # a name that is not (yet) a variable: accepted by the library, not evaluable until declared
        absent = [x for x in UNI if x not in vs]
        if absent:
            st[rnd.choice(absent)] = {"k": "num", "v": 1}
    return st


def rand_op(rnd: random.Random, m) -> dict:
    names = UNI + ["time"]
    n = rnd.choice(UNI + (["time"] if rnd.random() < 0.05 else []))
    present = list(m.ids)
    if present and rnd.random() < 0.6:
        n = rnd.choice(present)
    kind = rnd.choice([
        "add_parameter", "remove_parameter", "update_parameter", "scale_parameter", "make_parameter_dynamic",
        "add_variable", "remove_variable", "remove_variable_keepst", "update_variable", "make_variable_static",
        "add_derived", "update_derived", "remove_derived",
        "add_reaction", "update_reaction", "remove_reaction",
        "add_readout", "remove_readout", "add_surrogate", "update_surrogate", "replace_surrogate", "remove_surrogate",
        "add_data", "update_data", "remove_data"])
    op = {"op": kind, "n": n}
    if kind in ("add_parameter", "update_parameter", "add_variable", "update_variable"):
        op["v"] = _rand_value(rnd, names)
    elif kind == "scale_parameter":
        op["f"] = rnd.choice([0, 2, 3])
    elif kind == "make_parameter_dynamic":
        op["iv"] = {"k": "none"} if rnd.random() < 0.5 else {"k": "num", "v": rnd.choice([4, 0])}
        fl = list(m.get_reaction_names()) + list(m.get_surrogate_reaction_names()) + ["nosuch"]
        op["st"] = {} if rnd.random() < 0.5 else {rnd.choice(fl): 2}
    elif kind == "make_variable_static":
        op["iv"] = {"k": "none"} if rnd.random() < 0.5 else {"k": "num", "v": 4}
    elif kind in ("add_derived", "add_readout"):
        op["call"] = _rand_call(rnd, names)
    elif kind == "update_derived":
        op["call"], op["mode"] = _partial_call(rnd, names, m.get_raw_derived(as_copy=False).get(n))
    elif kind == "add_reaction":
        op["call"] = _rand_call(rnd, names)
        op["st"] = _rand_st(rnd, m)
    elif kind == "update_reaction":
        if rnd.random() < 0.3:
            op["call"], op["mode"] = {"fn": "none", "args": []}, "both"
        else:
            op["call"], op["mode"] = _partial_call(rnd, names, m.get_raw_reactions(as_copy=False).get(n))
        op["keepst"] = rnd.random() < 0.5
        op["st"] = {} if op["keepst"] else _rand_st(rnd, m)
    elif kind == "add_surrogate":
        outs = rnd.choice(OUTS)
        vs = list(m.get_variable_names())
        st = {}
        if vs and rnd.random() < 0.6:
            st = {outs[0]: {rnd.choice(vs): {"k": "num", "v": rnd.choice([1, -1, 2])}}}
        op["sur"] = {"fns": ["inc", "dbl"], "args": [rnd.choice(names)], "outs": outs, "st": st}
    elif kind == "replace_surrogate":
        op["sur"] = {"fns": ["dbl", "inc"], "args": [rnd.choice(names)], "outs": rnd.choice(OUTS + [["o1", "p1"], ["p1", "p2"]]),
                     "st": {}}
    elif kind == "update_surrogate":
        op["keepargs"] = rnd.random() < 0.5
        op["args"] = ["time"] if op["keepargs"] else [rnd.choice(names)]
        op["keepouts"] = rnd.random() < 0.6
        op["outs"] = ["o1", "o2"] if op["keepouts"] else rnd.choice(OUTS)
        op["keepst"] = op["keepouts"] and rnd.random() < 0.5
        vs = list(m.get_variable_names())
        op["st"] = {}
        if not op["keepst"] and vs and rnd.random() < 0.5:
            op["st"] = {op["outs"][0]: {rnd.choice(vs): {"k": "num", "v": -3}}}
    elif kind in ("add_data", "update_data"):
        op["d"] = rnd.choice([13, 17])
    return op


def _project_for_tlc(obs: dict) -> dict | None:
    """Integers only (the spec's value algebra); None if an observed value is not integral."""
    q = obs["q"]
    kinds = set(q["kinds"].values())
    out = {k: obs[k] for k in ("ids", "vars", "pars", "der", "rxn", "ro", "sur", "data")}
    if kinds == {"ok"}:
        def ints(d):
            r = {}
            for k, v in d.items():
                if abs(v - round(v)) > 1e-9 or abs(v) > 2**30:
                    raise ValueError
                r[k] = int(round(v))
            return r

        try:
            out["q"] = {"kind": "ok", "args": ints(q["args"]), "init": ints(q["init"]), "parvals": ints(q["parvals"]),
                        "stoich": {v: ints(row) for v, row in q["stoich"].items() if row},
                        "rhs": [ints({"x": v})["x"] for v in q["rhs"]], "static": q["static"]}
        except ValueError:
            return None
    elif len(kinds) == 1:
        out["q"] = {"kind": kinds.pop()}
    else:
        # entry points disagree on the class: record the first non-ok so that TLC rejects if ok was expected
        bad = sorted(k for k in kinds if k != "ok")
        out["q"] = {"kind": "mixed:" + "/".join(bad)}
    return out


def record_trace(args) -> dict | None:
    seed, tid = args
    rnd = random.Random(f"{seed}/trace/{tid}")
    from mxlpy import Model

    m = Model()
    events = []
    for _ in range(rnd.randint(6, 14)):
        op = rand_op(rnd, m)
        ok, _exc = apply_op(m, op)
        obs = _project_for_tlc(observe(m))
        if obs is None:
            break
        events.append({"op": op, "ok": ok, "obs": obs})
    if not events:
        return None
    start = {"vars": [], "init": {}, "pars": {}, "der": {}, "rxn": {}, "sur": {}, "ro": {}, "data": {}}
    return {"id": tid, "start": start, "events": events}


def corrupt(trace: dict, rnd: random.Random) -> dict | None:
    """Binding self-test: flip one recorded field; TLC must reject the result."""
    t = copy.deepcopy(trace)
    t["id"] = trace["id"] + 1_000_000
    idx = [j for j, e in enumerate(t["events"]) if e["ok"]]
    if not idx:
        return None
    j = rnd.choice(idx)
    t["events"][j]["ok"] = False
    return t


# ---------------------------------------------------------------------------------------------
def run(ctx: Ctx) -> int:
    rep = Report(ctx)
    rep.rule = ("spec->code: one case = (seed content, history of mutators) x replay mode hot/cold; code->spec: one "
                "case = one recorded random edit history; non-trivial = the history contains an accepted edit; "
                "distinct by (seed, ops, mode)")
    rep.assumptions = ["functions from FnLib; data sets represented by the sum of their entries",
                       "plural mutators = left-to-right composition stopping at the first rejection",
                       "no verdict on query answers for contents the specification cannot evaluate (a coefficient naming "
                       "a removed parameter): only ids/containers are compared there"]
    hs = []
    res = ctx.tlc("ModelEdit.tla", "ModelEdit_d1.cfg", raw_payloads=True)
    rep.add_tlc(res, "every mutator x 13 representative contents; OneNameSpace, StoichClosed, RejectedUnchanged")
    hs += res.payloads
    for cfgname in (["ModelEdit_vars2.cfg"] if ctx.quick else ["ModelEdit_vars2.cfg", "ModelEdit_vars3.cfg"]):
        res = ctx.tlc("ModelEdit.tla", cfgname, raw_payloads=True)
        rep.add_tlc(res, "all histories over the variable-only alphabet (declare / remove / remove keeping stoichiometries / "
                         "update / clamp) from contents with a reaction on two variables, one possibly not declared")
        hs += res.payloads
    n_d1 = len(hs)
    if ctx.quick:
        sims = [("ModelEdit_sim.cfg", 20, 8)]
    else:
        res = ctx.tlc("ModelEdit.tla", "ModelEdit_d2.cfg", raw_payloads=True)
        rep.add_tlc(res, "all histories of depth 2 (core alphabet) from 3 seed contents")
        hs += res.payloads
        sims = [("ModelEdit_sim.cfg", 1500, 8)]
    for cfg, num, workers in sims:
        res = ctx.tlc("ModelEdit.tla", cfg, simulate=f"num={num}", depth=14, seed=ctx.seed, workers=workers, raw_payloads=True)
        rep.add_tlc(res, "seeded -simulate histories of depth 12 (full alphabet)")
        hs += res.payloads
    if n_d1 < 5000 or len(hs) - n_d1 < 100:
        raise MachineryError(f"too few histories: depth-1 {n_d1}, others {len(hs) - n_d1}")
    rep.notes["histories_depth1"] = n_d1
    rep.notes["histories_deeper"] = len(hs) - n_d1
    rep.exhaustive = False
    results = pmap(_replay_raw, hs, chunk=64)
    for hot, cold, accepted, key, h in results:
        for mode, bad in (("hot", hot), ("cold", cold)):
            rep.replayed += 1
            rep.evaluations += 1
            if accepted:
                rep.distinct.add((key, mode))
            if bad is not None:
                rep.mismatch({"history": h, "mode": mode}, bad, classify(h, bad, mode))
    from ..tlc import decode_payload

    for raw in hs[:: max(1, len(hs) // 3)][:3]:
        h = decode_payload(raw)
        rep.sample({"seed": h["seed"], "ops": [s["op"] for s in h["hist"]], "accepted": [s["ok"] for s in h["hist"]]})
    # ---- code -> spec ---------------------------------------------------------------------------
    ntr = 600 if ctx.quick else 8000
    traces = [t for t in pmap(record_trace, [(ctx.seed, j) for j in range(ntr)], chunk=32) if t]
    rnd = random.Random(ctx.seed)
    corrupted = [c for c in (corrupt(t, rnd) for t in traces[:40]) if c]
    by_id = {t["id"]: t for t in traces + corrupted}
    reached = {}
    why = {}
    batch = 2000
    allt = traces + corrupted
    for lo in range(0, len(allt), batch):
        tf = ctx.work / f"traces_{lo}.json"
        tf.write_text(json.dumps(allt[lo:lo + batch]))
        res = ctx.tlc("ModelEditTrace.tla", "ModelEditTrace.cfg", tag=f"trace{lo}", env={"TRACE_FILE": str(tf)}, workers=1)
        rep.add_tlc(res, "trace validation of recorded random edit histories (Eff/Obs of ModelEdit)")
        for p in res.payloads:
            if p["l"] >= reached.get(p["id"], 0):
                reached[p["id"]] = p["l"]
                why[p["id"]] = p["why"]
    n_acc = 0
    for t in traces:
        l = reached.get(t["id"], 0)
        rep.evaluations += 1
        rep.distinct.add(("trace", t["id"]))
        if l == len(t["events"]) + 1:
            rep.traces += 1
            n_acc += 1
        else:
            ev = t["events"][l - 1] if l >= 1 else None
            h = {"seed": "trace", "start": t["start"], "startobs": None,
                 "hist": [{"op": e["op"], "ok": e["ok"], "obs": e["obs"]} for e in t["events"][:l]]}
            bad = {"what": "trace rejected by TLC", "refused_clause": why.get(t["id"]), "step": l,
                   "op": ev["op"] if ev else None,
                   "recorded_accepted": ev["ok"] if ev else None, "recorded_obs": ev["obs"] if ev else None}
            rep.mismatch({"trace": t}, bad, classify_trace(t, l, why.get(t["id"])))
    rej = sum(1 for c in corrupted if reached.get(c["id"], 0) != len(c["events"]) + 1)
    if rej != len(corrupted):
        raise MachineryError(f"binding self-test failed: {len(corrupted) - rej} corrupted traces were accepted by TLC")
    rep.notes["corrupted_traces_rejected"] = rej
    rep.notes["recorded_traces"] = len(traces)
    return rep.finish()


def classify_trace(t: dict, l: int, why: str | None) -> str | None:
    """Finding key for a rejected recorded trace: shape of the event TLC refused."""
    if l < 1 or l > len(t["events"]):
        return None
    e = t["events"][l - 1]
    op = e["op"]
    o = op["op"]
    prev_ids = t["events"][l - 2]["obs"]["ids"] if l >= 2 else {}
    ids = e["obs"]["ids"]
    n = op.get("n")
    if o.startswith("remove_") and not e["ok"] and n in prev_ids and n not in ids:
        return "remove-other-kind"
    if o == "add_surrogate" and not e["ok"] and ids != prev_ids:
        return "add-surrogate-partial"
    if o == "update_data" and e["ok"] and prev_ids.get(n) != "data":
        return "update-data-unknown"
    if o == "make_parameter_dynamic" and not e["ok"] and ids != prev_ids:
        return "make-parameter-dynamic-partial"
    if o == "update_surrogate" and not op["keepouts"]:
        return "update-surrogate-outputs"
    if o in NOINVAL and e["ok"] and why == "query":
        return f"no-invalidate:{o}"
    return None


def replay(ctx: Ctx, doc: dict) -> int:
    scn = doc["scenario"]
    if "history" in scn:
        bad = replay_history(scn["history"], scn["mode"])
        print(json.dumps({"disagreement": bad}, indent=1, default=str))
        if bad:
            print("VIOLATION property=C03 replay=(given)")
            return 1
        print("conforms")
        return 0
    # a recorded trace: re-record with the same seed is not meaningful; re-validate the stored trace's ops
    t = scn["trace"]
    from mxlpy import Model

    m = Model()
    for j, e in enumerate(t["events"], start=1):
        ok, exc = apply_op(m, e["op"])
        print(j, e["op"], "accepted" if ok else f"rejected ({exc})", dict(m.ids))
    print("(re-run ./check C03 to have TLC validate freshly recorded traces)")
    return 0
