INIT Init
NEXT Next
INVARIANT Judge
