\* C19: implementation-shaped wrong instance "lossy file names" (sibling keys share one result file): must VIOLATE RightResults
CONSTANTS
    NKeys = 2
    W = 1
    L = 1
    Design = "temp"
    Policy = "trust"
    RenameAt = "closed"
    BypassOne = FALSE
    MkdirAtBuild = FALSE
    Recover = FALSE
    Forwards = TRUE
    MaxDrop = 0
    LossyNames = TRUE
    Memo = FALSE
    MaxClear = 1
    MaxExtra = 1
    MaxCrash = 0
    Fifo = TRUE
    EmitOn = FALSE
INIT Init
NEXT Next
INVARIANT TypeOK
INVARIANT RightResults
CHECK_DEADLOCK TRUE
