\* C18 procedure machine: the pinned mca.py shape (supplied initial values never taken back), sequential: InitsRestored must fail
CONSTANTS
    Mode = "seq"
    RestorePars = TRUE
    RestoreY0 = FALSE
    Cyclic = FALSE
    EarlyRestoreY0 = FALSE
INIT Init
NEXT Next
INVARIANT InitsRestored
CHECK_DEADLOCK FALSE
