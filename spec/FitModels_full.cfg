\* C20 residual scenarios (thorough): chain of <= 3, <= 2 pools, one protocol pool
CONSTANTS
    Shapes = {"ss", "ssc", "tc", "ptc"}
    MaxChain = 3
    MaxPools = 2
    Rich = TRUE
    EmitOn = TRUE
INIT Init
NEXT Next
INVARIANT ZeroAtTruth
INVARIANT SymmetricAgree
INVARIANT Emit
CHECK_DEADLOCK FALSE
