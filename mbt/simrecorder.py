"""C04 / C14, code -> spec: the repository's own simulator tests run under a recorder.

Used as a pytest plugin (``pytest -p mbt.simrecorder`` with PYTHONPATH=/verif and SIMREC_OUT=<file>): the public
methods of mxlpy.Simulator are wrapped from outside (no repository hook), every outermost call is logged with its
arguments, whether it raised, and the resulting per-segment index and recorded parameter values.  ``convert``
turns one raw log (one Simulator instance) into a trace of spec/SimulatorTrace.tla: times as 1000 * integer ticks, at most two
parameters mapped onto the specification's (kin, kk) slots in sorted-name order, parameter changes between calls
(update_parameter(s), scale_parameter(s), direct model edits) as explicit "upd" events.  Logs the specification
cannot predict (steps=None: the integrator chooses the points; a non-integer linspace; more than two parameters)
are reported as not applicable, never as mismatches.  Only the bookkeeping is judged here (values of these tests'
models are not in the closed-form family).
"""

from __future__ import annotations

import functools
import json
import os

RAW: list = []
_STATE = {"test": None, "depth": 0}
WRAPPED = ["simulate", "simulate_time_course", "simulate_protocol", "simulate_protocol_time_course",
           "simulate_to_steady_state", "update_variable", "update_variables", "clear_results"]


def _snapshot(sim) -> dict:
    idx, pars = [], []
    if sim.variables is not None:
        idx = [[float(v) for v in df.index] for df in sim.variables]
    if sim.simulation_parameters is not None:
        pars = [{k: float(v) for k, v in p.items()} for p in sim.simulation_parameters]
    return {"index": idx, "pars": pars, "errors": len(sim._errors)}  # noqa: SLF001


def _jsonable_args(name: str, args, kwargs) -> dict:
    import numpy as np
    import pandas as pd

    out = {}
    names = {"simulate": ["t_end", "steps"], "simulate_time_course": ["time_points"],
             "simulate_protocol": ["protocol"], "simulate_protocol_time_course": ["protocol", "time_points"],
             "update_variable": ["variable", "value"], "update_variables": ["variables"]}.get(name, [])
    merged = dict(zip(names, args))
    merged.update(kwargs)
    for k, v in merged.items():
        if isinstance(v, pd.DataFrame):
            out[k] = {"index": [float(t) for t in v.index.total_seconds()],
                      "rows": [{c: float(x) for c, x in r.items()} for _, r in v.iterrows()]}
        elif isinstance(v, (list, tuple, np.ndarray, pd.Index)):
            out[k] = [float(x) for x in v]
        elif isinstance(v, dict):
            out[k] = {a: float(b) for a, b in v.items()}
        elif v is None or isinstance(v, (bool, str)):
            out[k] = v
        else:
            out[k] = float(v)
    return out


def _wrap(cls, name: str) -> None:
    orig = getattr(cls, name)

    @functools.wraps(orig)
    def wrapper(self, *args, **kwargs):
        rec = _LOGS.get(id(self))
        outer = _STATE["depth"] == 0 and rec is not None
        before = {k: float(v) for k, v in self.model.get_parameter_values().items()} if outer else None
        call_args = _jsonable_args(name, args, kwargs) if outer else None
        _STATE["depth"] += 1
        raised = False
        try:
            return orig(self, *args, **kwargs)
        except Exception:
            raised = True
            raise
        finally:
            _STATE["depth"] -= 1
            if outer:
                rec["calls"].append({"call": name, "args": call_args, "raised": raised, "pars_before": before,
                                     **_snapshot(self)})

    setattr(cls, name, wrapper)


_LOGS: dict = {}


def pytest_configure(config):  # noqa: ARG001
    from mxlpy.simulator import Simulator

    orig_init = Simulator.__init__

    @functools.wraps(orig_init)
    def init(self, *args, **kwargs):
        orig_init(self, *args, **kwargs)
        rec = {"test": _STATE["test"], "calls": [],
               "pars0": {k: float(v) for k, v in self.model.get_parameter_values().items()},
               "variables": list(self.model.get_variable_names())}
        _LOGS[id(self)] = rec
        RAW.append(rec)

    Simulator.__init__ = init
    for n in WRAPPED:
        _wrap(Simulator, n)


def pytest_runtest_setup(item):
    _STATE["test"] = item.nodeid
    _LOGS.clear()


def pytest_sessionfinish(session, exitstatus):  # noqa: ARG001
    out = os.environ.get("SIMREC_OUT")
    if out:
        with open(out, "w") as f:
            json.dump(RAW, f)


# ---- conversion of a raw log into a SimulatorTrace trace -----------------------------------------------------
PS = 1.0 / 64.0
TICKS = [1.0, 0.5, 0.25, 0.1, 0.05, 0.01]


class NotApplicable(Exception):
    pass


def _int(v: float, unit: float, what: str) -> int:
    q = v / unit
    r = round(q)
    if abs(q - r) > 1e-9 * max(1.0, abs(q)):
        raise NotApplicable(f"{what} {v} is not a multiple of {unit}")
    return int(r)


def _convert_with(raw: dict, tick: float) -> dict:
    names = sorted(raw["pars0"])
    if len(names) > 2:
        raise NotApplicable("more than two parameters")

    def slots(p: dict) -> dict:
        vals = [_int(p[n], PS, "parameter value") for n in names] + [0, 0]
        return {"kin": vals[0], "kk": vals[1]}

    cur = dict(raw["pars0"])
    ev = []
    last_segs: list = []

    def upd_events(new: dict):
        for i, n in enumerate(names):
            if new[n] != cur[n]:
                ev.append({"op": {"k": "upd", "name": "kin" if i == 0 else "k", "v": _int(new[n], PS, "parameter value")},
                           "raised": False, "segs": last_segs, "err": not last_segs, "vread": False, "views": []})
                cur[n] = new[n]

    for c in raw["calls"]:
        upd_events(c["pars_before"])
        now = last_segs[-1]["times"][-1] if last_segs else 0
        a = c["args"]
        name = c["call"]
        if name == "simulate":
            if a.get("steps") is None:
                raise NotApplicable("steps=None: the integrator chooses the points")
            te, n = 1000 * _int(a["t_end"], tick, "t_end"), int(a["steps"])
            if te > now and ((te - now) // 1000) % n != 0:
                raise NotApplicable("linspace off the tick grid")
            op = {"k": "sim", "te": te, "n": n}
        elif name == "simulate_time_course":
            op = {"k": "tc", "pts": [1000 * _int(v, tick, "time point") for v in a["time_points"]]}
        elif name in ("simulate_protocol", "simulate_protocol_time_course"):
            prot = a["protocol"]
            steps, prev, full = [], 0.0, dict(cur)
            for t, row in zip(prot["index"], prot["rows"]):
                if any(k not in full for k in row):
                    raise NotApplicable("protocol names something that is not a parameter")
                full = {**full, **row}
                steps.append({"d": _int(t - prev, tick, "step duration"), "p": slots(full)})
                prev = t
            if name == "simulate_protocol":
                n = int(a.get("time_points_per_step", 10))
                if any(s["d"] % n for s in steps):
                    raise NotApplicable("linspace off the tick grid")
                op = {"k": "proto", "steps": steps, "n": n}
            else:
                rel = bool(a.get("time_points_as_relative", False))
                op = {"k": "ptc", "steps": steps, "pts": [1000 * _int(v, tick, "time point") for v in a["time_points"]],
                      "rel": rel}
            if not c["raised"]:
                cur.update(full)      # what the specification expects the model to hold now
        elif name in ("update_variable", "update_variables"):
            op = {"k": "ov", "v": 0}
        elif name == "simulate_to_steady_state":
            op = {"k": "ss", "tau": 0}
        elif name == "clear_results":
            op = {"k": "clear"}
        else:  # pragma: no cover
            raise NotApplicable(f"unknown call {name}")
        if c["errors"]:
            raise NotApplicable("integration failure recorded (error plumbing is not C04's subject)")
        segs = []
        for idx, p in zip(c["index"], c["pars"], strict=True):
            segs.append({"times": [1000 * _int(v, tick, "result time") for v in idx], **slots(p)})
        if op["k"] == "ss":
            op["tau"] = segs[-1]["times"][-1] if (segs and not c["raised"]) else 0
        ev.append({"op": op, "raised": c["raised"], "segs": segs, "err": not segs, "vread": False, "views": []})
        last_segs = segs
    return {"ev": ev, "p0": slots(raw["pars0"]), "test": raw["test"], "tick": tick}


def convert(raw: dict) -> tuple[dict | None, str | None]:
    """(trace, None) or (None, reason it is not applicable)."""
    if not raw["calls"]:
        return None, "no calls"
    reason = None
    for tick in TICKS:
        try:
            return _convert_with(raw, tick), None
        except NotApplicable as e:
            reason = str(e)
            if "tick" not in reason and "multiple" not in reason:
                break
    return None, reason
