\* C15, second limit of the criterion itself: a network that accumulates by less than the tolerance per loop step
\* (x' = c with 100 c < tol) satisfies ||y2 - y1|| < tol at the first step.  TLC must find this; the claim is
\* stated for accumulation of at least the tolerance per step (cases within a factor 10 are fragile).
CONSTANTS
    MaxSteps = 1000
    Loop = "copy"
    Family = "slowaccum"
    Tier = "quick"
    NanRule = "notconverged"
    FluxRule = "segment"
    ScanNorm = "asked"
    Reporter = "contract"
    EmitOn = FALSE
INIT Init
NEXT Next
INVARIANT AccumFails
CHECK_DEADLOCK FALSE
