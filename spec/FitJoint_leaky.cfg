\* C20 joint fits: the loop-carried default (an override leaks into the following experiments): OrderFree must fail
CONSTANTS
    Kinds = {"tc", "ptc", "ssc"}
    NExp = 2
    SettingsRule = "leaky"
    Rich = FALSE
    EmitOn = FALSE
INIT Init
NEXT Next
INVARIANT OrderFree
CHECK_DEADLOCK FALSE
