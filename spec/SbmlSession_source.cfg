\* C17 sessions (wrong instance "source shared by stem"): the generated source file is keyed by the sanitised stem; TLC must report ReadAlone violated (Read d1, Read d2, Export d1)
CONSTANTS
    Docs = {1, 2, 3, 4}
    MaxOps = 4
    Registry = "source"
    RewriteDocs = {1}
    EmitOn = FALSE
INIT Init
NEXT Next
INVARIANT ReadAlone
INVARIANT Emit
CHECK_DEADLOCK FALSE
