"""C13 -- initial assignments resolve once at t=0; derived parameters are state-free.

spec      : spec/MxlModel.tla (InitEnv, Static, Frozen, ArgsAt), spec/ModelEval.tla (family; theorems
            StaticIsReachability, FrozenIsConstant, InitConsistent)
spec->code: get_initial_conditions, get_parameter_values, derived parameter / variable names, the full table at
            states != initial and t != 0 (frozen versus recomputed), Simulator(model).y0
"""

from __future__ import annotations

from ..core import Ctx
from . import modeleval

RULE = ("one case = one finished model of the ModelEval family (initial assignments on parameters and variables "
        "chained through derived quantities, rates, surrogate outputs); non-trivial = some component's arguments name "
        "another component; distinct by content")


def run(ctx: Ctx) -> int:
    return modeleval.run_family(ctx, "C13", modeleval.observe_c13, RULE)


def replay(ctx: Ctx, doc: dict) -> int:
    return modeleval.replay_one(doc, modeleval.observe_c13, "C13")
