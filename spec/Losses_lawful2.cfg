\* C20: the five lawful shipped losses satisfy both laws in both argument orientations (lengths 1..2, full grid with a negative value)
CONSTANTS
    LossNames = {"mean_squared", "rmse", "mae", "mean_absolute_percentage", "mean_squared_logarithmic"}
    Orients = {"pd", "dp"}
    N = 2
    Grid = "full"
    EmitOn = FALSE
INIT Init
NEXT Next
INVARIANT Law1
INVARIANT Law2
INVARIANT Law3Wired
INVARIANT Witness
INVARIANT CexEmit
CHECK_DEADLOCK FALSE
