\* E02 gen: seeded random pairs, |h1| = 1, |h2| = 1, chain and fork
CONSTANTS
    Depth = 0
    Seeds = {"full", "sur", "dataia", "iav", "lin1"}
    OpSet = "all"
    EmitOn = TRUE
    Variant = "doc"
    L1 = 1
    L2 = 1
    Modes = {"chain", "fork"}
    Exact = TRUE
    Heavy = {}
INIT DInit
NEXT DNext
INVARIANT DEmit
CHECK_DEADLOCK FALSE
