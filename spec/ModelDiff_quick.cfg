\* E02 mc (quick): every pair with |h1| <= 1, |h2| <= 1, both modes, over the menu DOps; all laws
CONSTANTS
    Depth = 0
    Seeds = {"full", "sur"}
    OpSet = "all"
    EmitOn = FALSE
    Variant = "doc"
    L1 = 1
    L2 = 1
    Modes = {"chain", "fork"}
    Exact = FALSE
    Heavy = {}
INIT DInit
NEXT DNext
INVARIANT SelfEmpty
INVARIANT TwoWayEmptyIffAgree
INVARIANT OneSided
INVARIANT Swapped
INVARIANT SoftEqLaws
INVARIANT SoftLibGap
INVARIANT SingleEditLaw
INVARIANT ReportLaws
INVARIANT CompareLaws
CHECK_DEADLOCK FALSE
