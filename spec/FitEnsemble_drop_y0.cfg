\* C20 ensemble / carousel fits: a wrapper that does not pass `y0` on: Forwards must fail
CONSTANTS
    Kinds = {"tc", "ptc", "ssc"}
    Dropped = "y0"
    EmitOn = FALSE
INIT Init
NEXT Next
INVARIANT Forwards
CHECK_DEADLOCK FALSE
