\* C06 full grammar, sampled with -simulate (quick and thorough tiers; num/depth/seed set by the harness)
CHECK_DEADLOCK FALSE
INIT Init
NEXT Next
CONSTANTS
    Arities = {1, 2, 3}
    Locals = {"y", "z"}
    NumLits = {0, 1, 2}
    ConstNames = {"K", "H"}
    UnOn = {"neg", "abs"}
    BinOn = {"add", "sub", "mul", "div", "pow", "floordiv", "mod", "min", "max"}
    CmpOn = {"lt", "le", "gt", "ge", "eq", "ne"}
    Chains = TRUE
    BoolOn = {"and", "or", "not"}
    IteOn = TRUE
    CallOn = {"sub2", "subxy", "ratio", "pick", "loc", "nest", "kmul", "dflt"}
    ScopeModes = {"plain", "import", "closure", "both"}
    CallModes = {"pos", "kw", "kwrev", "mix", "def", "defkw"}
    AugOn = {"add", "mul"}
    PassOn = TRUE
    AnnOn = TRUE
    ChainOn = TRUE
    LoopOn = TRUE
    MaxToks = 100
    MinStmts = 3
    MaxStmts = 4
    MaxDepth = 2
    MaxNest = 2
    Sim = TRUE
    EqOk = TRUE
    CheckPW = TRUE
    EmitOn = TRUE
INVARIANTS EmitLib PWTheorem LibTheorem WellFormedAlways
