\* all 32768 graphs over 3 single-output components, all 6 orders
CONSTANTS
    Comps = {"a", "b", "c"}
    MaxReq = 5
    Shortcut = "raise"
    EmitOn = TRUE
INIT Init
NEXT Next
INVARIANT OkIsRight
INVARIANT MissingIsRight
INVARIANT CircularIsRight
INVARIANT Bounded
INVARIANT Emit
CHECK_DEADLOCK FALSE
