"""Helpers shared by the SBML checks C08 (spec/SbmlRoundTrip.tla) and C17 (spec/SbmlDoc.tla).

* isolation: ``sbml.read`` writes a generated module to ``Path.home()/.cache/mxlpy/<stem>.py`` and registers it in
  ``sys.modules`` under that stem.  ``isolate_home`` points HOME into the check's scratch directory, every scenario
  uses its own file stem.
* spec content -> real model: the functions of a model are ``[params, e]`` records (e an Expr.tla AST); they are
  rendered with mbt/render.py into one module file per scenario (``inspect.getsource`` needs real files).
* spec document -> SBML file through libsbml's writer API (C17): ``write_doc``.
* comparison of a model's answers with the specification's tables.
"""

from __future__ import annotations

import keyword
import math
import os
from fractions import Fraction
from pathlib import Path

from . import render
from .render import SKIP, UNDEF, Style, from_json_value
from .tlc import fn_to_dict

STYLE = Style(const_prefix="math.")      # Const("pi") -> math.pi
HELPERS = {"hlp": {"params": ["a", "b"], "body": [{"k": "ret", "e": {"k": "sub", "a": {"k": "var", "name": "a"},
                                                                    "b": {"k": "var", "name": "b"}}}]}}


def isolate_home(work: Path) -> Path:
    home = work / "home"
    (home / ".cache" / "mxlpy").mkdir(parents=True, exist_ok=True)
    os.environ["HOME"] = str(home)
    return home


# ---- names ---------------------------------------------------------------------------------------------
def needs_escape(name: str) -> bool:
    """The name cannot be used verbatim as SBML id *and* Python identifier (shape classifier for C08)."""
    return not (name.isidentifier() and not keyword.iskeyword(name) and name[0].isalpha())


# ---- values ----------------------------------------------------------------------------------------------
def val(v):
    """TLC JSON value -> float | SKIP | UNDEF."""
    x = from_json_value(v)
    if x is SKIP or x is UNDEF:
        return x
    return float(x)


def frac(v) -> Fraction:
    x = from_json_value(v)
    assert isinstance(x, Fraction), v
    return x


def table(t) -> dict:
    return {k: val(v) for k, v in fn_to_dict(t).items()}


def close(a, b, tol=1e-9) -> bool:
    try:
        a = float(a)
        b = float(b)
    except (TypeError, ValueError):
        return False
    if math.isnan(a) or math.isnan(b) or math.isinf(a) or math.isinf(b):
        return False
    return abs(a - b) <= tol * max(1.0, abs(a), abs(b))


def finite(x) -> bool:
    try:
        x = float(x)
    except (TypeError, ValueError):
        return False
    return not (math.isnan(x) or math.isinf(x))


# ---- content (MxlModel records with [params, e] functions) -------------------------------------------------
def norm_content(c: dict) -> dict:
    c = dict(c)
    for k in ("init", "pars", "der", "rxn"):
        c[k] = fn_to_dict(c.get(k, {}))
    for r in c["rxn"].values():
        r["st"] = fn_to_dict(r["st"])
    return c


def functions_of(c: dict) -> dict:
    """python function name -> {"params", "body"} for every function of the model (insertion order = use order)."""
    fns: dict = {}
    used_calls = False

    def add(tag: str, f: dict):
        fns[tag] = {"params": list(f["params"]), "body": [{"k": "ret", "e": f["e"]}]}

    for j, (n, v) in enumerate(c["init"].items()):
        if v["k"] == "ia":
            add(f"f_iv{j}", v["fn"])
    for j, (n, v) in enumerate(c["pars"].items()):
        if v["k"] == "ia":
            add(f"f_ip{j}", v["fn"])
    for j, (n, d) in enumerate(c["der"].items()):
        add(f"f_d{j}", d["fn"])
    for j, (n, r) in enumerate(c["rxn"].items()):
        add(f"f_r{j}", r["fn"])
        for m, (v, co) in enumerate(r["st"].items()):
            if co["k"] == "calc":
                add(f"f_r{j}_s{m}", co["fn"])
    del used_calls
    return fns


def build_model(c: dict, moddir: Path, modname: str):
    """Render the functions into ``moddir/modname.py`` and build the real model (declaration order: variables,
    parameters, derived, reactions)."""
    from mxlpy import Model
    from mxlpy.types import Derived, InitialAssignment

    fns = functions_of(c)
    src = render.module_src({**HELPERS, **fns}, style=STYLE)
    render.write_module(moddir, modname, src)
    mod = render.load_module(moddir, modname)
    m = Model()
    for j, (n, v) in enumerate(c["init"].items()):
        pass
    ivn = {n: j for j, n in enumerate(c["init"])}
    for n in c["vars"]:
        v = c["init"][n]
        if v["k"] == "ia":
            m.add_variable(n, InitialAssignment(fn=getattr(mod, f"f_iv{ivn[n]}"), args=list(v["args"])))
        else:
            m.add_variable(n, float(frac(v["v"])))
    for j, (n, v) in enumerate(c["pars"].items()):
        if v["k"] == "ia":
            m.add_parameter(n, InitialAssignment(fn=getattr(mod, f"f_ip{j}"), args=list(v["args"])))
        else:
            m.add_parameter(n, float(frac(v["v"])))
    for j, (n, d) in enumerate(c["der"].items()):
        m.add_derived(n, getattr(mod, f"f_d{j}"), args=list(d["args"]))
    for j, (n, r) in enumerate(c["rxn"].items()):
        st = {}
        for k, (v, co) in enumerate(r["st"].items()):
            if co["k"] == "num":
                st[v] = float(frac(co["v"]))
            elif co["fn"]["e"] == {"k": "var", "name": "a"} and len(co["args"]) == 1:
                st[v] = co["args"][0]        # the named form of the public API
            else:
                st[v] = Derived(fn=getattr(mod, f"f_r{j}_s{k}"), args=list(co["args"]))
        m.add_reaction(n, getattr(mod, f"f_r{j}"), args=list(r["args"]), stoichiometry=st)
    return m, src


def observe(m, names_y: list[str], y: dict, t: float) -> dict:
    """args / fluxes / rhs of a real model at (y, t) as plain dicts."""
    yy = {n: float(y[n]) for n in names_y}
    return {"args": {k: float(v) for k, v in m.get_args(yy, t).to_dict().items()},
            "fluxes": {k: float(v) for k, v in m.get_fluxes(yy, t).to_dict().items()},
            "rhs": {k: float(v) for k, v in m.get_right_hand_side(yy, t).to_dict().items()}}


def cmp_tables(expected: dict, observed: dict, what: str) -> dict | None:
    """Every expected name present with the expected number; extra names are allowed."""
    for n, v in expected.items():
        if n not in observed:
            return {"what": what, "name": n, "expected": v, "observed": "absent"}
        if not close(v, observed[n]):
            return {"what": what, "name": n, "expected": v, "observed": observed[n]}
    return None
