\* C18 procedure machine: closed loop, supplied initial values taken back BEFORE the reference steady state: ResultsRight must fail
CONSTANTS
    Mode = "seq"
    RestorePars = TRUE
    RestoreY0 = TRUE
    Cyclic = TRUE
    EarlyRestoreY0 = TRUE
INIT Init
NEXT Next
INVARIANT ResultsRight
CHECK_DEADLOCK FALSE
