---------------------------- MODULE ModelEval ----------------------------
(***************************************************************************)
(* C01 / C13 -- a family of model shapes, built component by component by  *)
(* actions (so that BFS shares the work between workers and -simulate can  *)
(* sample deep members), with the meaning of each finished model taken     *)
(* from MxlModel over the integer function library FnLib.                  *)
(*                                                                         *)
(* A behaviour = choose a skeleton (how many variables / derived /         *)
(* reactions / assignment-defined parameter / assignment-defined variable  *)
(* / two-output surrogate), then give every slot a function, arguments     *)
(* (any name of the final model, so chains, diamonds, forward references   *)
(* and cycles all occur) and, for fluxes, a stoichiometry from a menu with *)
(* numeric, named, parameter-computed and state-computed coefficients.     *)
(* The finished model is emitted with the values the specification         *)
(* predicts at three states/times for every observable of C01 and C13.     *)
(***************************************************************************)
EXTENDS Integers, Sequences, FiniteSets, TLC, Json, FnLib, DualLib

CONSTANTS
    MaxVars,        \* 1..MaxVars plain variables x, y, z
    MaxDer, MaxRxn, MaxIap, MaxIav, MaxSur, MaxRo,   \* max number of slots per kind (MaxRo: readouts)
    MaxComps,       \* bound on the total number of slots
    Fns,            \* function names offered to slots
    UseData,        \* TRUE: a data set "dat" (only usable through dsum)
    ForwardRefs,    \* TRUE: arguments may name any component of the final model (cycles occur);
                    \* FALSE: only components filled earlier, slots taken in a rotated/reversed order
    WithJac,        \* TRUE: also predict the exact Jacobian of the right-hand side (C12)
    EmitOn

M == INSTANCE MxlModel WITH Apply <- FApply, VAdd <- FAdd, VMul <- FMul, VZero <- 0
\* the same semantics over dual numbers <<value, derivative>>
MD == INSTANCE MxlModel WITH Apply <- DApply, VAdd <- DAdd, VMul <- DMul, VZero <- DConst(0)

VARIABLES c, slots, i, cur

vars == <<c, slots, i, cur>>
NoCall == [fn |-> "none", args |-> <<>>]

Kinds == {"der", "rxn", "iap", "iav", "sur", "ro"}
VarNames == <<"x", "y", "z">>
VarInit  == <<2, 3, 5>>                \* distinct primes: mixed-up arguments show in the result
NameOf(kind, j) ==
    CASE kind = "der" -> <<"d1", "d2", "d3", "d4">>[j]
      [] kind = "rxn" -> <<"r1", "r2", "r3", "r4">>[j]
      [] kind = "iap" -> <<"pa", "pb">>[j]
      [] kind = "iav" -> <<"xa", "xb">>[j]
      [] kind = "sur" -> <<"s", "u">>[j]
      [] kind = "ro"  -> <<"ro1", "ro2">>[j]
SurOuts(n) == IF n = "s" THEN <<"s1", "s2">> ELSE <<"u1", "u2">>

KindOrder == <<"der", "rxn", "iap", "iav", "sur", "ro">>

RECURSIVE SlotsFrom(_, _)
SlotsFrom(cnt, ki) ==
    IF ki > Len(KindOrder) THEN <<>>
    ELSE [j \in 1..cnt[KindOrder[ki]] |-> [kind |-> KindOrder[ki], name |-> NameOf(KindOrder[ki], j)]]
         \o SlotsFrom(cnt, ki + 1)

Total(cnt) == cnt["der"] + cnt["rxn"] + cnt["iap"] + cnt["iav"] + cnt["sur"] + cnt["ro"]

MaxCount == [der |-> MaxDer, rxn |-> MaxRxn, iap |-> MaxIap, iav |-> MaxIav, sur |-> MaxSur, ro |-> MaxRo]
Counts == {cnt \in [Kinds -> 0..3] :
              /\ \A k \in Kinds : cnt[k] <= MaxCount[k]
              /\ Total(cnt) <= MaxComps
              /\ cnt["rxn"] + cnt["sur"] >= 1}

Empty == [n \in {} |-> 0]

InitContent(nv) ==
    [vars |-> SubSeq(VarNames, 1, nv),
     init |-> [v \in {VarNames[j] : j \in 1..nv} |->
                 M!Num(VarInit[CHOOSE j \in 1..nv : VarNames[j] = v])],
     pars |-> [p \in {"p", "q"} |-> M!Num(IF p = "p" THEN 7 ELSE 11)],
     der  |-> Empty, rxn |-> Empty, sur |-> Empty, ro |-> Empty,
     data |-> IF UseData THEN [n \in {"dat"} |-> 13] ELSE Empty]

Init ==
    /\ \E nv \in 1..MaxVars, cnt \in Counts :
          /\ c = InitContent(nv)
          /\ LET base == SlotsFrom(cnt, 1)
                 n == Len(base)
             IN IF ForwardRefs THEN slots = base
                ELSE \E rot \in 0..(n - 1), rev \in BOOLEAN :
                        slots = [j \in 1..n |->
                                   LET m == ((j - 1 + rot) % n) + 1
                                   IN base[IF rev THEN n + 1 - m ELSE m]]
    /\ i = 1
    /\ cur = NoCall

\* every name the finished model will have
FinalVars == M!VarSet(c) \cup {slots[j].name : j \in {m \in DOMAIN slots : slots[m].kind = "iav"}}
Visible == IF ForwardRefs THEN DOMAIN slots ELSE 1..(i - 1)
Pool ==
    (IF ForwardRefs THEN FinalVars ELSE M!VarSet(c)) \cup {"p", "q", "time"}
    \cup {slots[j].name : j \in {m \in Visible : slots[m].kind \in {"der", "rxn", "iap"}}}
    \cup UNION {M!SeqRange(SurOuts(slots[j].name)) : j \in {m \in Visible : slots[m].kind = "sur"}}

\* stoichiometry menu for a flux: numeric / named / parameter-computed / state-computed / derived-computed
Calc(f, a) == [k |-> "calc", fn |-> f, args |-> a]
StMenu ==
    LET V == FinalVars
        x == "x"
        w == IF "y" \in V THEN "y" ELSE IF "xa" \in V THEN "xa" ELSE "x"
    IN {(x :> M!Num(0 - 1)),
        (w :> M!Num(2)),
        (x :> Calc("id", <<"p">>)),
        (w :> Calc("dbl", <<"q">>)),
        (x :> Calc("neg", <<x>>)),
        (w :> Calc("add", <<"time", w>>))}
       \cup (IF w # x THEN {(x :> M!Num(0 - 1)) @@ (w :> M!Num(1)),
                            (x :> Calc("mul", <<"p", w>>)) @@ (w :> M!Num(0 - 2)),
                            \* one flux, two variables, two different state- / time-dependent coefficients
                            (x :> Calc("neg", <<x>>)) @@ (w :> Calc("add", <<"time", w>>))} ELSE {})
       \cup (IF \E j \in DOMAIN slots : slots[j].kind = "der"
             THEN {(x :> Calc("id", <<"d1">>))} ELSE {})
       \* a computed coefficient whose function no translator can represent (only in families offering it)
       \cup (IF "loopinc" \in Fns THEN {(x :> Calc("loopinc", <<"q">>))} ELSE {})

Partner(f) == CASE FnArity[f] = 0 -> "two" [] FnArity[f] = 1 -> "inc" [] FnArity[f] = 2 -> "sub" [] OTHER -> "mad"

SurStMenu(n) ==
    LET o == SurOuts(n)
        w == IF "y" \in FinalVars THEN "y" ELSE "x"
    IN {Empty,
        (o[1] :> ("x" :> M!Num(1))),
        (o[1] :> ("x" :> M!Num(0 - 1))) @@ (o[2] :> (w :> Calc("id", <<"q">>))),
        \* state- and time-dependent coefficients on surrogate fluxes (they share a variable with the
        \* computed coefficients of reactions in StMenu)
        (o[1] :> ("x" :> Calc("neg", <<"x">>))) @@ (o[2] :> (w :> Calc("add", <<"time", w>>))),
        (o[2] :> ("x" :> Calc("mul", <<"p", "x">>)))}

\* a slot is filled in small steps (function, then one argument at a time, then commit with a
\* stoichiometry) so that -simulate never has to enumerate a large successor set
PickFn ==
    /\ i <= Len(slots) /\ cur.fn = "none"
    /\ \E f \in Fns :
          /\ (f = "dsum" => UseData /\ slots[i].kind \notin {"sur", "ro"})   \* data sets are not visible to readouts
          /\ cur' = [fn |-> f, args |-> <<>>]
    /\ UNCHANGED <<c, slots, i>>

\* a reaction that is the exact twin of an earlier one (same rate, same arguments, same stoichiometry): two
\* identical contributions to one derivative
Twin ==
    /\ i <= Len(slots) /\ cur.fn = "none" /\ slots[i].kind = "rxn" /\ DOMAIN c.rxn # {}
    /\ \E r \in DOMAIN c.rxn : c' = [c EXCEPT !.rxn = @ @@ (slots[i].name :> c.rxn[r])]
    /\ i' = i + 1
    /\ UNCHANGED <<slots, cur>>

PickArg ==
    /\ i <= Len(slots) /\ cur.fn # "none" /\ Len(cur.args) < FnArity[cur.fn]
    /\ \E a \in (IF cur.fn = "dsum" THEN {"dat"} ELSE Pool) : cur' = [cur EXCEPT !.args = Append(@, a)]
    /\ UNCHANGED <<c, slots, i>>

Commit ==
    /\ i <= Len(slots) /\ cur.fn # "none" /\ Len(cur.args) = FnArity[cur.fn]
    /\ LET s == slots[i] cl == cur IN
          \/ /\ s.kind = "der"
             /\ c' = [c EXCEPT !.der = @ @@ (s.name :> cl)]
          \/ /\ s.kind = "rxn"
             /\ \E st \in StMenu :
                   c' = [c EXCEPT !.rxn = @ @@ (s.name :> [fn |-> cl.fn, args |-> cl.args, st |-> st])]
          \/ /\ s.kind = "ro"          \* readouts are evaluated on demand, after everything else
             /\ c' = [c EXCEPT !.ro = @ @@ (s.name :> cl)]
          \/ /\ s.kind = "iap"
             /\ c' = [c EXCEPT !.pars = @ @@ (s.name :> [k |-> "ia", fn |-> cl.fn, args |-> cl.args])]
          \/ /\ s.kind = "iav"
             /\ \E front \in BOOLEAN :      \* declared before or after the variables with plain initial values
                   c' = [c EXCEPT !.vars = IF front THEN <<s.name>> \o @ ELSE Append(@, s.name),
                                  !.init = @ @@ (s.name :> [k |-> "ia", fn |-> cl.fn, args |-> cl.args])]
          \/ /\ s.kind = "sur"
             /\ \E st \in SurStMenu(s.name) :
                   c' = [c EXCEPT !.sur = @ @@ (s.name :>
                            [fns |-> <<cl.fn, Partner(cl.fn)>>, args |-> cl.args,
                             outs |-> SurOuts(s.name), st |-> st])]
    /\ i' = i + 1
    /\ cur' = NoCall
    /\ UNCHANGED slots

Next == PickFn \/ PickArg \/ Commit \/ Twin
Done == i > Len(slots)

(***************************************************************************)
(* Observation points and the predictions                                  *)
(***************************************************************************)
YAlt1 == <<3, 0, 1, 4, 6>>
YAlt2 == <<0, 0 - 4, 7, 0 - 1, 2>>      \* states may be negative: sign tests in rate laws see both sides
Points ==
    <<[y |-> M!InitialValues(c), t |-> 0, default |-> TRUE],
      [y |-> [v \in M!VarSet(c) |-> YAlt1[CHOOSE j \in DOMAIN c.vars : c.vars[j] = v]], t |-> 2, default |-> FALSE],
      [y |-> [v \in M!VarSet(c) |-> YAlt2[CHOOSE j \in DOMAIN c.vars : c.vars[j] = v]], t |-> 5, default |-> FALSE],
      \* the declared initial state at a later time: what the forms answer when the caller gives a time and no state
      [y |-> M!InitialValues(c), t |-> 3, default |-> FALSE]>>

\* exact Jacobian: entry [i][j] = d rhs_i / d var_j at (y, t), by seeding variable j with derivative 1
JacAt(cc, y, t) ==
    LET L == Lift(cc)
        col(j) == MD!Rhs(L, [v \in M!VarSet(cc) |-> Dual(y[v], IF v = cc.vars[j] THEN 1 ELSE 0)], DConst(t))
    IN [row \in DOMAIN cc.vars |-> [j \in DOMAIN cc.vars |-> col(j)[row][2]]]

PredictC(cc, p) ==
    [y |-> p.y, t |-> p.t, default |-> p.default,
     jac    |-> IF WithJac THEN JacAt(cc, p.y, p.t) ELSE <<>>,
     args   |-> [n \in M!Reported(cc) |-> M!ArgsAt(cc, p.y, p.t)[n]],
     ro     |-> M!Readouts(cc, M!ArgsAt(cc, p.y, p.t)),
     rhs    |-> M!Rhs(cc, p.y, p.t),
     fluxes |-> M!Fluxes(cc, p.y, p.t),
     stoich |-> M!Stoichiometry(cc, p.y, p.t)]
Predict(p) == PredictC(c, p)

\* the same model with parameter p set to 5 (used for "free parameters become extra inputs", C07)
AltContent == [c EXCEPT !.pars["p"] = M!Num(5)]

Scenario ==
    IF M!WellFormed(c)
    THEN [c |-> c, kinds |-> M!OutcomeKinds(c),
          init |-> M!InitialValues(c), parvals |-> M!ParameterValues(c),
          static |-> M!Static(c),
          dynder |-> DOMAIN c.der \ M!Static(c),
          surflux |-> M!SurFluxes(c),
          survars |-> UNION {M!SeqRange(c.sur[s].outs) : s \in DOMAIN c.sur} \ M!SurFluxes(c),
          pts |-> [j \in DOMAIN Points |-> Predict(Points[j])],
          pts_alt |-> [j \in 2..3 |-> PredictC(AltContent, Points[j])]]
    ELSE [c |-> c, kinds |-> M!OutcomeKinds(c)]

Emit == (EmitOn /\ Done) => PrintT("@J@" \o ToJson(Scenario) \o "@E@")

(***************************************************************************)
(* Theorems of the semantics, checked by TLC on every finished model       *)
(***************************************************************************)
WF == Done /\ M!WellFormed(c)

\* a derived quantity is a derived parameter exactly when no chain from it reaches a non-parameter
StaticIsReachability ==
    WF => \A d \in DOMAIN c.der : (d \in M!Static(c)) <=> ~M!ReachesNonPar(c, d, {d})

\* assignment-defined and derived parameters keep their value for every state and time
FrozenIsConstant ==
    WF => \A j \in DOMAIN Points : \A n \in DOMAIN M!Frozen(c) :
             M!ArgsAt(c, Points[j].y, Points[j].t)[n] = M!InitEnv(c)[n]

\* at the declared initial state and time 0 the table equals the one-pass evaluation
InitConsistent ==
    WF => \A n \in M!Reported(c) : M!ArgsAt(c, M!InitialValues(c), 0)[n] = M!InitEnv(c)[n]

\* re-declaring the variables in the reverse order permutes the derivative vector and nothing else
Rev == [j \in DOMAIN c.vars |-> Len(c.vars) + 1 - j]
OrderInvariant ==
    WF => \A j \in DOMAIN Points :
             LET p == Points[j]
                 r == M!Redeclare(c, Rev)
             IN /\ M!ArgsAt(r, p.y, p.t) = M!ArgsAt(c, p.y, p.t)
                /\ \A m \in DOMAIN c.vars : M!Rhs(r, p.y, p.t)[m] = M!Rhs(c, p.y, p.t)[Rev[m]]

\* the dual-number evaluation agrees with the plain one on values, and for models built from affine
\* functions with numeric coefficients the Jacobian equals the exact forward difference
AffineFns == {"one", "two", "id", "neg", "dbl", "inc", "add", "sub"}
AllAffine ==
    /\ \A d \in DOMAIN c.der : c.der[d].fn \in AffineFns
    /\ \A r \in DOMAIN c.rxn : c.rxn[r].fn \in AffineFns /\ \A v \in DOMAIN c.rxn[r].st : c.rxn[r].st[v].k = "num"
    /\ DOMAIN c.sur = {}
JacIsDerivative ==
    (WF /\ WithJac) => \A k \in DOMAIN Points :
        LET p == Points[k]
            L == Lift(c)
            plain == MD!Rhs(L, [v \in M!VarSet(c) |-> Dual(p.y[v], 0)], DConst(p.t))
        IN /\ \A row \in DOMAIN c.vars : plain[row][1] = M!Rhs(c, p.y, p.t)[row]
           /\ AllAffine => \A row, j \in DOMAIN c.vars :
                  JacAt(c, p.y, p.t)[row][j] =
                     M!Rhs(c, [v \in M!VarSet(c) |-> IF v = c.vars[j] THEN p.y[v] + 1 ELSE p.y[v]], p.t)[row]
                     - M!Rhs(c, p.y, p.t)[row]

\* untouched variables have derivative 0
UntouchedZero ==
    WF => \A j \in DOMAIN Points : \A m \in DOMAIN c.vars :
             (\A f \in M!FluxNames(c) : c.vars[m] \notin DOMAIN M!StoichOf(c, f))
                 => M!Rhs(c, Points[j].y, Points[j].t)[m] = 0
=============================================================================
