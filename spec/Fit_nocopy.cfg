\* C20 Fit machine: without the copy the caller's model holds the last candidate: SparedAnyway must fail (InputSpared is silent)
CONSTANTS
    Points = {1, 2, 3}
    LossVals = {0, 10, 20}
    MaxEvals = 3
    Reporter = "best"
    Copy = FALSE
    Generated = TRUE
INIT Init
NEXT Next
INVARIANT InputSpared
INVARIANT SparedAnyway
CHECK_DEADLOCK FALSE
