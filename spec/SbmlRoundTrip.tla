---------------------------- MODULE SbmlRoundTrip ----------------------------
(***************************************************************************)
(* C08 -- SBML export then import reproduces the model, or export fails.   *)
(*                                                                         *)
(* A family of surrogate-free models (content and meaning: MxlModel, over  *)
(* exact rationals) whose functions are single-expression bodies           *)
(* `return e`, e an expression of module Expr.  A behaviour builds one     *)
(* model, slot by slot, in small steps (so that BFS shares the work and    *)
(* -simulate samples deep members):                                        *)
(*   Init          skeleton (how many variables / derived / reactions /    *)
(*                 assignment-defined parameter / assignment-defined       *)
(*                 variable), order of the slots, NAMING SCHEME            *)
(*   Expand        the slot's expression grows top-down, one AST node per  *)
(*                 step, prefix order, over the formal parameters a, b, c: *)
(*                 literals (naturals, 1/2), math.pi, unary - / abs,       *)
(*                 + - * / ** // %, min / max, comparisons incl. chains,   *)
(*                 and / or / not, conditional expressions, mathematical   *)
(*                 functions (opaque terms), calls of a user function      *)
(*   PickArg       one model name per formal parameter that occurs (any    *)
(*                 name declared so far: permuted, repeated, `time`,       *)
(*                 derived quantities, reaction rates)                     *)
(*   Reuse/UseLib  instead: the slot takes the FUNCTION of an earlier      *)
(*                 component, or one of two asymmetric library functions,  *)
(*                 applied to its base arguments in another order (one     *)
(*                 Python function shared by several components)           *)
(*   UseBody       instead: a MULTI-STATEMENT library body (early-return   *)
(*                 guard, local assignment named like a model component,   *)
(*                 if/else returning twice, code after an if): not         *)
(*                 exportable - write must raise, or the re-import must    *)
(*                 equal Run(body)                                         *)
(*   Commit        the slot enters the model; a reaction also takes a      *)
(*                 stoichiometry from a menu with numeric, fractional and  *)
(*                 COMPUTED coefficients of either sign (parameter-, state-*)
(*                 and derived-dependent, sign-changing, named)            *)
(* The model is built over canonical names (x, y, z, p, q, d1, r1 ...);    *)
(* the naming scheme maps them to the names the real model uses: plain,    *)
(* names of sympy / Python objects (S, E, I, beta, lambda_ ...), the       *)
(* function's own formal parameter names, names that need escaping in an   *)
(* SBML id (a.b, x-1, 2x, lambda, _d), names of the helper patterns the    *)
(* exporter / importer generate (xref, init_pa, r1_stoich_x, and K - also  *)
(* a module-level constant of the functions), names the importer reserves  *)
(* (compartment, x_amount).  RenameInvariant (TLC-checked): the meaning of *)
(* a model does not depend on the scheme.                                  *)
(*                                                                         *)
(* For every finished model the specification fixes                        *)
(*   - names and kinds of all components (what must be present after the   *)
(*     round trip, under these names);                                     *)
(*   - initial values, parameter values, and at three states the full      *)
(*     table of values (ArgsAt), the fluxes and the derivatives (Rhs), in  *)
(*     exact rationals (Skip where an opaque function / math.pi / a        *)
(*     magnitude guard makes the specification decline: the harness then   *)
(*     takes the ORIGINAL model's number - the property compares the two   *)
(*     models);                                                            *)
(*   - Exportable: every function stays inside what an SBML document can   *)
(*     say with the exporter's vocabulary (no call of a user function, no  *)
(*     Python % or // whose sign conventions MathML rem / quotient do not  *)
(*     share);  MustExport: only constructs the property's statement lists *)
(*     by name (arithmetic, comparisons incl. chained, conditional         *)
(*     expressions, exp/log/sqrt/sin/cos, any coefficient, initial         *)
(*     assignments, any name) - for these a refusal is a violation, too.   *)
(*     TLC checks that both predicates are closed under sub-expressions    *)
(*     and MustExport => Exportable.                                       *)
(* Verdict rule used by the replayer (mbt/props/c08.py): `write` raising   *)
(* is acceptable unless MustExport; a written file must be readable and    *)
(* the re-imported model must contain every original component under its   *)
(* name and kind and reproduce every predicted number.                     *)
(*                                                                         *)
(* PinnedAgrees is the implementation-shaped WRONG instance (the exporter  *)
(* of the pinned commit: a computed coefficient is always written as a     *)
(* reactant, a chained comparison keeps its first link): TLC must find a   *)
(* member of the family on which it changes a derivative (teeth).          *)
(***************************************************************************)
EXTENDS Piecewise, TLC, Json

CONSTANTS
    MaxVars,        \* 1..MaxVars plain variables x, y, z
    MaxDer, MaxRxn, MaxIap, MaxIav,   \* max number of slots per kind
    MaxComps,       \* bound on the total number of slots
    NumLits,        \* natural numbers offered as literals
    Half,           \* TRUE: the literal 1/2
    UnOn, BinOn,    \* unary (neg, abs) and binary (BinOps + min, max) operators offered
    CmpOn,          \* comparison operators offered
    Chains,         \* TRUE: chained comparisons
    BoolOn,         \* subset of {"and", "or", "not"}
    IteOn,          \* TRUE: conditional expressions
    FnOn,           \* mathematical functions offered (opaque for the specification)
    CallOn,         \* TRUE: calls of the user function hlp(a, b) = a - b
    PiOn,           \* TRUE: math.pi
    MaxDepth, MaxToks,
    NFormals,       \* number of formal parameter names offered to expressions (a, b, c)
    Schemes,        \* naming schemes offered
    Pinned,         \* TRUE: PinnedAgrees is evaluated (it is expected to be violated)
    EmitOn

VARIABLES c, slots, i, toks, todo, args, scheme

vars == <<c, slots, i, toks, todo, args, scheme>>

\* ---- the value algebra of MxlModel: exact rationals, functions = single-expression bodies ----------
A == Var("a")  B == Var("b")
\* math.pi is a named constant whose value the specification declines to compute (Skip)
\* K and BIG are MODULE-LEVEL constants of the Python module the functions live in (K = 3; BIG = 10^10, an integer
\* literal beyond 32 bits, too large for Rat: Skip); `floor` is a USER function of that module that merely has the
\* name of a mathematical function (floor(a) = a + 1).
FT == [hlp |-> FnDef(<<"a", "b">>, <<Ret(Bin("sub", A, B))>>), pi |-> ConstDef(Skip),
       K |-> ConstDef(RFromInt(3)), BIG |-> ConstDef(Skip), NEG |-> ConstDef(Skip),   \* NEG = -5 * 10^9
       floor |-> FnDef(<<"a">>, <<Ret(Bin("add", A, Num(1)))>>)]
AllParams == <<"a", "b", "c">>

\* A function is [params, e, body]: body is what Python runs (statements of module PyFn), e is the same meaning as ONE
\* expression.  For the single-expression functions body = <<Ret(e)>>; for the multi-statement library bodies e is the
\* reference translation of module Piecewise (path conditions, locals substituted); BodyAgrees (TLC-checked) ties them.
FnRec(params, e) == [params |-> params, e |-> e, body |-> <<Ret(e)>>]
BodyRec(params, body) == [params |-> params, e |-> PWExpr(ToPW(params, body, RefMode)), body |-> body]
SingleExpr(f) == f.body = <<Ret(f.e)>>
ParamsOf(e) == SelectSeq(AllParams, LAMBDA p : p \in FreeVars(e))
FnOf(e) == FnRec(ParamsOf(e), e)

XApply(fn, vals) ==
    LET r == Run(fn.body, ArgEnv(fn.params, vals), FT)
    IN IF r.st = "ret" THEN (IF IsBoolV(r.v) THEN Skip ELSE r.v) ELSE IF r.st = "skip" THEN Skip ELSE Undef

\* MxlModel sums the flux terms of a variable by folding over the SET of flux names.  RAdd is strict, left operand
\* first, so which non-number a sum with two bad terms yields would depend on the traversal order, i.e. on the names.
\* CAdd is commutative on the non-numbers: an undefined term makes the sum undefined whatever else is declined.
CAdd(a, b) == IF a = Undef \/ b = Undef THEN Undef ELSE IF Bad(a) THEN a ELSE IF Bad(b) THEN b ELSE RAdd(a, b)

M == INSTANCE MxlModel WITH Apply <- XApply, VAdd <- CAdd, VMul <- RMul, VZero <- Zero

\* ---- skeleton --------------------------------------------------------------------------------
Kinds == {"der", "rxn", "iap", "iav"}
VarNames == <<"x", "y", "z">>
VarInit  == <<RFromInt(2), RFromInt(3), R(1, 2)>>
ParInit  == [p |-> RFromInt(3), q |-> R(1, 2)]
NameOf(kind, j) ==
    CASE kind = "der" -> <<"d1", "d2", "d3">>[j]
      [] kind = "rxn" -> <<"r1", "r2", "r3">>[j]
      [] kind = "iap" -> <<"pa", "pb">>[j]
      [] kind = "iav" -> <<"xa", "xb">>[j]
KindOrder == <<"der", "rxn", "iap", "iav">>

RECURSIVE SlotsFrom(_, _)
SlotsFrom(cnt, ki) ==
    IF ki > Len(KindOrder) THEN <<>>
    ELSE [j \in 1..cnt[KindOrder[ki]] |-> [kind |-> KindOrder[ki], name |-> NameOf(KindOrder[ki], j)]]
         \o SlotsFrom(cnt, ki + 1)

Total(cnt) == cnt["der"] + cnt["rxn"] + cnt["iap"] + cnt["iav"]
MaxCount == [der |-> MaxDer, rxn |-> MaxRxn, iap |-> MaxIap, iav |-> MaxIav]
Counts == {cnt \in [Kinds -> 0..3] :
              /\ \A k \in Kinds : cnt[k] <= MaxCount[k]
              /\ Total(cnt) <= MaxComps
              /\ cnt["rxn"] >= 1}

Empty == [n \in {} |-> 0]

InitContent(nv) ==
    [vars |-> SubSeq(VarNames, 1, nv),
     init |-> [v \in {VarNames[j] : j \in 1..nv} |-> M!Num(VarInit[CHOOSE j \in 1..nv : VarNames[j] = v])],
     pars |-> [p \in {"p", "q"} |-> M!Num(ParInit[p])],
     der  |-> Empty, rxn |-> Empty, sur |-> Empty, ro |-> Empty, data |-> Empty]

Open(t, d) == [t |-> t, d |-> d]
Fresh == <<Open("num", MaxDepth)>>

Init ==
    /\ \E nv \in 1..MaxVars, cnt \in Counts :
          /\ c = InitContent(nv)
          /\ LET base == SlotsFrom(cnt, 1)
                 n == Len(base)
             IN \E rot \in 0..(n - 1), rev \in BOOLEAN :
                   slots = [j \in 1..n |->
                              LET m == ((j - 1 + rot) % n) + 1 IN base[IF rev THEN n + 1 - m ELSE m]]
    /\ i = 1
    /\ toks = <<>>
    /\ todo = Fresh
    /\ args = <<>>
    /\ scheme \in Schemes

Done == i > Len(slots)

\* names a function may be applied to: everything declared so far (no forward references, hence no cycles)
Pool ==
    M!VarSet(c) \cup {"p", "q", "time"}
    \cup {slots[j].name : j \in {m \in 1..(i - 1) : slots[m].kind \in {"der", "rxn", "iap"}}}

\* ---- expressions: top-down, one AST node per step, in prefix order --------------------------------
\* todo: the open nonterminals [t |-> "num" | "bool", d |-> remaining depth]; toks: the tokens so far.
\* A token is [k, s, s2, i, ar]: tag, string payloads (name / operator), integer payload, number of children.
Tok(k, s, s2, j, ar) == [k |-> k, s |-> s, s2 |-> s2, i |-> j, ar |-> ar]

NumAtoms == {Tok("var", AllParams[j], "", 0, 0) : j \in 1..NFormals} \cup {Tok("num", "", "", j, 0) : j \in NumLits}
            \cup (IF Half THEN {Tok("half", "", "", 0, 0)} ELSE {})
            \cup (IF PiOn THEN {Tok("const", "pi", "", 0, 0)} ELSE {})
NumOps == {Tok(op, "", "", 0, 1) : op \in UnOn} \cup {Tok(op, "", "", 0, 2) : op \in BinOn}
          \cup {Tok(op, "", "", 0, 3) : op \in BinOn \cap {"min", "max"}}          \* min / max are variadic
          \cup {Tok("fn", f, "", 0, 1) : f \in FnOn}
          \cup (IF CallOn THEN {Tok("call", "hlp", "", 0, 2)} ELSE {})
CmpToks == {Tok("cmp", op, "", 0, 2) : op \in CmpOn}
           \cup (IF Chains THEN {Tok("cmp", o1, o2, 0, 3) : o1 \in CmpOn, o2 \in CmpOn} ELSE {})
BoolToks == {Tok(op, "", "", 0, IF op = "not" THEN 1 ELSE 2) : op \in BoolOn}

Prods(o) ==
    IF o.t = "num"
    THEN NumAtoms \cup (IF o.d >= 1 THEN NumOps ELSE {})
         \cup (IF o.d >= 2 /\ IteOn THEN {Tok("ite", "", "", 0, 3)} ELSE {})
    ELSE CmpToks \cup (IF o.d >= 2 THEN BoolToks ELSE {})

Children(tk, o) ==
    IF tk.ar = 0 THEN <<>>
    ELSE IF tk.k = "ite" THEN <<Open("bool", o.d - 1), Open("num", o.d - 1), Open("num", o.d - 1)>>
    ELSE IF tk.k \in {"and", "or", "not"} THEN [j \in 1..tk.ar |-> Open("bool", o.d - 1)]
    ELSE [j \in 1..tk.ar |-> Open("num", o.d - 1)]

RECURSIVE NeedAll(_)
NeedAll(td) == IF td = <<>> THEN 0 ELSE (IF td[1].t = "num" THEN 1 ELSE 3) + NeedAll(Tail(td))

Expand ==
    /\ ~Done /\ todo # <<>>
    /\ \E tk \in Prods(todo[1]) :
          LET td == Children(tk, todo[1]) \o Tail(todo) IN
          /\ Len(toks) + 1 + NeedAll(td) <= MaxToks
          /\ toks' = Append(toks, tk)
          /\ todo' = td
    /\ UNCHANGED <<c, slots, i, args, scheme>>

RECURSIVE Parse(_, _)
Parse(ts, pos) ==
    LET tk == ts[pos] IN
    IF tk.ar = 0
    THEN [e |-> CASE tk.k = "var" -> Var(tk.s) [] tk.k = "num" -> Num(tk.i) [] tk.k = "half" -> NumR(1, 2)
                  [] OTHER -> Const(tk.s),
          next |-> pos + 1]
    ELSE LET c1 == Parse(ts, pos + 1) IN
         IF tk.ar = 1
         THEN [e |-> IF tk.k = "fn" THEN Fn(tk.s, <<c1.e>>) ELSE [k |-> tk.k, a |-> c1.e], next |-> c1.next]
         ELSE LET c2 == Parse(ts, c1.next) IN
              IF tk.ar = 2
              THEN [e |-> CASE tk.k = "cmp" -> Cmp2(tk.s, c1.e, c2.e)
                            [] tk.k = "call" -> Call(tk.s, <<c1.e, c2.e>>)
                            [] tk.k \in {"min", "max", "and", "or"} -> [k |-> tk.k, args |-> <<c1.e, c2.e>>]
                            [] OTHER -> Bin(tk.k, c1.e, c2.e),
                    next |-> c2.next]
              ELSE LET c3 == Parse(ts, c2.next) IN
                   [e |-> CASE tk.k = "cmp" -> Cmp(<<tk.s, tk.s2>>, <<c1.e, c2.e, c3.e>>)
                            [] tk.k \in {"min", "max"} -> [k |-> tk.k, args |-> <<c1.e, c2.e, c3.e>>]
                            [] tk.k = "ite" -> Ite(c1.e, c2.e, c3.e),
                    next |-> c3.next]
Parsed == Parse(toks, 1).e
Complete == ~Done /\ todo = <<>>

PickArg ==
    /\ Complete /\ Len(args) < Len(ParamsOf(Parsed))
    /\ \E n \in Pool : args' = Append(args, n)
    /\ UNCHANGED <<c, slots, i, toks, todo, scheme>>

\* Under the naming scheme "formal" the model names b, a, c ARE the formal parameter names.  PickFormal gives all
\* arguments at once: the model names that coincide with the function's own parameters, in order, with the first
\* two swapped, or rotated - `def f(a, b)` applied to ["a", "b"], ["b", "a"]: a renaming of the parameters one after
\* the other (instead of simultaneously) maps both to the same name.
Swap(a) == [k \in DOMAIN a |-> IF k = 1 THEN a[2] ELSE IF k = 2 THEN a[1] ELSE a[k]]
Rot(a)  == [k \in DOMAIN a |-> a[(k % Len(a)) + 1]]
InvFormal == [a |-> "y", b |-> "x", c |-> "p"]
PickFormal ==
    /\ Complete /\ scheme = "formal" /\ args = <<>> /\ Len(ParamsOf(Parsed)) >= 2
    /\ LET ps == ParamsOf(Parsed)
           base == [k \in DOMAIN ps |-> InvFormal[ps[k]]]
       IN /\ SeqRange(base) \subseteq Pool
          /\ \E as \in {base, Swap(base), Rot(base)} : args' = as
    /\ UNCHANGED <<c, slots, i, toks, todo, scheme>>

\* ---- stoichiometries ---------------------------------------------------------------------------
Calc(e, a) == [k |-> "calc", fn |-> FnOf(e), args |-> a]
Slot(kind) == \E j \in 1..(i - 1) : slots[j].kind = kind
StMenu ==
    LET x == "x"
        w == IF Len(c.vars) >= 2 THEN c.vars[2] ELSE "x"
    IN {(x :> M!Num(RFromInt(0 - 1))),
        (w :> M!Num(RFromInt(2))),
        (x :> M!Num(R(1, 2))),
        (w :> M!Num(R(0 - 3, 2))),
        (x :> Calc(Bin("add", A, Num(2)), <<"p">>)),            \* computed, positive  (5)
        (w :> Calc(Neg(A), <<"p">>)),                           \* computed, negative  (-3)
        (x :> Calc(Bin("sub", A, B), <<"q", "p">>)),            \* computed, negative, two permuted arguments (-5/2)
        (w :> Calc(A, <<"p">>)),                                \* the named form  {"w": "p"}
        (x :> Calc(Bin("sub", A, Num(2)), <<x>>)),              \* state dependent, changes sign
        (w :> Calc(Ite(Cmp2("lt", A, Num(2)), Num(1), Neg(NumR(1, 2))), <<"x">>))}   \* conditional coefficient
       \cup (IF w # x THEN {(x :> M!Num(RFromInt(0 - 1))) @@ (w :> M!Num(RFromInt(1))),
                            (x :> Calc(Bin("mul", A, B), <<"p", w>>)) @@ (w :> M!Num(RFromInt(0 - 2))),
                            (x :> Calc(Bin("add", A, Num(2)), <<"p">>)) @@ (w :> Calc(Neg(A), <<"q">>))} ELSE {})
       \cup (IF Slot("der") THEN {(x :> Calc(A, <<CHOOSE n \in {slots[j].name : j \in {m \in 1..(i - 1) : slots[m].kind = "der"}} : TRUE>>))}
             ELSE {})

Commit ==
    /\ Complete /\ Len(args) = Len(ParamsOf(Parsed))
    /\ LET s == slots[i]
           f == FnOf(Parsed)
       IN \/ /\ s.kind = "der"
             /\ c' = [c EXCEPT !.der = @ @@ (s.name :> [fn |-> f, args |-> args])]
          \/ /\ s.kind = "rxn"
             /\ \E st \in StMenu : c' = [c EXCEPT !.rxn = @ @@ (s.name :> [fn |-> f, args |-> args, st |-> st])]
          \/ /\ s.kind = "iap"
             /\ c' = [c EXCEPT !.pars = @ @@ (s.name :> [k |-> "ia", fn |-> f, args |-> args])]
          \/ /\ s.kind = "iav"
             /\ c' = [c EXCEPT !.vars = Append(@, s.name),
                               !.init = @ @@ (s.name :> [k |-> "ia", fn |-> f, args |-> args])]
    /\ i' = i + 1
    /\ toks' = <<>>
    /\ todo' = IF i + 1 <= Len(slots) THEN Fresh ELSE <<>>
    /\ args' = <<>>
    /\ UNCHANGED <<slots, scheme>>

\* ---- one function, several components ------------------------------------------------------------------
\* A slot may REUSE the function of an earlier derived quantity / reaction that has at least two formal
\* parameters, applied to the same model names in another order (first two swapped, or rotated).  Together with
\* the naming scheme "formal" (model names = the function's own parameter names) this is the shape
\* `def f(a, b, c)` used with ["b", "a", "c"] and ["a", "b", "c"], where renaming the parameters one after the other
\* instead of simultaneously goes wrong.  (The replayer renders equal function records as ONE Python function.)
Earlier == {j \in 1..(i - 1) : slots[j].kind \in {"der", "rxn"}}
UseOf(j) == IF slots[j].kind = "der" THEN c.der[slots[j].name] ELSE c.rxn[slots[j].name]
ReuseSt == {st \in StMenu : \A v \in DOMAIN st : st[v].k = "num"}      \* keeps the successor set small
\* the slot takes function f applied to as (a reaction gets a numeric one-variable stoichiometry: small successor set)
TakeFn(f, as) ==
    /\ LET s == slots[i] IN
          \/ /\ s.kind = "der"
             /\ c' = [c EXCEPT !.der = @ @@ (s.name :> [fn |-> f, args |-> as])]
          \/ /\ s.kind = "rxn"
             /\ \E st \in {x \in ReuseSt : Cardinality(DOMAIN x) = 1} :
                   c' = [c EXCEPT !.rxn = @ @@ (s.name :> [fn |-> f, args |-> as, st |-> st])]
    /\ i' = i + 1
    /\ toks' = <<>>
    /\ todo' = IF i + 1 <= Len(slots) THEN Fresh ELSE <<>>
    /\ args' = <<>>
    /\ UNCHANGED <<slots, scheme>>

AtSlotStart == ~Done /\ toks = <<>> /\ todo = Fresh /\ slots[i].kind \in {"der", "rxn"}

Reuse ==
    /\ AtSlotStart
    /\ \E j \in Earlier :
          /\ Len(UseOf(j).fn.params) >= 2
          /\ \A m \in Earlier : m > j => Len(UseOf(m).fn.params) < 2          \* the most recent eligible one
          /\ \E as \in {Swap(UseOf(j).args), Rot(UseOf(j).args)} : TakeFn(UseOf(j).fn, as)

\* Asymmetric LIBRARY functions (every permutation of their arguments changes the value), offered to every
\* derived-quantity / reaction slot with their base arguments in order, swapped or rotated.  Several components of
\* one model therefore share `def f(a, b)` / `def g(a, b, c)` with different argument lists; under the scheme
\* "formal" the base arguments are the model names that coincide with the function's own parameter names.
\* ... and a chained comparison with two DIFFERENT operators that is decided by its second link at a tie
\* (1 < a <= b with a = b = 3 at the second state for the base arguments x, p): exact arithmetic, never fragile.
Lib == {FnRec(<<"a", "b">>, Bin("sub", A, Bin("mul", Num(2), B))),
        FnRec(<<"a", "b", "c">>, Bin("sub", Bin("mul", A, B), Bin("mul", Num(3), Var("c")))),
        FnRec(<<"a", "b">>, Ite(Cmp(<<"lt", "le">>, <<Num(1), A, B>>), Bin("add", A, B), Bin("sub", B, Bin("mul", Num(2), A)))),
        \* variadic rows of the export table at the arities they claim: min / max of THREE and FOUR arguments.  With the
        \* base arguments x, p, q (x = 2, 3, 0; p = 3; q = 1/2) in order, swapped and rotated every position is in turn
        \* the extremum (q the minimum at two states, x at the third; p / x the maximum), also behind the constants;
        \* and a comparison chain with three links.
        FnRec(<<"a", "b", "c">>, Bin("add", Min(<<A, B, Var("c")>>), Bin("mul", Num(2), Max(<<A, B, Var("c")>>)))),
        FnRec(<<"a", "b", "c">>, Bin("sub", Bin("mul", Num(3), Max(<<Var("c"), Num(2), B, A>>)), Min(<<Num(1), Var("c"), B, A>>))),
        FnRec(<<"a", "b", "c">>, Ite(Cmp(<<"lt", "le", "gt">>, <<Var("c"), A, B, Num(1)>>), Bin("sub", A, Var("c")), Bin("add", B, Var("c"))))}
\* Further library functions, offered with their base arguments in order only:
\*   a module-level constant (K * a * b; under the scheme "helper" the model has a parameter that is also called K),
\*   an integer literal beyond 32 bits (BIG * a - b), the two-argument logarithm log(a + 1, 2) * b,
\*   a user function named like a mathematical one (floor(a) * b: not exportable), math.remainder(a, b) (not MathML's rem:
\*   not exportable).
Lib2 == {FnRec(<<"a", "b">>, Bin("mul", Const("K"), Bin("mul", A, B))),
         FnRec(<<"a", "b">>, Bin("sub", Bin("mul", Const("BIG"), A), B)),
         \* big integers of EVERY sign: a negative module constant (inlined as a negative literal) and the negated positive one
         FnRec(<<"a", "b">>, Bin("sub", Bin("mul", Const("NEG"), A), Bin("mul", Neg(Const("BIG")), B))),
         FnRec(<<"a", "b">>, Bin("mul", Fn("log", <<Bin("add", A, Num(1)), Num(2)>>), B)),
         FnRec(<<"a", "b">>, Bin("mul", Call("floor", <<A>>), B)),
         FnRec(<<"a", "b">>, Bin("add", Fn("remainder", <<Bin("add", A, Num(1)), Bin("add", B, Num(2))>>), A))}
LibBase(f) == IF scheme = "formal" THEN [k \in DOMAIN f.params |-> InvFormal[f.params[k]]]
              ELSE SubSeq(<<"x", "p", "q">>, 1, Len(f.params))
UseLib ==
    /\ AtSlotStart
    /\ \E f \in Lib \cup Lib2 :
          LET base == LibBase(f) IN
          /\ SeqRange(base) \subseteq Pool
          /\ \E as \in (IF f \in Lib THEN {base, Swap(base), Rot(base)} ELSE {base}) :
                LET s == slots[i] IN
                \/ /\ s.kind = "der"
                   /\ c' = [c EXCEPT !.der = @ @@ (s.name :> [fn |-> f, args |-> as])]
                \/ /\ s.kind = "rxn"          \* one fixed stoichiometry per library: the successor set stays small.
                   \* It is a COMPUTED coefficient of x (another expression for Lib2): models with two or more
                   \* reactions regularly have several different computed coefficients on one variable
                   /\ c' = [c EXCEPT !.rxn = @ @@ (s.name :> [fn |-> f, args |-> as,
                               st |-> ("x" :> IF f \in Lib THEN Calc(Bin("add", A, Num(2)), <<"p">>)
                                              ELSE Calc(Bin("sub", A, B), <<"q", "p">>))])]
    /\ i' = i + 1
    /\ toks' = <<>>
    /\ todo' = IF i + 1 <= Len(slots) THEN Fresh ELSE <<>>
    /\ args' = <<>>
    /\ UNCHANGED <<slots, scheme>>

\* MULTI-STATEMENT bodies, just outside what the exporter can write (an SBML formula is one expression): an early-return
\* guard, a local assignment whose name coincides with a model component (p always, y when the model has one), if / else
\* returning in both branches, code after an if that assigns, the "cap" guard on a third argument.  The specification's
\* verdict: `write` must raise - or, should an exporter handle them, the re-import must equal Run(body), which is what
\* the predictions are computed from.  The base arguments put the states on both sides of every guard
\* (x = 2, 3, 0 against the literal 2; x against q = 1/2).
BodyLib ==
    {BodyRec(<<"a", "b">>, <<If(Cmp2("gt", A, Num(2)), <<Ret(Bin("mul", B, Num(2)))>>, <<>>), Ret(Bin("mul", B, A))>>),
     BodyRec(<<"a", "b">>, <<Assign("p", Bin("mul", A, A)), Ret(Bin("mul", B, Var("p")))>>),
     BodyRec(<<"a", "b">>, <<Assign("y", Bin("add", A, Num(1))), Ret(Bin("sub", Var("y"), B))>>),
     BodyRec(<<"a", "b">>, <<If(Cmp2("lt", A, Num(2)), <<Ret(Bin("add", A, B))>>, <<Ret(Bin("sub", A, B))>>)>>),
     BodyRec(<<"a", "b">>, <<Assign("z", A), If(Cmp2("gt", A, B), <<Assign("z", B)>>, <<>>), Ret(Bin("add", Var("z"), Num(1)))>>),
     BodyRec(<<"a", "b", "c">>, <<If(Cmp2("gt", A, Var("c")), <<Ret(Bin("mul", B, Var("c")))>>, <<>>), Ret(Bin("mul", B, A))>>)}
\* Only the LAST slot may take one (a model with one such body is refused as a whole, more of them add nothing), and a
\* reaction gets the stoichiometry {x: -1}: the successor set stays small and most models remain exportable.
UseBody ==
    /\ AtSlotStart /\ i = Len(slots)
    /\ \E f \in BodyLib :
          LET base == LibBase(f) IN
          /\ SeqRange(base) \subseteq Pool
          /\ \E as \in {base, Swap(base)} :
                LET s == slots[i] IN
                \/ /\ s.kind = "der"
                   /\ c' = [c EXCEPT !.der = @ @@ (s.name :> [fn |-> f, args |-> as])]
                \/ /\ s.kind = "rxn"
                   /\ c' = [c EXCEPT !.rxn = @ @@ (s.name :> [fn |-> f, args |-> as, st |-> ("x" :> M!Num(RFromInt(0 - 1)))])]
    /\ i' = i + 1
    /\ toks' = <<>>
    /\ todo' = <<>>
    /\ args' = <<>>
    /\ UNCHANGED <<slots, scheme>>

Next == Expand \/ PickArg \/ PickFormal \/ Commit \/ Reuse \/ UseLib \/ UseBody

Spec == Init /\ [][Next]_vars

\* ---- naming schemes ------------------------------------------------------------------------------
NameMap(s) ==
    CASE s = "plain"    -> [x |-> "x"]
      [] s = "sympy"    -> [x |-> "S", y |-> "E", z |-> "I", p |-> "beta", q |-> "lambda_", d1 |-> "N", d2 |-> "Q",
                            r1 |-> "gamma", r2 |-> "zeta", r3 |-> "pi", pa |-> "O", xa |-> "e"]
      [] s = "formal"   -> [x |-> "b", y |-> "a", p |-> "c", q |-> "hlp"]
      [] s = "escape"   -> [x |-> "a.b", y |-> "x-1", p |-> "2x", q |-> "lambda", d1 |-> "_d", r1 |-> "r.1", pa |-> "p a"]
      [] s = "escape1"  -> [p |-> "k-a"]
      [] s = "escape2"  -> [x |-> "x.1"]
      [] s = "keyword"  -> [q |-> "lambda", d1 |-> "in"]
      [] s = "helper"   -> [q |-> "K", p |-> "xref", d1 |-> "init_pa", d2 |-> "r1_stoich_x", r2 |-> "init_xa", pb |-> "xref_r2"]
      [] s = "modnames" -> [d1 |-> "Model", d2 |-> "Model_", q |-> "create_model"]
      [] s = "amount"   -> [q |-> "x_amount"]
      [] s = "compart"  -> [q |-> "compartment"]
AllSchemes == {"plain", "sympy", "formal", "helper", "modnames", "escape", "escape1", "escape2", "keyword", "amount", "compart"}

Nm(n) == IF n \in DOMAIN NameMap(scheme) THEN NameMap(scheme)[n] ELSE n
RenSeq(s) == [j \in DOMAIN s |-> Nm(s[j])]
RenTab(f) == [m \in {Nm(n) : n \in DOMAIN f} |-> f[CHOOSE n \in DOMAIN f : Nm(n) = m]]
RenVal(v) == IF v.k = "num" THEN v ELSE [v EXCEPT !.args = RenSeq(@)]
RenContent(cc) ==
    [vars |-> RenSeq(cc.vars),
     init |-> RenTab([v \in DOMAIN cc.init |-> RenVal(cc.init[v])]),
     pars |-> RenTab([p \in DOMAIN cc.pars |-> RenVal(cc.pars[p])]),
     der  |-> RenTab([d \in DOMAIN cc.der |-> [cc.der[d] EXCEPT !.args = RenSeq(@)]]),
     rxn  |-> RenTab([r \in DOMAIN cc.rxn |->
                 [fn |-> cc.rxn[r].fn, args |-> RenSeq(cc.rxn[r].args),
                  st |-> RenTab([v \in DOMAIN cc.rxn[r].st |-> RenVal(cc.rxn[r].st[v])])]]),
     sur |-> Empty, ro |-> Empty, data |-> Empty]

AllNames(cc) == M!VarSet(cc) \cup DOMAIN cc.pars \cup DOMAIN cc.der \cup DOMAIN cc.rxn \cup {"time"}
Injective(cc) == \A m, n \in AllNames(cc) : Nm(m) = Nm(n) => m = n

\* ---- what the specification says about a finished model ------------------------------------------
YAlt1 == <<RFromInt(3), R(1, 2), RFromInt(1), RFromInt(4), RFromInt(2)>>
YAlt2 == <<Zero, RFromInt(2), R(5, 2), RFromInt(1), RFromInt(3)>>
Points ==
    <<[y |-> M!InitialValues(c), t |-> Zero],
      [y |-> [v \in M!VarSet(c) |-> YAlt1[CHOOSE j \in DOMAIN c.vars : c.vars[j] = v]], t |-> RFromInt(2)],
      [y |-> [v \in M!VarSet(c) |-> YAlt2[CHOOSE j \in DOMAIN c.vars : c.vars[j] = v]], t |-> R(1, 2)]>>

\* every function of the model with the place it is used at
FnsOf(cc) ==
    {cc.der[d].fn : d \in DOMAIN cc.der} \cup {cc.rxn[r].fn : r \in DOMAIN cc.rxn}
    \cup {cc.init[v].fn : v \in M!IAVars(cc)} \cup {cc.pars[p].fn : p \in M!IAPars(cc)}
    \cup UNION {{cc.rxn[r].st[v].fn : v \in {w \in DOMAIN cc.rxn[r].st : cc.rxn[r].st[w].k = "calc"}} : r \in DOMAIN cc.rxn}

ExportFns == {"exp", "log", "log10", "sqrt", "sin", "cos", "tan", "tanh", "floor", "ceil"}
CoreFns   == {"exp", "log", "sqrt", "sin", "cos"}

RECURSIVE Exportable(_), MustExport(_), Opaque(_)
Exportable(e) ==
    /\ e.k \notin {"call", "mod", "floordiv"}
    /\ e.k = "fn" => e.name \in ExportFns
    /\ LET ks == Kids(e) IN \A j \in DOMAIN ks : Exportable(ks[j])
MustExport(e) ==
    /\ e.k \in {"num", "var", "neg", "add", "sub", "mul", "div", "pow", "cmp", "ite", "fn"}
    /\ e.k = "fn" => e.name \in CoreFns
    /\ LET ks == Kids(e) IN \A j \in DOMAIN ks : MustExport(ks[j])
\* the specification cannot compute the value: opaque function or math.pi
Opaque(e) == e.k = "fn" \/ (e.k = "const" /\ e.name \in {"pi", "BIG", "NEG"}) \/ LET ks == Kids(e) IN \E j \in DOMAIN ks : Opaque(ks[j])

RECURSIVE SubExprs(_)
SubExprs(e) == {e} \cup LET ks == Kids(e) IN UNION {SubExprs(ks[j]) : j \in DOMAIN ks}

\* ---- fragile points (DESIGN.md section 4, rule 3) ------------------------------------------------------
\* Floating point reproduces the rationals exactly as long as a model only adds, subtracts and multiplies
\* (all constants are k/2^m); then even a tie in a comparison is decided identically by every correct
\* re-arrangement of the expression, and boundary points are fully checked.  Once a model divides (by
\* anything but the literals 1, 2, 1/2), takes powers (other than natural literal ones) or calls a transcendental function, a comparison whose operands are EQUAL (or undecided for the
\* specification) at the point, and any floor-like operation, may legitimately flip: the point is fragile.
RECURSIVE HasTag(_, _), HasTie(_, _)
HasTag(e, tags) == e.k \in tags \/ LET ks == Kids(e) IN \E j \in DOMAIN ks : HasTag(ks[j], tags)
HasTie(e, env) ==
    \/ /\ e.k = "cmp"
       /\ \E j \in DOMAIN e.ops :
             LET l == Eval(e.args[j], env, FT)
                 r == Eval(e.args[j + 1], env, FT)
             IN IF RatV(l) /\ RatV(r) THEN l = r ELSE TRUE
    \/ LET ks == Kids(e) IN \E j \in DOMAIN ks : HasTie(ks[j], env)
\* exact in binary floating point: division by the literals 1, 2, 1/2 and powers with a natural literal exponent
InexactNode(e) ==
    \/ e.k = "fn" \/ (e.k = "const" /\ e.name \in {"pi", "BIG", "NEG"})
    \/ e.k = "div" /\ ~(e.b.k = "num" /\ e.b.v \in {One, RFromInt(2), R(1, 2)})
    \/ e.k = "pow" /\ ~(e.b.k = "num" /\ IsInt(e.b.v) /\ e.b.v.n >= 0)
Inexact(cc) == \E f \in FnsOf(cc) : \E s \in SubExprs(f.e) : InexactNode(s)
Steppy(cc)  == \E f \in FnsOf(cc) : HasTag(f.e, {"floordiv", "mod"}) \/ \E s \in SubExprs(f.e) : s.k = "fn" /\ s.name \in {"floor", "ceil"}
Uses(cc) ==
    {[fn |-> cc.der[d].fn, args |-> cc.der[d].args] : d \in DOMAIN cc.der}
    \cup {[fn |-> cc.rxn[r].fn, args |-> cc.rxn[r].args] : r \in DOMAIN cc.rxn}
    \cup {[fn |-> cc.init[v].fn, args |-> cc.init[v].args] : v \in M!IAVars(cc)}
    \cup {[fn |-> cc.pars[p].fn, args |-> cc.pars[p].args] : p \in M!IAPars(cc)}
    \cup UNION {{[fn |-> cc.rxn[r].st[v].fn, args |-> cc.rxn[r].st[v].args] :
                    v \in {w \in DOMAIN cc.rxn[r].st : cc.rxn[r].st[w].k = "calc"}} : r \in DOMAIN cc.rxn}
FragileAt(cc, a) ==
    Inexact(cc) /\ (Steppy(cc) \/ \E u \in Uses(cc) : HasTie(u.fn.e, ArgEnv(u.fn.params, M!ArgVals(u.args, a))))

KindsOf(cc) ==
    [n \in AllNames(cc) \ {"time"} |->
        IF n \in M!VarSet(cc) THEN "variable" ELSE IF n \in DOMAIN cc.pars THEN "parameter"
        ELSE IF n \in DOMAIN cc.der THEN "derived" ELSE "reaction"]

Predict(cc, p) ==
    [y |-> RenTab(p.y), t |-> p.t,
     args   |-> RenTab([n \in M!Reported(cc) |-> M!ArgsAt(cc, p.y, p.t)[n]]),
     rhs    |-> M!Rhs(cc, p.y, p.t),
     fluxes |-> RenTab(M!Fluxes(cc, p.y, p.t)),
     fragile |-> FragileAt(cc, M!ArgsAt(cc, p.y, p.t))]

Scenario ==
    [c |-> RenContent(c), scheme |-> scheme, wf |-> M!OutcomeKinds(c),
     kinds |-> RenTab(KindsOf(c)),
     exportable |-> \A f \in FnsOf(c) : SingleExpr(f) /\ Exportable(f.e),
     must |-> \A f \in FnsOf(c) : SingleExpr(f) /\ MustExport(f.e),
     multi |-> \E f \in FnsOf(c) : ~SingleExpr(f),
     opaque |-> \E f \in FnsOf(c) : Opaque(f.e),
     init |-> RenTab(M!InitialValues(c)),
     parvals |-> RenTab(M!ParameterValues(c)),
     pts |-> [j \in DOMAIN Points |-> Predict(c, Points[j])]]

Emit == (EmitOn /\ Done /\ Injective(c)) => PrintT("@J@" \o ToJson(Scenario) \o "@E@")

\* ---- theorems of the specification itself ------------------------------------------------------------
WF == Done /\ M!WellFormed(c) /\ Injective(c)

\* no forward references: every finished model resolves
AlwaysWellFormed == Done => M!WellFormed(c)

\* both predicates are closed under sub-expressions; what must be exported can be
PredicatesClosed ==
    Done => \A f \in FnsOf(c) :
               /\ Exportable(f.e) => \A s \in SubExprs(f.e) : Exportable(s)
               /\ MustExport(f.e) => \A s \in SubExprs(f.e) : MustExport(s)
               /\ MustExport(f.e) => Exportable(f.e)

\* The meaning of a model does not depend on the naming scheme: tables of single values are identical (non-numbers
\* included); a derivative - a sum accumulated in the traversal order of a set of names - is undefined under one
\* naming iff under the other, and wherever both give a number it is the same number (the magnitude guard of Rat may
\* decline under one order of summation only).
SameValue(a, b) == /\ (a = Undef) <=> (b = Undef)
                   /\ (RatV(a) /\ RatV(b)) => a = b
RenameInvariant ==
    WF => \A j \in DOMAIN Points :
             LET p == Points[j]
                 r == RenContent(c)
                 rr == M!Rhs(r, RenTab(p.y), p.t)
                 rc == M!Rhs(c, p.y, p.t)
             IN /\ DOMAIN rr = DOMAIN rc /\ \A m \in DOMAIN rc : SameValue(rr[m], rc[m])
                /\ M!ArgsAt(r, RenTab(p.y), p.t) = RenTab(M!ArgsAt(c, p.y, p.t))
                /\ M!InitialValues(r) = RenTab(M!InitialValues(c))

\* the one-expression reading e of every function agrees with what Python runs (body), at every point and use
BodyAgrees ==
    WF => \A j \in DOMAIN Points :
             LET a == M!ArgsAt(c, Points[j].y, Points[j].t) IN
             \A u \in Uses(c) :
                LET env == ArgEnv(u.fn.params, M!ArgVals(u.args, a))
                    r == Run(u.fn.body, env, FT)
                    v == Eval(u.fn.e, env, FT)
                IN r.st = "ret" => (v = r.v \/ v = Skip)
\* used NEGATED: a finished model with a multi-statement body is reachable
NoMulti == ~(Done /\ \E f \in FnsOf(c) : ~SingleExpr(f))

\* two components sharing one function (same record) with different argument lists
Shared(cc) == \E d \in DOMAIN cc.der, r \in DOMAIN cc.rxn :
                 cc.der[d].fn = cc.rxn[r].fn /\ cc.der[d].args # cc.rxn[r].args /\ Len(cc.der[d].fn.params) >= 2
\* used NEGATED in SbmlRoundTrip_mcreuse.cfg: TLC must find a finished model with a shared function (vacuity guard)
NoReuse == ~(Done /\ Shared(c))

\* a variable no reaction touches has derivative 0
UntouchedZero ==
    WF => \A j \in DOMAIN Points :
             LET p == Points[j]
                 a == M!ArgsAt(c, p.y, p.t)
             IN \A m \in DOMAIN c.vars :
                   (\A r \in DOMAIN c.rxn : c.vars[m] \notin DOMAIN c.rxn[r].st) => M!Rhs(c, p.y, p.t)[m] = Zero

\* ---- the exporter of the pinned commit, as a wrong instance --------------------------------------------
\* a chained comparison keeps its first link; a computed coefficient is written as a reactant
RECURSIVE Trunc(_)
Trunc(e) ==
    IF e.k = "cmp" THEN Cmp(<<e.ops[1]>>, <<Trunc(e.args[1]), Trunc(e.args[2])>>)
    ELSE IF e.k \in UnOps THEN [e EXCEPT !.a = Trunc(e.a)]
    ELSE IF e.k \in BinOps THEN [e EXCEPT !.a = Trunc(e.a), !.b = Trunc(e.b)]
    ELSE IF e.k = "ite" THEN [e EXCEPT !.c = Trunc(e.c), !.a = Trunc(e.a), !.b = Trunc(e.b)]
    ELSE IF e.k \in NaryOps THEN [e EXCEPT !.args = [j \in DOMAIN e.args |-> Trunc(e.args[j])]]
    ELSE e
PinFn(f) == IF SingleExpr(f) THEN FnRec(f.params, Trunc(f.e)) ELSE f
PinCoef(co) == IF co.k = "num" THEN co ELSE [co EXCEPT !.fn = FnRec(co.fn.params, Neg(Trunc(co.fn.e)))]
PinnedContent(cc) ==
    [cc EXCEPT !.der = [d \in DOMAIN cc.der |-> [cc.der[d] EXCEPT !.fn = PinFn(@)]],
               !.rxn = [r \in DOMAIN cc.rxn |->
                          [fn |-> PinFn(cc.rxn[r].fn), args |-> cc.rxn[r].args,
                           st |-> [v \in DOMAIN cc.rxn[r].st |-> PinCoef(cc.rxn[r].st[v])]]]]
PinnedAgrees ==
    (Pinned /\ WF) => \A j \in DOMAIN Points :
        LET p == Points[j]
            want == M!Rhs(c, p.y, p.t)
            got  == M!Rhs(PinnedContent(c), p.y, p.t)
        IN (\A m \in DOMAIN want : IsRat(want[m])) => got = want
=============================================================================
