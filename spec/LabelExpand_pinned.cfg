\* the pinned implementation shape (dict-keyed argument renaming) on 2A -> B: TLC must find SumRule violated
CONSTANTS
    Tpls = {"homo"}
    Ords = {"std"}
    MaxNL = 2
    MaxL = 4
    ShortMaps = TRUE
    InitAll = FALSE
    ArgMode = "last"
    EmitOn = FALSE
INIT Init
NEXT Next
INVARIANT ThCount
INVARIANT ThUnit
INVARIANT ThAtom
INVARIANT ThSum
INVARIANT ThInit
INVARIANT ThReject

CHECK_DEADLOCK FALSE
