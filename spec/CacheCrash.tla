---------------------------- MODULE CacheCrash ----------------------------
(***************************************************************************)
(* C19 -- result caching is transparent and survives interruption.         *)
(*                                                                         *)
(* A caching run hands the keys 1..NKeys to W workers (W = 1: sequential   *)
(* mode).  Per key a worker looks the key up, either loads the stored      *)
(* result or computes it and saves it.  Files persist across runs; a       *)
(* Crash (enabled in every state of a run) kills all workers, after which  *)
(* the caller simply runs again.                                           *)
(*                                                                         *)
(* A file is the number of chunks it holds: Absent, or 0..L; only a file   *)
(* with all L chunks can be loaded, loading anything shorter fails.        *)
(*                                                                         *)
(* Two design dimensions, chosen by constants (model checking) or in Init  *)
(* (trace validation, module CacheTrace):                                  *)
(*   design = "direct": the result is written into the final path          *)
(*            "temp"  : it is written to a temporary file in the same      *)
(*                      directory which is renamed onto the final path     *)
(*   policy = "trust"   : a final path that exists is loaded               *)
(*            "validate": a load that fails counts as a miss               *)
(* Writing is buffered: Write hands a chunk to the file object (pc.b), the *)
(* chunk reaches the file only by a Flush (any time) or by Close (which    *)
(* flushes the rest); a file's content is what has reached it.  RenameAt   *)
(* says when the temporary file is moved onto the final path: "closed"     *)
(* (the contract: only after Close) or "written" (implementation-shaped    *)
(* wrong order: as soon as every chunk was handed to write(), before       *)
(* Close; later flushes then land in the final path) -- TLC must refute    *)
(* the latter (cfg _earlyrename).                                          *)
(* ("direct","trust") is the shape of the pinned commit; it is             *)
(* model-checked only to exhibit the counterexample.  The real code is     *)
(* judged against the property (NoRaise, NoRecompute, termination), never  *)
(* against a particular design.                                            *)
(*                                                                         *)
(* Properties (INVARIANT / PROPERTY lines of the cfg files):               *)
(*   NoRaise      no run ever raises: after any prefix ending in Crash a   *)
(*                rerun can only end in "done", which requires the right   *)
(*                result for every key                                     *)
(*   NoRecompute  a run that follows a completed run performs no Compute   *)
(*   Terminates   every run that is not crashed ends (liveness, cfg _live) *)
(*   FinalWhole   (temp design) what is visible under a final name is      *)
(*                always complete -- also after a crash strictly inside a  *)
(*                write, which leaves a temporary file holding a strict    *)
(*                prefix (tmp[k] < L); the wrong instance Recover = TRUE   *)
(*                (leftover temporary files are promoted at the start of   *)
(*                the next run) is refuted through NoRaise (cfg _promote)  *)
(*   Injective    distinct keys have distinct stored entries; the wrong     *)
(*                instance LossyNames = TRUE (siblings share a file) is    *)
(*                refuted through RightResults: the second sibling gets    *)
(*                the first one's result (cfg _lossy)                      *)
(*   AllStored, ComputesExactlyMissing                                     *)
(*                the contract through EVERY entry point that takes cache=: *)
(*                one whole entry per key after a run; a run computes       *)
(*                exactly the keys whose entry was missing at its start     *)
(*                (fresh cache, repeated run, half-filled cache after       *)
(*                DropEntries).  The wrong instance Forwards = FALSE (an    *)
(*                entry point that accepts cache= but drops it) is refuted  *)
(*                through NoRecompute (cfg _nocache)                        *)
(*   RightResults every completed run returns the current function's      *)
(*                results -- also in-process histories Run, Rerun,         *)
(*                [Mutate the returned objects, Rerun,] ClearCache (cache  *)
(*                directory deleted, function changed), Run, Rerun; the    *)
(*                wrong instance Memo = TRUE (process-wide memo keyed by   *)
(*                path) is refuted by TLC (cfg _memo)                      *)
(* Emit prints every distinct crash history with the stage of every        *)
(* worker and the files left behind: these are the crash points the        *)
(* harness realises against the real parallelise()/scan.steady_state().    *)
(* What a kill leaves behind is the CONTENT of the files (what reached     *)
(* them), not what was handed to write(): the harness realises a           *)
(* "writing" stage by the content, and kills without flushing.             *)
(***************************************************************************)
EXTENDS Integers, Sequences, FiniteSets, TLC, Json

CONSTANTS
    NKeys,      \* keys are 1..NKeys, in input order
    W,          \* number of workers
    L,          \* chunks per result file (write steps)
    Design,     \* "direct" | "temp" | "any" (any: chosen in Init)
    Policy,     \* "trust" | "validate" | "any"
    RenameAt,   \* "closed" (contract) | "written" (rename before close: wrong order)
    BypassOne,  \* TRUE: implementation-shaped wrong instance -- a key set of size one takes a fast path that
                \*       neither looks the entry up nor stores it (must be refuted; key sets of size 1 are regular members)
    MkdirAtBuild, \* TRUE: implementation-shaped wrong instance -- the cache directory is created only when the Cache
                \*       object is built: after the caller deleted it (ClearCache) a run on the SAME object cannot store
    Recover,    \* TRUE: implementation-shaped wrong instance -- when a run starts after a crash, leftover temporary
                \*       files are promoted (renamed) to their final names, whatever they hold (must be refuted)
    Forwards,   \* TRUE: the entry point hands the caller's cache on to the map (contract).  FALSE: implementation-shaped
                \*       wrong instance -- an entry point that accepts cache= but drops it: nothing is stored or reused
    MaxDrop,    \* how often the caller may delete some (not all) entries between runs (half-filled cache)
    LossyNames, \* TRUE: implementation-shaped wrong instance -- the file name forgets what distinguishes the
                \*       "sibling" keys 1 and 2 (they differ only in characters a lossy name function drops)
    Memo,       \* TRUE: implementation-shaped wrong instance -- a process-wide memo keyed by the file path
                \*       answers repeated loads (must be refuted); FALSE: a hit returns what is on disk
    MaxClear,   \* how often the caller may delete the cache directory and change the mapped function
    MaxExtra,   \* further repetitions of a completed run (in the same process) per function version
    MaxCrash,   \* how many crashes a behaviour may contain
    Fifo,       \* TRUE: keys are handed out in input order (task queue); FALSE: any order
    EmitOn      \* TRUE: record crash snapshots and print them

Keys    == 1..NKeys
\* the stored entry (file name) of a key; keys 1 and 2 are siblings: distinct keys whose texts differ only in
\* punctuation / sign.  Contract: identity (injective).
Nm(k)   == IF LossyNames /\ k = 2 THEN 1 ELSE k
\* does this run use the cache at all?
Fwd == Forwards /\ ~(BypassOne /\ NKeys = 1)
\* the result of key k under version f of the mapped function (distinct per key and version)
Val(f, k) == 10 * f + k
Workers == 1..W
Absent  == 0 - 1
IdlePc  == [k |-> 0, at |-> "idle", b |-> 0, mv |-> FALSE, v |-> 0]

VARIABLES
    design, policy,
    fin,        \* [Keys -> Absent | 0..L]   final path <key>.p
    tmp,        \* [Keys -> Absent | 0..L]   temporary file used while saving key
    pc,         \* [Workers -> [k, at, b]]
    taken,      \* keys handed out in the current run
    res,        \* [Keys -> 0 | version]     result returned for the key in the current run (0: none yet)
    fn,         \* version of the mapped function the caller currently uses (1, 2, ...)
    fv,         \* [Keys -> 0 | version]     which version's result the whole final file holds
    memo,       \* [Keys -> 0 | value]       process-wide memo of loaded values (only used when Memo); 99 = mutated
    clears, extra,
    dirok,      \* the cache directory exists (every run start re-creates it -- unless MkdirAtBuild)
    missing,    \* keys whose entry was not (whole) on disk when the current run started
    ops,        \* what the caller did so far: "run", "rerun", "mutate", "clear", "crash"
    computed,   \* keys computed in the current run
    status,     \* "running" | "raised" | "done" | "end"
    verify,     \* TRUE: the current run follows a completed run
    crashes,
    snaps,      \* crash snapshots so far (only when EmitOn)
    fresh       \* TRUE exactly in the state right after a Crash

vars == <<design, policy, fin, tmp, pc, taken, res, computed, status, verify, crashes, snaps, fresh,
          fn, fv, memo, clears, extra, ops, missing, dirok>>
mem == <<fn, fv, memo, clears, extra, ops, missing, dirok>>
files == <<fin, tmp>>
conf == <<design, policy>>

Init ==
    /\ design \in (IF Design = "any" THEN {"direct", "temp"} ELSE {Design})
    /\ policy \in (IF Policy = "any" THEN {"trust", "validate"} ELSE {Policy})
    /\ (Design = "any" /\ Policy = "any") => ~(design = "direct" /\ policy = "trust")
    /\ fin = [k \in Keys |-> Absent]
    /\ tmp = [k \in Keys |-> Absent]
    /\ pc = [w \in Workers |-> IdlePc]
    /\ taken = {}
    /\ res = [k \in Keys |-> 0]
    /\ computed = {}
    /\ fn = 1 /\ fv = [k \in Keys |-> 0] /\ memo = [k \in Keys |-> 0]
    /\ clears = 0 /\ extra = 0 /\ ops = <<"run">> /\ missing = Keys /\ dirok = TRUE
    /\ status = "running"
    /\ verify = FALSE
    /\ crashes = 0
    /\ snaps = <<>>
    /\ fresh = FALSE

At(w, stage) == status = "running" /\ pc[w].at = stage
Goto(w, stage) == pc' = [pc EXCEPT ![w].at = stage]

Take(w, k) ==
    /\ At(w, "idle")
    /\ k \notin taken
    /\ Fifo => \A j \in Keys : j < k => j \in taken
    /\ pc' = [pc EXCEPT ![w] = [k |-> k, at |-> "taken", b |-> 0, mv |-> FALSE, v |-> 0]]
    /\ taken' = taken \cup {k}
    /\ fresh' = FALSE
    /\ UNCHANGED <<conf, mem, files, res, computed, status, verify, crashes, snaps>>

\* file.exists()
Lookup(w) ==
    /\ At(w, "taken")
    /\ Goto(w, IF Fwd /\ fin[Nm(pc[w].k)] # Absent THEN "hit" ELSE "miss")
    /\ fresh' = FALSE
    /\ UNCHANGED <<conf, mem, files, taken, res, computed, status, verify, crashes, snaps>>

LoadOk(w) ==
    /\ At(w, "hit")
    /\ fin[Nm(pc[w].k)] = L
    /\ LET k == pc[w].k
           val == IF Memo /\ memo[Nm(k)] # 0 THEN memo[Nm(k)] ELSE fv[Nm(k)]      \* contract: what is on disk
       IN /\ res' = [res EXCEPT ![k] = val]
          /\ memo' = IF Memo THEN [memo EXCEPT ![Nm(k)] = val] ELSE memo
    /\ pc' = [pc EXCEPT ![w] = IdlePc]
    /\ fresh' = FALSE
    /\ UNCHANGED <<conf, dirok, missing, fn, fv, clears, extra, ops, files, taken, computed, status, verify, crashes, snaps>>

\* loading a file that is not whole fails; what that means is the policy
LoadBad(w) ==
    /\ At(w, "hit")
    /\ fin[Nm(pc[w].k)] # L
    /\ IF policy = "trust"
          THEN status' = "raised" /\ pc' = pc
          ELSE status' = status /\ Goto(w, "miss")
    /\ fresh' = FALSE
    /\ UNCHANGED <<conf, mem, files, taken, res, computed, verify, crashes, snaps>>

Compute(w) ==
    /\ At(w, "miss")
    /\ pc' = [pc EXCEPT ![w].at = "computed", ![w].v = Val(fn, pc[w].k)]
    /\ computed' = computed \cup {pc[w].k}
    /\ fresh' = FALSE
    /\ UNCHANGED <<conf, mem, files, taken, res, status, verify, crashes, snaps>>

\* open(..., "wb") creates or truncates
\* an entry point that dropped the cache returns the computed value without storing it
ReturnUnstored(w) ==
    /\ ~Fwd /\ At(w, "computed")
    /\ res' = [res EXCEPT ![pc[w].k] = pc[w].v]
    /\ pc' = [pc EXCEPT ![w] = IdlePc]
    /\ fresh' = FALSE
    /\ UNCHANGED <<conf, mem, files, taken, computed, status, verify, crashes, snaps>>

\* the directory is gone and nobody re-creates it: the save raises
OpenFails(w) ==
    /\ Fwd /\ ~dirok /\ At(w, "computed")
    /\ status' = "raised"
    /\ fresh' = FALSE
    /\ UNCHANGED <<conf, mem, files, pc, taken, res, computed, verify, crashes, snaps>>

Open(w) ==
    /\ Fwd /\ dirok
    /\ At(w, "computed")
    /\ pc' = [pc EXCEPT ![w].at = "writing", ![w].b = 0]
    /\ IF design = "direct"
          THEN fin' = [fin EXCEPT ![Nm(pc[w].k)] = 0] /\ tmp' = tmp
          ELSE tmp' = [tmp EXCEPT ![Nm(pc[w].k)] = 0] /\ fin' = fin
    /\ fresh' = FALSE
    /\ UNCHANGED <<conf, mem, taken, res, computed, status, verify, crashes, snaps>>

\* the file the open handle of worker w writes into
IntoFinal(w) == design = "direct" \/ pc[w].mv
Content(w) == IF IntoFinal(w) THEN fin[Nm(pc[w].k)] ELSE tmp[Nm(pc[w].k)]
SetContent(w, c) ==
    IF IntoFinal(w) THEN fin' = [fin EXCEPT ![Nm(pc[w].k)] = c] /\ tmp' = tmp
                    ELSE tmp' = [tmp EXCEPT ![Nm(pc[w].k)] = c] /\ fin' = fin

\* write(): the chunk goes into the buffer of the file object
Write(w) ==
    /\ At(w, "writing")
    /\ pc[w].b < L
    /\ pc' = [pc EXCEPT ![w].b = @ + 1]
    /\ fresh' = FALSE
    /\ UNCHANGED <<conf, mem, files, taken, res, computed, status, verify, crashes, snaps>>

\* the buffer spills one chunk into the file (may happen at any time)
Flush(w) ==
    /\ At(w, "writing")
    /\ Content(w) < pc[w].b
    /\ SetContent(w, Content(w) + 1)
    /\ fv' = IF IntoFinal(w) THEN [fv EXCEPT ![Nm(pc[w].k)] = pc[w].v] ELSE fv   \* whose result the final path is getting
    /\ fresh' = FALSE
    /\ UNCHANGED <<conf, dirok, missing, fn, memo, clears, extra, ops, pc, taken, res, computed, status, verify, crashes, snaps>>

\* close() flushes whatever is still buffered
Close(w) ==
    /\ At(w, "writing")
    /\ pc[w].b = L
    /\ (RenameAt = "written" /\ design = "temp") => pc[w].mv     \* the wrong order always renames first
    /\ SetContent(w, L)
    /\ fv' = IF IntoFinal(w) THEN [fv EXCEPT ![Nm(pc[w].k)] = pc[w].v] ELSE fv
    /\ Goto(w, IF IntoFinal(w) THEN "saved" ELSE "closed")
    /\ fresh' = FALSE
    /\ UNCHANGED <<conf, dirok, missing, fn, memo, clears, extra, ops, taken, res, computed, status, verify, crashes, snaps>>

\* wrong order: the temporary file is moved onto the final path while it is still open
RenameEarly(w) ==
    /\ RenameAt = "written" /\ design = "temp"
    /\ At(w, "writing") /\ pc[w].b = L /\ ~pc[w].mv
    /\ fin' = [fin EXCEPT ![Nm(pc[w].k)] = tmp[Nm(pc[w].k)]]
    /\ tmp' = [tmp EXCEPT ![Nm(pc[w].k)] = Absent]
    /\ pc' = [pc EXCEPT ![w].mv = TRUE]
    /\ fv' = [fv EXCEPT ![Nm(pc[w].k)] = pc[w].v]
    /\ fresh' = FALSE
    /\ UNCHANGED <<conf, dirok, missing, fn, memo, clears, extra, ops, taken, res, computed, status, verify, crashes, snaps>>

\* atomic replace of the final path by the temporary file
Rename(w) ==
    /\ RenameAt = "closed"
    /\ At(w, "closed")
    /\ fin' = [fin EXCEPT ![Nm(pc[w].k)] = tmp[Nm(pc[w].k)]]
    /\ tmp' = [tmp EXCEPT ![Nm(pc[w].k)] = Absent]
    /\ fv' = [fv EXCEPT ![Nm(pc[w].k)] = pc[w].v]
    /\ Goto(w, "saved")
    /\ fresh' = FALSE
    /\ UNCHANGED <<conf, dirok, missing, fn, memo, clears, extra, ops, taken, res, computed, status, verify, crashes, snaps>>

Return(w) ==
    /\ At(w, "saved")
    /\ res' = [res EXCEPT ![pc[w].k] = pc[w].v]
    /\ pc' = [pc EXCEPT ![w] = IdlePc]
    /\ fresh' = FALSE
    /\ UNCHANGED <<conf, mem, files, taken, computed, status, verify, crashes, snaps>>

FinishRun ==
    /\ status = "running"
    /\ \A k \in Keys : res[k] # 0
    /\ status' = "done"
    /\ fresh' = FALSE
    /\ UNCHANGED <<conf, mem, files, pc, taken, res, computed, verify, crashes, snaps>>

StartRun ==
    /\ pc' = [w \in Workers |-> IdlePc]
    /\ taken' = {}
    /\ res' = [k \in Keys |-> 0]
    /\ computed' = {}
    /\ status' = "running"

\* the caller repeats a completed run: everything must now come from disk
NextRun ==
    /\ status = "done" /\ (~verify \/ extra < MaxExtra)
    /\ StartRun
    /\ verify' = TRUE
    /\ extra' = IF verify THEN extra + 1 ELSE extra
    /\ ops' = Append(ops, "rerun")
    /\ missing' = {k \in Keys : fin[Nm(k)] # L}
    /\ fresh' = FALSE
    /\ UNCHANGED <<conf, dirok, fn, fv, memo, clears, files, crashes, snaps>>

\* the caller deletes SOME entries (half-filled cache) and runs again: exactly those have to be computed
DropEntries(S) ==
    /\ status = "done" /\ S # {} /\ S # Keys /\ Len(SelectSeq(ops, LAMBDA o : o = "rerun*")) < MaxDrop
    /\ \A k \in S : fin[Nm(k)] = L
    /\ fin' = [n \in Keys |-> IF \E k \in S : Nm(k) = n THEN Absent ELSE fin[n]]
    /\ fv' = [n \in Keys |-> IF \E k \in S : Nm(k) = n THEN 0 ELSE fv[n]]
    /\ StartRun
    /\ verify' = FALSE
    /\ missing' = S
    /\ ops' = ops \o <<"drop" \o ToString(S), "rerun*">>
    /\ fresh' = FALSE
    /\ UNCHANGED <<conf, dirok, fn, memo, clears, extra, tmp, crashes, snaps>>

\* the caller (same process) mutates the objects a completed run returned
Mutate ==
    /\ status = "done" /\ verify /\ extra < MaxExtra /\ ops[Len(ops)] # "mutate"
    /\ memo' = IF Memo THEN [k \in Keys |-> IF memo[k] # 0 THEN 99 ELSE 0] ELSE memo
    /\ ops' = Append(ops, "mutate")
    /\ fresh' = FALSE
    /\ UNCHANGED <<conf, dirok, missing, fn, fv, clears, extra, files, pc, taken, res, computed, status, verify, crashes, snaps>>

\* the caller deletes the cache directory because the mapped function changed, and runs again (same process)
ClearCache ==
    /\ status = "done" /\ clears < MaxClear
    /\ fin' = [k \in Keys |-> Absent] /\ tmp' = [k \in Keys |-> Absent]
    /\ fv' = [k \in Keys |-> 0]
    /\ fn' = fn + 1
    /\ clears' = clears + 1 /\ extra' = 0
    /\ StartRun
    /\ verify' = FALSE
    /\ ops' = ops \o <<"clear", "run">>
    /\ missing' = Keys
    /\ dirok' = ~MkdirAtBuild          \* contract: the run that follows creates the directory again
    /\ fresh' = FALSE
    /\ UNCHANGED <<conf, memo, crashes, snaps>>

EndAll ==
    /\ status = "done" /\ verify
    /\ status' = "end"
    /\ fresh' = FALSE
    /\ UNCHANGED <<conf, mem, files, pc, taken, res, computed, verify, crashes, snaps>>

Snapshot == [pcs |-> pc, fin |-> fin, tmp |-> tmp, verify |-> verify, done |-> {k \in Keys : res[k] # 0}]

\* the run is killed: every worker is gone, the files stay; the caller runs again
Crash ==
    /\ status = "running"
    /\ crashes < MaxCrash
    /\ StartRun
    /\ crashes' = crashes + 1
    /\ snaps' = IF EmitOn THEN Append(snaps, Snapshot) ELSE snaps
    /\ memo' = [k \in Keys |-> 0]                 \* a fresh process
    /\ ops' = Append(ops, "crash")
    /\ IF Recover
          THEN \* the next run's set-up block publishes every leftover temporary file under its final name
               /\ fin' = [n \in Keys |-> IF tmp[n] # Absent THEN tmp[n] ELSE fin[n]]
               /\ tmp' = [n \in Keys |-> Absent]
               /\ fv' = [n \in Keys |-> IF tmp[n] # Absent THEN Val(fn, n) ELSE fv[n]]
          ELSE UNCHANGED <<files, fv>>
    /\ missing' = {k \in Keys : fin'[Nm(k)] # L}
    /\ fresh' = TRUE
    /\ UNCHANGED <<conf, dirok, fn, clears, extra, verify>>

Stutter == status \in {"end", "raised"} /\ UNCHANGED vars

Tau(w) == Lookup(w) \/ ReturnUnstored(w) \/ OpenFails(w) \/ Open(w) \/ Write(w) \/ Flush(w) \/ Close(w) \/ Rename(w) \/ RenameEarly(w) \/ Return(w)

Progress ==
    \/ \E w \in Workers : \/ \E k \in Keys : Take(w, k)
                          \/ Tau(w) \/ LoadOk(w) \/ LoadBad(w) \/ Compute(w)
    \/ FinishRun \/ NextRun \/ EndAll \/ Mutate \/ ClearCache
    \/ \E S \in SUBSET Keys : DropEntries(S)

Next == Progress \/ Crash \/ Stutter

Spec == Init /\ [][Next]_vars /\ WF_vars(Progress)

-----------------------------------------------------------------------------
Contents == {Absent} \cup (0..L)
Stages == {"idle", "taken", "hit", "miss", "computed", "writing", "closed", "saved"}

TypeOK ==
    /\ fin \in [Keys -> Contents] /\ tmp \in [Keys -> Contents]
    /\ \A w \in Workers : pc[w].k \in 0..NKeys /\ pc[w].at \in Stages /\ pc[w].b \in 0..L
    /\ taken \subseteq Keys /\ computed \subseteq Keys
    /\ status \in {"running", "raised", "done", "end"}

NoRaise == status # "raised"
\* every completed run returns the results of the function the caller uses NOW: a hit returns what is on disk
RightResults == status \in {"done", "end"} => \A k \in Keys : res[k] = Val(fn, k)
\* the key -> stored-entry map is injective: two distinct keys never read or overwrite each other's entry
Injective == \A a, b \in Keys : a # b => Nm(a) # Nm(b)
NoRecompute == verify => computed = {}
\* the cache contract holds through every entry point that takes cache=: a completed run leaves one whole entry per
\* key, and a run computes exactly the keys whose entry was missing when it started (fresh cache: all; repeated run:
\* none; half-filled cache: the missing ones)
AllStored == status \in {"done", "end"} => \A k \in Keys : fin[Nm(k)] = L
ComputesExactlyMissing == status \in {"done", "end"} => computed = missing
FinalWhole == design = "temp" => \A k \in Keys : fin[k] \in {Absent, L}
\* two workers never hold the same key
OneOwner == \A v, w \in Workers : (v # w /\ pc[v].k # 0) => pc[v].k # pc[w].k
Terminates == <>(status = "end")

EmitOps == (EmitOn /\ status = "end" /\ (MaxClear > 0 \/ MaxDrop > 0)) =>
    PrintT("@J@" \o ToJson([nk |-> NKeys, w |-> W, ops |-> ops]) \o "@E@")

Emit == (EmitOn /\ fresh) =>
    PrintT("@J@" \o ToJson([nk |-> NKeys, w |-> W, l |-> L, design |-> design, policy |-> policy,
                            crashes |-> snaps,
                            recompute |-> {k \in Keys : fin[k] # L}]) \o "@E@")
=============================================================================
