\* C15: the implementation-shaped WRONG reporter: after a failed steady-state search get_result hands back the
\* results the simulator already held (an earlier successful simulate) -- a state presented as steady although no
\* steady state was reached.  TLC must refute it (Plumbing) on the accumulating networks with a history.
CONSTANTS
    MaxSteps = 1000
    Loop = "copy"
    Family = "accum"
    Tier = "quick"
    NanRule = "notconverged"
    FluxRule = "segment"
    ScanNorm = "asked"
    Reporter = "earlier"
    EmitOn = FALSE
INIT Init
NEXT Next
INVARIANT Plumbing
CHECK_DEADLOCK FALSE
