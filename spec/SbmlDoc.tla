------------------------------- MODULE SbmlDoc -------------------------------
(***************************************************************************)
(* C17 -- SBML import builds the model the document describes.             *)
(*                                                                         *)
(* PART 1: an abstract SBML level 3 document and ITS MEANING (pure         *)
(* operators, independent of MxlPy):                                       *)
(*   comps   : [id -> [size]]                 constant compartments        *)
(*   species : Seq([id, comp, init, boundary, constant])   concentrations  *)
(*             (hasOnlySubstanceUnits = false)                             *)
(*   pars    : [id -> [v, constant]]                                       *)
(*   fundefs : [id -> [params, e]]            function definitions         *)
(*   rules   : [id -> e]                      assignment rules (targets:   *)
(*             non-constant parameters, species reference ids)             *)
(*   ias     : [id -> e]                      initial assignments          *)
(*             (parameters, species)                                       *)
(*   rxns    : [id -> [reactants, products, kl]]  participants are         *)
(*             [species, st] with st = [k |-> "num", v] (constant, may be  *)
(*             fractional) or [k |-> "ref", id] (value of the rule for     *)
(*             that species reference id)                                  *)
(* Expressions are Expr ASTs restricted to constructs whose SBML meaning   *)
(* is Expr's (+ - * / ^, unary minus, abs, min, max, two-operand           *)
(* relations, and / or / not, piecewise = nested Ite, calls of function    *)
(* definitions, transcendental functions and pi as opaque terms); no       *)
(* events, algebraic rules, delays, rate rules.                            *)
(* Meaning: a species id denotes its concentration; a kinetic law is an    *)
(* extent rate; for a species S that is neither boundary nor constant      *)
(*     d[S]/dt = (SUM products st * v_r - SUM reactants st * v_r)          *)
(*               / size(compartment(S))                                    *)
(* boundary / constant species keep their (initially assigned) value;      *)
(* assignment rules hold at every state; function definitions are applied  *)
(* by substitution of arguments; initial assignments are evaluated once at *)
(* t = 0 and override the value attributes.  (The convention "species id   *)
(* = concentration variable, coefficient / compartment size" was confirmed *)
(* by reading the importer's generated module for a hand-made document.)   *)
(*                                                                         *)
(* PART 2: a family of documents built by actions (skeleton, then one      *)
(* expression per slot grown top-down, then participants from a menu) and  *)
(* an identifier scheme that maps the canonical ids to awkward legal SIds  *)
(* (lambda, in, def, _x, A1, S, E, I, beta, gamma ...).  Every finished    *)
(* document is emitted with its meaning at three states.                   *)
(* TLC checks on every finished document: IdsIrrelevant (the meaning does  *)
(* not depend on the identifier scheme), BoundaryFixed, Conservation (a    *)
(* 1:1 conversion in one compartment leaves the sum unchanged), and with   *)
(* NoDivide = TRUE the convention-shaped wrong instance (coefficients not  *)
(* divided by the compartment size) is refuted.                            *)
(***************************************************************************)
EXTENDS PyFn, TLC, Json

\* ===== PART 1: meaning ===============================================================================
SpIdx(doc, s) == CHOOSE j \in DOMAIN doc.species : doc.species[j].id = s
Sp(doc, s) == doc.species[SpIdx(doc, s)]
SpeciesIds(doc) == {doc.species[j].id : j \in DOMAIN doc.species}
DynSpecies(doc) == {s \in SpeciesIds(doc) : ~Sp(doc, s).boundary /\ ~Sp(doc, s).constant}
FixSpecies(doc) == SpeciesIds(doc) \ DynSpecies(doc)
\* declaration order of the dynamic species
DynSeq(doc) == SelectSeq([j \in DOMAIN doc.species |-> doc.species[j].id], LAMBDA s : s \in DynSpecies(doc))

DocFT(doc) == [f \in DOMAIN doc.fundefs |-> FnDef(doc.fundefs[f].params, <<Ret(doc.fundefs[f].e)>>)]
              @@ [pi |-> ConstDef(Skip)]

Item(n, e) == [name |-> n, e |-> e]
RuleItems(doc) == {Item(r, doc.rules[r]) : r \in DOMAIN doc.rules}
RxnItems(doc)  == {Item(r, doc.rxns[r].kl) : r \in DOMAIN doc.rxns}
IaItems(doc)   == {Item(s, doc.ias[s]) : s \in DOMAIN doc.ias}

\* evaluate items whose free names are all known until nothing changes (order-free)
RECURSIVE Sat(_, _, _)
Sat(ft, items, env) ==
    LET ready == {it \in items : it.name \notin DOMAIN env /\ FreeVars(it.e) \subseteq DOMAIN env}
    IN IF ready = {} THEN env
       ELSE LET it == CHOOSE x \in ready : TRUE
                v  == Eval(it.e, env, ft)
            IN Sat(ft, items, [n \in DOMAIN env \cup {it.name} |-> IF n = it.name THEN (IF IsBoolV(v) THEN Skip ELSE v) ELSE env[n]])

\* names with a value attribute that nothing overrides
Plain(doc) ==
    [n \in (DOMAIN doc.comps \cup (DOMAIN doc.pars \ (DOMAIN doc.rules \cup DOMAIN doc.ias))
            \cup (SpeciesIds(doc) \ DOMAIN doc.ias)) |->
        IF n \in DOMAIN doc.comps THEN doc.comps[n].size
        ELSE IF n \in DOMAIN doc.pars THEN doc.pars[n].v ELSE Sp(doc, n).init]

\* everything at t = 0: initial assignments, rules, rates
InitEnv(doc) ==
    Sat(DocFT(doc), IaItems(doc) \cup RuleItems(doc) \cup RxnItems(doc),
        [n \in DOMAIN Plain(doc) \cup {"time"} |-> IF n = "time" THEN Zero ELSE Plain(doc)[n]])

InitialValues(doc) == [s \in DynSpecies(doc) |-> InitEnv(doc)[s]]

\* at state y (a function on DynSpecies) and time t: initial assignments are frozen, rules and rates follow the state
EnvAt(doc, y, t) ==
    LET i0 == InitEnv(doc)
        frozen == DOMAIN Plain(doc) \cup DOMAIN doc.ias
    IN Sat(DocFT(doc), RuleItems(doc) \cup RxnItems(doc),
           [n \in frozen \cup {"time"} |-> IF n = "time" THEN t ELSE IF n \in DynSpecies(doc) THEN y[n] ELSE i0[n]])

StVal(st, env) == IF st.k = "num" THEN st.v ELSE IF st.id \in DOMAIN env THEN env[st.id] ELSE Undef

RECURSIVE SumSide(_, _, _, _)
SumSide(parts, i, s, env) ==
    IF i > Len(parts) THEN Zero
    ELSE RAdd(IF parts[i].species = s THEN StVal(parts[i].st, env) ELSE Zero, SumSide(parts, i + 1, s, env))

\* net extent-rate coefficient of species s in reaction r
NetCoef(doc, r, s, env) ==
    RSub(SumSide(doc.rxns[r].products, 1, s, env), SumSide(doc.rxns[r].reactants, 1, s, env))

\* Addition of the per-reaction terms.  RAdd is strict, left operand first, so WHICH non-number a sum with two bad
\* terms yields (Undef: the document is undefined there, Skip: the specification declines) would depend on the order
\* in which the SET of reactions is traversed - i.e. on how the reactions are called.  CAdd is commutative on the
\* non-numbers: an undefined term makes the sum undefined whatever else is declined.
CAdd(a, b) == IF a = Undef \/ b = Undef THEN Undef ELSE IF Bad(a) THEN a ELSE IF Bad(b) THEN b ELSE RAdd(a, b)

RECURSIVE SumRxns(_, _, _, _, _)
SumRxns(doc, rs, s, env, divide) ==
    IF rs = {} THEN Zero
    ELSE LET r == CHOOSE x \in rs : TRUE
             term == RMul(NetCoef(doc, r, s, env), IF r \in DOMAIN env THEN env[r] ELSE Undef)
         IN CAdd(IF divide THEN RDiv(term, doc.comps[Sp(doc, s).comp].size) ELSE term,
                 SumRxns(doc, rs \ {r}, s, env, divide))

Touches(doc, r, s) ==
    \/ \E j \in DOMAIN doc.rxns[r].products : doc.rxns[r].products[j].species = s
    \/ \E j \in DOMAIN doc.rxns[r].reactants : doc.rxns[r].reactants[j].species = s

RateOf(doc, s, env, divide) == SumRxns(doc, {r \in DOMAIN doc.rxns : Touches(doc, r, s)}, s, env, divide)
Rhs(doc, y, t) == LET env == EnvAt(doc, y, t) IN [s \in DynSpecies(doc) |-> RateOf(doc, s, env, TRUE)]

\* ---- closed terms: the same meaning as an expression without variables ---------------------------------
\* Where a transcendental function or pi makes Eval decline (Skip), the specification still decides WHICH
\* function is applied to WHICH exact arguments: every name is replaced by its closed term, calls of function
\* definitions are inlined (simultaneous substitution).  The harness only evaluates the closed term with math.*.
\* ClosedAgrees (TLC-checked): wherever Eval decides, the closed term evaluates to the same rational.
RECURSIVE InlineCalls(_, _)
InlineCalls(e, d) ==
    IF e.k = "call"
    THEN IF e.name \in DOMAIN d.fundefs
         THEN LET f == d.fundefs[e.name]
                  as == [j \in DOMAIN e.args |-> InlineCalls(e.args[j], d)]
              IN Subst(f.e, [x \in SeqRange(f.params) |-> as[CHOOSE j \in DOMAIN f.params : f.params[j] = x]])
         ELSE Lit(Undef)
    ELSE IF e.k \in UnOps THEN [e EXCEPT !.a = InlineCalls(e.a, d)]
    ELSE IF e.k \in BinOps THEN [e EXCEPT !.a = InlineCalls(e.a, d), !.b = InlineCalls(e.b, d)]
    ELSE IF e.k = "ite" THEN [e EXCEPT !.c = InlineCalls(e.c, d), !.a = InlineCalls(e.a, d), !.b = InlineCalls(e.b, d)]
    ELSE IF e.k \in NaryOps THEN [e EXCEPT !.args = [j \in DOMAIN e.args |-> InlineCalls(e.args[j], d)]]
    ELSE e

RECURSIVE CSat(_, _, _)
CSat(d, items, cenv) ==
    LET ready == {it \in items : it.name \notin DOMAIN cenv /\ FreeVars(it.e) \subseteq DOMAIN cenv}
    IN IF ready = {} THEN cenv
       ELSE LET it == CHOOSE x \in ready : TRUE
                ce == Subst(InlineCalls(it.e, d), cenv)
            IN CSat(d, items, [n \in DOMAIN cenv \cup {it.name} |-> IF n = it.name THEN ce ELSE cenv[n]])

CInitEnv(d) ==
    CSat(d, IaItems(d) \cup RuleItems(d) \cup RxnItems(d),
         [n \in DOMAIN Plain(d) \cup {"time"} |-> IF n = "time" THEN Lit(Zero) ELSE Lit(Plain(d)[n])])

CEnvAt(d, y, t) ==
    LET c0 == CInitEnv(d)
        frozen == DOMAIN Plain(d) \cup DOMAIN d.ias
    IN CSat(d, RuleItems(d) \cup RxnItems(d),
            [n \in frozen \cup {"time"} |->
                IF n = "time" THEN Lit(t)
                ELSE IF n \in DynSpecies(d) THEN (IF RatV(y[n]) THEN Lit(y[n]) ELSE c0[n]) ELSE c0[n]])

CSt(st, cenv) == IF st.k = "num" THEN Lit(st.v) ELSE IF st.id \in DOMAIN cenv THEN cenv[st.id] ELSE Lit(Undef)
RECURSIVE CSide(_, _, _, _)
CSide(parts, i, s, cenv) ==
    IF i > Len(parts) THEN Lit(Zero)
    ELSE IF parts[i].species = s THEN Bin("add", CSt(parts[i].st, cenv), CSide(parts, i + 1, s, cenv))
    ELSE CSide(parts, i + 1, s, cenv)
RECURSIVE CSumRxns(_, _, _, _)
CSumRxns(d, rs, s, cenv) ==
    IF rs = {} THEN Lit(Zero)
    ELSE LET r == CHOOSE x \in rs : TRUE
             coef == Bin("sub", CSide(d.rxns[r].products, 1, s, cenv), CSide(d.rxns[r].reactants, 1, s, cenv))
         IN Bin("add", Bin("div", Bin("mul", coef, IF r \in DOMAIN cenv THEN cenv[r] ELSE Lit(Undef)),
                          Lit(d.comps[Sp(d, s).comp].size)),
                CSumRxns(d, rs \ {r}, s, cenv))
CRate(d, s, cenv) == CSumRxns(d, {r \in DOMAIN d.rxns : Touches(d, r, s)}, s, cenv)
NoEnv == [n \in {} |-> Zero]
ClosedValue(ce) == LET v == Eval(ce, NoEnv, [pi |-> ConstDef(Skip)]) IN IF IsBoolV(v) THEN Skip ELSE v

\* resolvable: every item gets a value (no cycles, no unknown ids)
Resolves(doc) ==
    /\ DOMAIN doc.ias \cup DOMAIN doc.rules \cup DOMAIN doc.rxns \subseteq DOMAIN InitEnv(doc)

\* ===== PART 2: the family ==============================================================================
CONSTANTS
    MaxSpecies,     \* 1..MaxSpecies species s1, s2, s3
    MaxRxn,         \* 1..MaxRxn reactions
    Features,       \* optional parts a skeleton may have: subset of {"rule", "iap", "ias", "fun", "two", "rrule"}
    NumLits, Half,
    UnOn, BinOn, CmpOn, BoolOn, IteOn, FnOn, CallOn, PiOn,
    MaxDepth, MaxToks,
    Schemes,        \* identifier schemes offered
    NoDivide,       \* TRUE: DividedBySize is evaluated against the wrong convention (expected violation)
    EmitOn

VARIABLES doc, slots, i, toks, todo, scheme

vars == <<doc, slots, i, toks, todo, scheme>>

A == Var("a")  B == Var("b")
Empty == [n \in {} |-> 0]

\* function definitions offered (one per document, or none)
FunMenu ==
    {[params |-> <<"a", "b">>, e |-> Bin("div", A, Bin("add", B, A))],
     [params |-> <<"a", "b">>, e |-> Bin("sub", Bin("mul", A, Num(2)), B)],
     [params |-> <<"b", "a">>, e |-> Ite(Cmp2("lt", A, B), A, Bin("pow", B, Num(2)))]}

SpeciesMenu(n) ==
    \* flags of s1..sn: s1 is always a plain species
    {fl \in [1..n -> {"dyn", "boundary", "const"}] : fl[1] = "dyn"}

CompSizes == {RFromInt(1), RFromInt(2)}
SpInit == <<RFromInt(3), RFromInt(1), R(5, 2)>>
SpName == <<"s1", "s2", "s3">>

\* slots that need an expression, in filling order (no forward references between them)
SlotSeq(nr, withRule, withIaP, withIaS, withRRule) ==
    (IF withIaP THEN <<[kind |-> "iap", name |-> "kia"]>> ELSE <<>>)
    \o (IF withIaS THEN <<[kind |-> "ias", name |-> "s1"]>> ELSE <<>>)
    \o (IF withRule THEN <<[kind |-> "rule", name |-> "v"]>> ELSE <<>>)
    \o [j \in 1..nr |-> [kind |-> "rxn", name |-> <<"r1", "r2", "r3">>[j]]]
    \* a rule whose only non-constant arguments are REACTION ids (w = 1 / (1 + k2 * r1) ...): it follows the state through
    \* the rate, although it names no species and no time
    \o (IF withRRule THEN <<[kind |-> "rrule", name |-> "w"]>> ELSE <<>>)

RRuleMenu == {Bin("div", Num(1), Bin("add", Num(1), Bin("mul", Var("k2"), Var("r1")))),
              Bin("sub", Bin("mul", Var("k1"), Var("r1")), Num(1))}

Opt(f) == IF f \in Features THEN BOOLEAN ELSE {FALSE}
Open(t, d) == [t |-> t, d |-> d]
Fresh == <<Open("num", MaxDepth)>>

Init ==
    /\ \E n \in 1..MaxSpecies, nr \in 1..MaxRxn, withRule \in Opt("rule"), withIaP \in Opt("iap"), withIaS \in Opt("ias"),
          withFun \in Opt("fun"), size1 \in CompSizes, two \in Opt("two"), withRRule \in Opt("rrule") :
          \E fl \in SpeciesMenu(n) :
             /\ doc = [comps |-> IF two THEN [c \in {"c1", "c2"} |-> [size |-> IF c = "c1" THEN size1 ELSE RFromInt(2)]]
                                 ELSE [c \in {"c1"} |-> [size |-> size1]],
                       species |-> [j \in 1..n |->
                                      [id |-> SpName[j], comp |-> IF two /\ j = 2 THEN "c2" ELSE "c1", init |-> SpInit[j],
                                       boundary |-> fl[j] # "dyn", constant |-> fl[j] = "const"]],
                       pars |-> [p \in {"k1", "k2"} \cup (IF withRule THEN {"v"} ELSE {}) \cup (IF withIaP THEN {"kia"} ELSE {})
                                       \cup (IF withRRule THEN {"w"} ELSE {}) |->
                                   [v |-> IF p = "k1" THEN RFromInt(3) ELSE IF p = "k2" THEN R(1, 2) ELSE Zero,
                                    constant |-> p \notin {"v", "w"}]],
                       fundefs |-> IF withFun THEN [f \in {"f"} |-> CHOOSE x \in FunMenu : TRUE] ELSE Empty,
                       rules |-> Empty, ias |-> Empty, rxns |-> Empty]
             /\ slots = SlotSeq(nr, withRule, withIaP, withIaS, withRRule)
    /\ i = 1
    /\ toks = <<>>
    /\ todo = Fresh
    /\ scheme \in Schemes

\* the function definition is one of the menu (chosen when the first call is built would need another variable;
\* instead the menu entry is re-chosen by PickFun right after Init)
Done == i > Len(slots)

\* ids an expression may mention
Pool ==
    LET s == slots[i] IN
    IF s.kind \in {"iap", "ias"}
    THEN {"k1", "k2"} \cup DOMAIN doc.comps \cup (SpeciesIds(doc) \ {"s1"})       \* only names with plain values: no cycles
    ELSE SpeciesIds(doc) \cup {"k1", "k2", "time"} \cup DOMAIN doc.comps
         \cup {slots[j].name : j \in {m \in 1..(i - 1) : slots[m].kind \in {"iap", "rule", "rxn"}}}

Tok(k, s, s2, j, ar) == [k |-> k, s |-> s, s2 |-> s2, i |-> j, ar |-> ar]
NumAtoms == {Tok("var", x, "", 0, 0) : x \in Pool} \cup {Tok("num", "", "", j, 0) : j \in NumLits}
            \cup (IF Half THEN {Tok("half", "", "", 0, 0)} ELSE {})
            \cup (IF PiOn THEN {Tok("const", "pi", "", 0, 0)} ELSE {})
NumOps == {Tok(op, "", "", 0, 1) : op \in UnOn} \cup {Tok(op, "", "", 0, 2) : op \in BinOn}
          \cup {Tok("fn", f, "", 0, 1) : f \in FnOn}
          \cup (IF CallOn /\ "f" \in DOMAIN doc.fundefs THEN {Tok("call", "f", "", 0, 2)} ELSE {})
CmpToks == {Tok("cmp", op, "", 0, 2) : op \in CmpOn}
BoolToks == {Tok(op, "", "", 0, IF op = "not" THEN 1 ELSE 2) : op \in BoolOn}

Prods(o) ==
    IF o.t = "num"
    THEN NumAtoms \cup (IF o.d >= 1 THEN NumOps ELSE {})
         \cup (IF o.d >= 2 /\ IteOn THEN {Tok("ite", "", "", 0, 3)} ELSE {})
    ELSE CmpToks \cup (IF o.d >= 2 THEN BoolToks ELSE {})

Children(tk, o) ==
    IF tk.ar = 0 THEN <<>>
    ELSE IF tk.k = "ite" THEN <<Open("bool", o.d - 1), Open("num", o.d - 1), Open("num", o.d - 1)>>
    ELSE IF tk.k \in {"and", "or", "not"} THEN [j \in 1..tk.ar |-> Open("bool", o.d - 1)]
    ELSE [j \in 1..tk.ar |-> Open("num", o.d - 1)]

RECURSIVE NeedAll(_)
NeedAll(td) == IF td = <<>> THEN 0 ELSE (IF td[1].t = "num" THEN 1 ELSE 3) + NeedAll(Tail(td))

\* right after Init (nothing built yet) the function definition may be swapped for another one of the menu
PickFun ==
    /\ i = 1 /\ toks = <<>> /\ "f" \in DOMAIN doc.fundefs
    /\ \E x \in FunMenu : x # doc.fundefs["f"] /\ doc' = [doc EXCEPT !.fundefs = [f \in {"f"} |-> x]]
    /\ UNCHANGED <<slots, i, toks, todo, scheme>>

Expand ==
    /\ ~Done /\ todo # <<>> /\ slots[i].kind # "rrule"
    /\ \E tk \in Prods(todo[1]) :
          LET td == Children(tk, todo[1]) \o Tail(todo) IN
          /\ Len(toks) + 1 + NeedAll(td) <= MaxToks
          /\ toks' = Append(toks, tk)
          /\ todo' = td
    /\ UNCHANGED <<doc, slots, i, scheme>>

RECURSIVE Parse(_, _)
Parse(ts, pos) ==
    LET tk == ts[pos] IN
    IF tk.ar = 0
    THEN [e |-> CASE tk.k = "var" -> Var(tk.s) [] tk.k = "num" -> Num(tk.i) [] tk.k = "half" -> NumR(1, 2)
                  [] OTHER -> Const(tk.s),
          next |-> pos + 1]
    ELSE LET c1 == Parse(ts, pos + 1) IN
         IF tk.ar = 1
         THEN [e |-> IF tk.k = "fn" THEN Fn(tk.s, <<c1.e>>) ELSE [k |-> tk.k, a |-> c1.e], next |-> c1.next]
         ELSE LET c2 == Parse(ts, c1.next) IN
              IF tk.ar = 2
              THEN [e |-> CASE tk.k = "cmp" -> Cmp2(tk.s, c1.e, c2.e)
                            [] tk.k = "call" -> Call(tk.s, <<c1.e, c2.e>>)
                            [] tk.k \in {"min", "max", "and", "or"} -> [k |-> tk.k, args |-> <<c1.e, c2.e>>]
                            [] OTHER -> Bin(tk.k, c1.e, c2.e),
                    next |-> c2.next]
              ELSE LET c3 == Parse(ts, c2.next) IN [e |-> Ite(c1.e, c2.e, c3.e), next |-> c3.next]
Parsed == Parse(toks, 1).e
Complete == ~Done /\ todo = <<>>

\* participants of a reaction: constant, fractional and rule-defined stoichiometries
N1(s, n, d) == [species |-> s, st |-> [k |-> "num", v |-> R(n, d)]]
Ref(s, id) == [species |-> s, st |-> [k |-> "ref", id |-> id]]
PartMenu ==
    LET w == IF Len(doc.species) >= 2 THEN "s2" ELSE "s1"
        u == IF Len(doc.species) >= 3 THEN "s3" ELSE w
    IN {[reactants |-> <<N1("s1", 1, 1)>>, products |-> <<>>, refs |-> Empty],
        [reactants |-> <<>>, products |-> <<N1(w, 2, 1)>>, refs |-> Empty],
        [reactants |-> <<N1("s1", 1, 1)>>, products |-> <<N1(w, 1, 1)>>, refs |-> Empty],
        [reactants |-> <<N1("s1", 2, 1)>>, products |-> <<N1(u, 1, 1)>>, refs |-> Empty],
        [reactants |-> <<N1(w, 1, 2)>>, products |-> <<N1("s1", 3, 2)>>, refs |-> Empty],
        [reactants |-> <<N1("s1", 1, 1)>>, products |-> <<N1("s1", 2, 1), N1(u, 1, 1)>>, refs |-> Empty],
        [reactants |-> <<N1("s1", 1, 1)>>, products |-> <<Ref(w, "sr")>>, refs |-> [n \in {"sr"} |-> Bin("sub", Var("k1"), Num(1))]],
        [reactants |-> <<Ref("s1", "sq")>>, products |-> <<N1(u, 1, 1)>>, refs |-> [n \in {"sq"} |-> Bin("add", Var(w), NumR(1, 2))]]}

Commit ==
    /\ Complete
    /\ LET s == slots[i] e == Parsed IN
          \/ /\ s.kind \in {"iap", "ias"}
             /\ doc' = [doc EXCEPT !.ias = @ @@ (s.name :> e)]
          \/ /\ s.kind = "rule"
             /\ doc' = [doc EXCEPT !.rules = @ @@ (s.name :> e)]
          \/ /\ s.kind = "rxn"
             /\ \E pm \in PartMenu :
                   /\ DOMAIN pm.refs \cap DOMAIN doc.rules = {}
                   /\ doc' = [doc EXCEPT !.rxns = @ @@ (s.name :> [reactants |-> pm.reactants, products |-> pm.products, kl |-> e]),
                                         !.rules = @ @@ pm.refs]
    /\ i' = i + 1
    /\ toks' = <<>>
    /\ todo' = IF i + 1 <= Len(slots) THEN Fresh ELSE <<>>
    /\ UNCHANGED <<slots, scheme>>

\* A finished document has a TWIN: the same document with the kinetic law of r1 doubled - same components, ids and
\* participants (hence a generated module with the same functions on the same lines), another meaning.  The session
\* replay stores twins under the same file stem in two directories: a mix-up of their generated sources is silent.
IsTwin(e) == e.k = "mul" /\ e.a = Num(2)
Twin ==
    /\ Done /\ "r1" \in DOMAIN doc.rxns /\ ~IsTwin(doc.rxns["r1"].kl)
    /\ doc' = [doc EXCEPT !.rxns["r1"].kl = Bin("mul", Num(2), @)]
    /\ UNCHANGED <<slots, i, toks, todo, scheme>>

CommitRRule ==
    /\ ~Done /\ slots[i].kind = "rrule" /\ toks = <<>>
    /\ \E e \in RRuleMenu : doc' = [doc EXCEPT !.rules = @ @@ (slots[i].name :> e)]
    /\ i' = i + 1
    /\ toks' = <<>>
    /\ todo' = IF i + 1 <= Len(slots) THEN Fresh ELSE <<>>
    /\ UNCHANGED <<slots, scheme>>

Next == PickFun \/ Expand \/ Commit \/ CommitRRule \/ Twin
Spec == Init /\ [][Next]_vars

\* ---- identifier schemes -------------------------------------------------------------------------------
IdMap(s) ==
    CASE s = "plain"   -> [s1 |-> "s1"]
      [] s = "sympy"   -> [s1 |-> "S", s2 |-> "E", s3 |-> "I", k1 |-> "beta", k2 |-> "gamma", v |-> "N", kia |-> "Q",
                           r1 |-> "O", r2 |-> "zeta", c1 |-> "C", c2 |-> "pi", f |-> "Lambda", sr |-> "oo", sq |-> "zoo"]
      [] s = "keyword" -> [s1 |-> "lambda", s2 |-> "in", k1 |-> "def", k2 |-> "is", v |-> "class", r1 |-> "pass",
                           f |-> "del", kia |-> "None"]
      [] s = "kwcomp"  -> [c1 |-> "as"]
      [] s = "ucomp"   -> [c2 |-> "_c", c1 |-> "c_"]
      [] s = "under"   -> [s1 |-> "_x", s2 |-> "_", k1 |-> "_1", v |-> "__v", r1 |-> "_r_"]
      [] s = "caps"    -> [s1 |-> "A1", s2 |-> "B2", s3 |-> "a1", k1 |-> "K", k2 |-> "k", r1 |-> "R1", f |-> "F", c1 |-> "Cell"]
      [] s = "amount"  -> [s1 |-> "A1", s2 |-> "A1_amount"]
      [] s = "math"    -> [s1 |-> "exp", s2 |-> "sin", k1 |-> "e", k2 |-> "abs", v |-> "max", r1 |-> "math", c1 |-> "log", f |-> "sqrt"]
      [] s = "formal"  -> [s1 |-> "b", s2 |-> "a", k1 |-> "x", k2 |-> "y"]
      \* ids that are the names the importer GENERATES for its helper functions (init_<symbol>,
      \* <reaction>_stoich_<species>) or that the generated module uses itself
      [] s = "helper"  -> [v |-> "init_kia", r2 |-> "r1_stoich_s1", k2 |-> "init_s1", sr |-> "r1_stoich_s2"]
      [] s = "modnames" -> [v |-> "create_model", r2 |-> "Model", r1 |-> "Model_", w |-> "math_", k1 |-> "Derived", sr |-> "InitialAssignment", sq |-> "scipy"]
AllSchemes == {"plain", "sympy", "keyword", "kwcomp", "under", "ucomp", "caps", "amount", "math", "formal", "helper", "modnames"}

Nm(n) == IF n \in DOMAIN IdMap(scheme) THEN IdMap(scheme)[n] ELSE n
RECURSIVE RenE(_)
RenE(e) ==
    IF e.k = "var" THEN Var(Nm(e.name))
    ELSE IF e.k = "call" THEN Call(Nm(e.name), [j \in DOMAIN e.args |-> RenE(e.args[j])])
    ELSE IF e.k \in UnOps THEN [e EXCEPT !.a = RenE(e.a)]
    ELSE IF e.k \in BinOps THEN [e EXCEPT !.a = RenE(e.a), !.b = RenE(e.b)]
    ELSE IF e.k = "ite" THEN [e EXCEPT !.c = RenE(e.c), !.a = RenE(e.a), !.b = RenE(e.b)]
    ELSE IF e.k \in NaryOps THEN [e EXCEPT !.args = [j \in DOMAIN e.args |-> RenE(e.args[j])]]
    ELSE e
RenTab(f) == [m \in {Nm(n) : n \in DOMAIN f} |-> f[CHOOSE n \in DOMAIN f : Nm(n) = m]]
RenPart(p) == [species |-> Nm(p.species), st |-> IF p.st.k = "num" THEN p.st ELSE [k |-> "ref", id |-> Nm(p.st.id)]]
RenDoc(d) ==
    [comps |-> RenTab(d.comps),
     species |-> [j \in DOMAIN d.species |-> [d.species[j] EXCEPT !.id = Nm(@), !.comp = Nm(@)]],
     pars |-> RenTab(d.pars),
     \* the bound variables of a function definition are local: they keep their names
     fundefs |-> RenTab(d.fundefs),
     rules |-> RenTab([r \in DOMAIN d.rules |-> RenE(d.rules[r])]),
     ias |-> RenTab([r \in DOMAIN d.ias |-> RenE(d.ias[r])]),
     rxns |-> RenTab([r \in DOMAIN d.rxns |->
                 [reactants |-> [j \in DOMAIN d.rxns[r].reactants |-> RenPart(d.rxns[r].reactants[j])],
                  products |-> [j \in DOMAIN d.rxns[r].products |-> RenPart(d.rxns[r].products[j])],
                  kl |-> RenE(d.rxns[r].kl)]])]

AllIds(d) == DOMAIN d.comps \cup SpeciesIds(d) \cup DOMAIN d.pars \cup DOMAIN d.fundefs \cup DOMAIN d.rules
             \cup DOMAIN d.rxns \cup {"time"}
Injective(d) == \A m, n \in AllIds(d) : Nm(m) = Nm(n) => m = n

\* ---- predictions ------------------------------------------------------------------------------------------
YAlt1 == <<RFromInt(1), RFromInt(4), R(1, 2)>>
YAlt2 == <<R(5, 2), RFromInt(2), RFromInt(3)>>
Points ==
    <<[y |-> InitialValues(doc), t |-> Zero],
      [y |-> [s \in DynSpecies(doc) |-> YAlt1[SpIdx(doc, s)]], t |-> RFromInt(2)],
      [y |-> [s \in DynSpecies(doc) |-> YAlt2[SpIdx(doc, s)]], t |-> R(1, 2)]>>

RECURSIVE HasTag(_, _), HasTie(_, _, _), SubExprs(_)
SubExprs(e) == {e} \cup LET ks == Kids(e) IN UNION {SubExprs(ks[j]) : j \in DOMAIN ks}
HasTag(e, tags) == e.k \in tags \/ LET ks == Kids(e) IN \E j \in DOMAIN ks : HasTag(ks[j], tags)
HasTie(e, env, ft) ==
    \/ /\ e.k = "cmp"
       /\ LET l == Eval(e.args[1], env, ft)
              r == Eval(e.args[2], env, ft)
          IN IF RatV(l) /\ RatV(r) THEN l = r ELSE TRUE
    \/ LET ks == Kids(e) IN \E j \in DOMAIN ks : HasTie(ks[j], env, ft)
AllExprs(d) == {d.rules[r] : r \in DOMAIN d.rules} \cup {d.ias[r] : r \in DOMAIN d.ias} \cup {d.rxns[r].kl : r \in DOMAIN d.rxns}
               \cup {d.fundefs[f].e : f \in DOMAIN d.fundefs}
InexactNode(e) ==
    \/ e.k \in {"fn", "const"}
    \/ e.k = "div" /\ ~(e.b.k = "num" /\ e.b.v \in {One, RFromInt(2), R(1, 2)})
    \/ e.k = "pow" /\ ~(e.b.k = "num" /\ IsInt(e.b.v) /\ e.b.v.n >= 0)
Inexact(d) == \E e \in AllExprs(d) : \E s \in SubExprs(e) : InexactNode(s)
\* a comparison inside a function definition is judged after inlining: conservatively, any call makes a tie possible
FragileAt(d, env) ==
    Inexact(d) /\ \E e \in AllExprs(d) \ {d.fundefs[f].e : f \in DOMAIN d.fundefs} :
                     HasTie(e, env, DocFT(d)) \/ (HasTag(e, {"call"}) /\ \E f \in DOMAIN d.fundefs : HasTag(d.fundefs[f].e, {"cmp"}))

\* closed terms are emitted only where the value is Skip
Observed(d) == (DOMAIN d.pars \cup DOMAIN d.rules \cup DOMAIN d.rxns \cup FixSpecies(d) \cup DOMAIN d.comps)
Predict(d, p) ==
    LET env  == EnvAt(d, p.y, p.t)
        cenv == CEnvAt(d, p.y, p.t)
        rhs  == Rhs(d, p.y, p.t)
        obs  == Observed(d) \cap DOMAIN env
    IN [y |-> RenTab(p.y), t |-> p.t,
        cy |-> RenTab([s \in {x \in DOMAIN p.y : p.y[x] = Skip} |-> CInitEnv(d)[s]]),
        vals |-> RenTab([n \in obs |-> env[n]]),
        cvals |-> RenTab([n \in {x \in obs : env[x] = Skip} |-> cenv[n]]),
        rhs |-> RenTab(rhs),
        crhs |-> RenTab([s \in {x \in DOMAIN rhs : rhs[x] = Skip} |-> CRate(d, s, cenv)]),
        fragile |-> FragileAt(d, env)]

Scenario ==
    [doc |-> RenDoc(doc), scheme |-> scheme, resolves |-> Resolves(doc),
     ids |-> [n \in AllIds(doc) \ {"time"} |-> Nm(n)],
     dyn |-> [j \in DOMAIN DynSeq(doc) |-> Nm(DynSeq(doc)[j])],
     fixed |-> {Nm(s) : s \in FixSpecies(doc)},
     opaque |-> \E e \in AllExprs(doc) : HasTag(e, {"fn", "const"}),
     init |-> RenTab(InitialValues(doc)),
     cinit |-> RenTab([s \in {x \in DynSpecies(doc) : InitialValues(doc)[x] = Skip} |-> CInitEnv(doc)[s]]),
     pts |-> [j \in DOMAIN Points |-> Predict(doc, Points[j])]]

Emit == (EmitOn /\ Done /\ Injective(doc)) => PrintT("@J@" \o ToJson(Scenario) \o "@E@")

\* ---- theorems ------------------------------------------------------------------------------------------------
OK == Done /\ Resolves(doc) /\ Injective(doc)

AlwaysResolves == Done => Resolves(doc)

\* The meaning of a document does not depend on how its components are called.  Stated precisely: a value is
\* undefined under one naming iff it is under the other, and wherever both namings give a number it is the same
\* number.  (A sum is accumulated in the traversal order of a set of ids; the magnitude guard of Rat may therefore
\* decline (Skip) under one order and not under another - that is the only freedom left.  The first version of this
\* theorem demanded identical non-numbers and was refuted by TLC on a document with one undefined rate (k / time^c
\* at t = 0) and one declined rate (0 ^ (1/2) in an initial assignment): the sum was Undef or Skip depending on
\* whether the reaction was called r1 or `pass`.)
SameValue(a, b) == /\ (a = Undef) <=> (b = Undef)
                   /\ (RatV(a) /\ RatV(b)) => a = b
SameTab(f, g) == DOMAIN f = DOMAIN g /\ \A n \in DOMAIN f : SameValue(f[n], g[n])
IdsIrrelevant ==
    OK => \A j \in DOMAIN Points :
             LET p == Points[j] IN
             /\ SameTab(Rhs(RenDoc(doc), RenTab(p.y), p.t), RenTab(Rhs(doc, p.y, p.t)))
             /\ InitialValues(RenDoc(doc)) = RenTab(InitialValues(doc))
             /\ LET e1 == EnvAt(RenDoc(doc), RenTab(p.y), p.t)
                    e2 == RenTab(EnvAt(doc, p.y, p.t))
                IN e1 = e2          \* single values (no sums over sets) are identical, non-numbers included

\* wherever the rational evaluator decides, the closed term evaluates to the same number
ClosedAgrees ==
    OK => \A j \in DOMAIN Points :
             LET p == Points[j]
                 env == EnvAt(doc, p.y, p.t)
                 cenv == CEnvAt(doc, p.y, p.t)
                 rhs == Rhs(doc, p.y, p.t)
             IN /\ \A n \in DOMAIN env : RatV(env[n]) => ClosedValue(cenv[n]) = env[n]
                /\ \A s \in DOMAIN rhs : RatV(rhs[s]) => ClosedValue(CRate(doc, s, cenv)) = rhs[s]

\* a 1:1 conversion s1 -> s2 inside one compartment, and nothing else touching them, conserves s1 + s2
Conversion(r) == /\ Len(doc.rxns[r].reactants) = 1 /\ Len(doc.rxns[r].products) = 1
                 /\ doc.rxns[r].reactants[1] = N1("s1", 1, 1) /\ doc.rxns[r].products[1] = N1("s2", 1, 1)
Conservation ==
    (OK /\ DOMAIN doc.rxns # {} /\ (\A r \in DOMAIN doc.rxns : Conversion(r)) /\ {"s1", "s2"} \subseteq DynSpecies(doc)
        /\ Sp(doc, "s2").comp = "c1")
    => \A j \in DOMAIN Points :
          LET rhs == Rhs(doc, Points[j].y, Points[j].t)
          IN (IsRat(rhs["s1"]) /\ IsRat(rhs["s2"])) => RAdd(rhs["s1"], rhs["s2"]) = Zero

\* wrong convention (coefficients not divided by the compartment size): refuted as soon as a size is 2
DividedBySize ==
    (NoDivide /\ OK) => \A j \in DOMAIN Points :
        LET env == EnvAt(doc, Points[j].y, Points[j].t)
        IN \A s \in DynSpecies(doc) :
              IsRat(RateOf(doc, s, env, TRUE)) => RateOf(doc, s, env, FALSE) = RateOf(doc, s, env, TRUE)
=============================================================================
