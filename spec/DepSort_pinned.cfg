\* the algorithm as it was at the pinned commit: TLC must find the self-dependency counterexample
CONSTANTS
    Comps = {"a", "b"}
    MaxReq = 2
    Shortcut = "append"
    EmitOn = FALSE
INIT Init
NEXT Next
INVARIANT OkIsRight
CHECK_DEADLOCK FALSE
