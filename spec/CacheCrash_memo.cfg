\* C19: implementation-shaped wrong instance "process-wide memo keyed by the file path": must VIOLATE RightResults
CONSTANTS
    NKeys = 2
    W = 2
    L = 1
    Design = "temp"
    Policy = "trust"
    RenameAt = "closed"
    BypassOne = FALSE
    MkdirAtBuild = FALSE
    Recover = FALSE
    Forwards = TRUE
    MaxDrop = 0
    LossyNames = FALSE
    Memo = TRUE
    MaxClear = 1
    MaxExtra = 1
    MaxCrash = 0
    Fifo = TRUE
    EmitOn = FALSE
INIT Init
NEXT Next
INVARIANT TypeOK
INVARIANT NoRaise
INVARIANT RightResults
INVARIANT Injective
INVARIANT NoRecompute
INVARIANT FinalWhole
INVARIANT OneOwner
INVARIANT Emit
CHECK_DEADLOCK TRUE
