INIT Init
NEXT Next
INVARIANT Answer
CHECK_DEADLOCK FALSE
