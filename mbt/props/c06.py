"""C06 -- Python-to-symbolic translation is sound: equal everywhere, or refused.

spec      : spec/Rat.tla, Expr.tla, PyFn.tla (values, expressions, statements, big-step Run),
            spec/Piecewise.tla (first-true-wins target + reference translation ToPW / Inline),
            spec/Translate.tla (program x renaming x point families), spec/TranslateOracle.tla (code -> spec),
            spec/ExprCheck.tla (unit checks of the core)
TLC (mc)  : the reference translation agrees with Run on every enumerated program and point (PWTheorem: the
            property is satisfiable); the two implementation-shaped wrong instances (sequential substitution of
            call arguments, structural ==) are rejected by TLC (the theorem has teeth)
spec->code: every emitted program is rendered to a real module (mbt/render.py), CPython executes it at every
            point (spec validation: disagreement = machinery failure), then mxlpy's fn_to_sympy translates it
            under several renamings; None / any exception = visible refusal (always fine); otherwise the
            expression is evaluated by simultaneous substitution at every point where the function is defined
            and must equal the specification's exact rational value
code->spec: the shipped rate laws (mxlpy.fns) and the functions of the repository's fn_to_sympy tests are encoded
            into spec ASTs (mbt/pyenc.py), TLC evaluates them on a grid (TranslateOracle), CPython cross-checks the
            encoder, and fn_to_sympy's result on the ORIGINAL function objects is compared with TLC's values
"""

from __future__ import annotations

import hashlib
import itertools
import json
import random
from fractions import Fraction
from pathlib import Path

from .. import render
from ..core import Ctx, Report, pmap
from ..render import SKIP, UNDEF, Style
from ..tlc import MachineryError

TOL = 1e-9
CHUNK = 100
LIBMOD = "c06lib"
SHADOWS = [{}, {"y": Fraction(7), "z": Fraction(11), "i": Fraction(5, 2)},
           {"a": Fraction(13), "b": Fraction(17), "c": Fraction(19), "y": Fraction(7), "z": Fraction(11), "x": Fraction(3)}]
_STATE: dict = {}          # set in the parent before forking: module directory, lib, consts


# ---------------------------------------------------------------------------------------------------
# rendering a batch of programs into real modules
# ---------------------------------------------------------------------------------------------------
def prog_key(p: dict) -> str:
    return hashlib.sha1(json.dumps([p["params"], p["body"], p.get("smode", "plain")], sort_keys=True).encode()).hexdigest()[:16]


def style_of(p: dict) -> dict:
    """Rendering variation (how calls / constants are reached), a deterministic function of the program."""
    h = int(p["key"], 16)
    if p.get("smode", "plain") != "plain":      # names must go through the function's scopes, not through c06lib.<name>
        return {"call": "bare", "const": "bare"}
    return {"call": "mod" if (h & 1) and p["calls"] else "bare", "const": "mod" if (h & 2) and p["consts"] else "bare"}


ALTMOD = "c06alt"
WORKERS = 8            # TLC workers and replay processes (the machine is shared)


def write_alt_modules(d: Path, alt: dict) -> None:
    """The inner bindings (Translate.tla: AltTab) as a real module: every name under <name>_alt and under <name>."""
    fns, cs = {}, {}
    for n, e in alt.items():
        for nm in (n + "_alt", n):
            if e["k"] == "const":
                cs[nm] = render.from_json_value(e["v"])
            else:
                fns[nm] = {"params": e["params"], "body": e["body"], "defs": e.get("defs", [])}
    render.write_module(d, ALTMOD, render.module_src(fns, cs))
    render.write_module(d, ALTMOD + "x", render.module_src(fns, cs, exact=True))


def scoped_source(p: dict, name: str, style: Style, altmod: str) -> str:
    """Source of a program whose non-local names are bound by function-level imports and / or closure cells."""
    h = int(p["key"], 16)
    prelude = [f"from {altmod} import {n}_alt as {n}" if (h >> 3) & 1 else f"from {altmod} import {n}"
               for n in sorted(p["imports"])]
    src = render.fn_src(name, p["params"], p["body"], style, prelude=prelude)
    cells = sorted(p["cells"])
    if not cells:
        return src
    inner = "\n".join("    " + ln if ln else ln for ln in src.rstrip("\n").split("\n"))
    binds = "\n".join(f"    {n} = {ALTMOD}.{n}_alt" for n in cells)
    return f"def _make_{name}():\n{binds}\n\n{inner}\n\n    return {name}\n\n\n{name} = _make_{name}()\n"


def render_all(ctx: Ctx, progs: list[dict], lib: dict, consts: dict) -> None:
    d = ctx.work / "mods"
    write_alt_modules(d, _STATE.get("alt") or {})
    libfns = {n: {"params": f["params"], "body": f["body"], "defs": f.get("defs", [])} for n, f in lib.items()}
    render.write_module(d, LIBMOD, render.module_src(libfns, consts))
    render.write_module(d, LIBMOD + "x", render.module_src(libfns, consts, exact=True))
    for c0 in range(0, len(progs), CHUNK):
        chunk = progs[c0:c0 + CHUNK]
        fns, styles = dict(libfns), {}
        # name coincidence as a regular dimension: module-level float constants named like nothing (0), like the
        # locals (1), like the parameters and the locals (2).  Python scoping makes them invisible to the functions.
        mode = chunk[0]["shadow"] if "shadow" in chunk[0] else (c0 // CHUNK) % 3
        mconsts = {**consts, **SHADOWS[mode]}
        for j, p in enumerate(chunk):
            name = f"f{c0 + j}"
            p["mod"], p["fn"] = f"c06m_{c0 // CHUNK}", name
            st = style_of(p)
            p["style"] = st
            fns[name] = {"params": p["params"], "body": p["body"]}
            styles[name] = Style(call_prefix=LIBMOD + "." if st["call"] == "mod" else "",
                                 const_prefix=LIBMOD + "." if st["const"] == "mod" else "")
            if p.get("smode", "plain") != "plain":
                fns[name]["src"] = scoped_source(p, name, styles[name], ALTMOD)
                fns[name]["srcx"] = scoped_source(p, name, styles[name], ALTMOD + "x")
        for p in chunk:
            p["shadow"] = mode
        src = render.module_src(fns, mconsts, imports=[LIBMOD, ALTMOD], styles=styles)
        render.write_module(d, p["mod"], src)
        srcx = render.module_src(fns, mconsts, imports=[LIBMOD + "x as " + LIBMOD, ALTMOD + "x as " + ALTMOD], styles=styles,
                                 exact=True)
        render.write_module(d, p["mod"].replace("c06m_", "c06x_"), srcx)


# ---------------------------------------------------------------------------------------------------
# evaluating a translated expression
# ---------------------------------------------------------------------------------------------------
def _finish_value(r):
    import sympy

    if r is sympy.true or r is sympy.false:
        return ("bool", bool(r))
    if getattr(r, "free_symbols", None):
        return ("bad", f"free symbols remain: {sorted(map(str, r.free_symbols))}")
    if not getattr(r, "is_number", False):
        r = sympy.simplify(r)
    if r.is_Rational:
        return ("num", Fraction(int(r.p), int(r.q)))
    c = complex(r)
    if c != c or abs(c.imag) > 1e-12 or abs(c.real) == float("inf"):
        return ("bad", f"not a finite real number: {r}")
    return ("num", c.real)


def lazy_eval(expr, sub: dict):
    """First-true-wins evaluation that does not touch what the piecewise reading never needs.

    ``expr.subs`` evaluates every condition of every piece (and both sides of every And) eagerly and raises on
    ``zoo < 1`` even when an earlier piece already decides; the VALUE of the expression does not depend on those.
    Conditions are evaluated in Kleene logic: a conjunct that cannot be evaluated is 'unknown', And with a false
    conjunct is false, Or with a true disjunct is true (sympy reorders the arguments of And / Or, so program order
    is not available).  Raises when the value really is undetermined.
    """
    import sympy
    from sympy.logic.boolalg import ITE, And, Not, Or

    def ev(e):
        if isinstance(e, sympy.Piecewise):
            for val, cond in e.args:
                cv = ev(cond)
                if cv is sympy.true:
                    return ev(val)
                if cv is not sympy.false:
                    raise ValueError(f"condition does not evaluate: {cond}")
            return sympy.nan
        if isinstance(e, (And, Or)):
            absorbing = sympy.false if isinstance(e, And) else sympy.true
            unknown = None
            for a in e.args:
                try:
                    v = ev(a)
                except Exception as ex:  # noqa: BLE001
                    unknown = ex
                    continue
                if v is absorbing:
                    return absorbing
                if v is not sympy.true and v is not sympy.false:
                    unknown = ValueError(f"not a truth value: {v}")
            if unknown is not None:
                raise unknown
            return sympy.true if isinstance(e, And) else sympy.false
        if isinstance(e, Not):
            v = ev(e.args[0])
            return sympy.false if v is sympy.true else sympy.true if v is sympy.false else sympy.Not(v)
        if isinstance(e, ITE):
            cv = ev(e.args[0])
            if cv is sympy.true:
                return ev(e.args[1])
            if cv is sympy.false:
                return ev(e.args[2])
            raise ValueError(f"condition does not evaluate: {e.args[0]}")
        if not e.args:
            return sub.get(e, e)
        return e.func(*[ev(a) for a in e.args])

    return ev(expr)


def sym_value(expr, subs: dict, exact: bool):
    """Value of ``expr`` under simultaneous substitution; ('num', float|Fraction) | ('bool', b) | ('bad', text)."""
    import sympy

    try:
        if exact == "snap":
            # coefficients that sympy folded into 15-digit Floats (1/6.0 -> 0.166666666666667) are taken as the
            # small fraction they stand for; used only to recognise a mismatch as an artefact of Float rounding
            def snap(f):
                fr = Fraction(float(f)).limit_denominator(10**6)
                return sympy.Rational(fr.numerator, fr.denominator) if abs(float(fr) - float(f)) <= 1e-12 * max(1.0, abs(float(f))) \
                    else sympy.Rational(f)
            expr = expr.xreplace({f: snap(f) for f in expr.atoms(sympy.Float)})
            sub = {k: sympy.Rational(v.numerator, v.denominator) for k, v in subs.items()}
        elif exact:
            expr = expr.xreplace({f: sympy.Rational(f) for f in expr.atoms(sympy.Float)})
            sub = {k: sympy.Rational(v.numerator, v.denominator) for k, v in subs.items()}
        else:
            sub = {k: sympy.Float(float(v)) for k, v in subs.items()}
        # xreplace substitutes all symbols at once (structurally, hence simultaneously) and is several times faster
        # than subs(simultaneous=True); subs is the fall-back when it does not produce a number
        try:
            res = _finish_value(expr.xreplace(sub))
        except Exception as e:  # noqa: BLE001
            res = ("bad", f"evaluation raised {type(e).__name__}: {str(e)[:120]}")
        if res[0] == "bad":
            try:
                res = _finish_value(expr.subs(sub, simultaneous=True))
            except Exception as e:  # noqa: BLE001
                res = ("bad", f"evaluation raised {type(e).__name__}: {str(e)[:120]}")
        if res[0] == "bad" and expr.has(sympy.Piecewise, sympy.logic.boolalg.BooleanFunction):
            res = _finish_value(lazy_eval(expr, sub))
            LAZY_USED[0] += 1
        return res
    except Exception as e:  # noqa: BLE001
        return ("bad", f"evaluation raised {type(e).__name__}: {str(e)[:120]}")


LAZY_USED = [0]


def agrees(val, expected) -> bool:
    kind, v = val
    if kind == "bad":
        return False
    if isinstance(expected, bool):
        return kind == "bool" and v == expected
    if kind == "bool":
        return False
    return render.close(v, expected, TOL)


def check_translation(fn, params: list[str], names: list[str], pts: list[dict]) -> dict:
    """Translate ``fn`` with the model names ``names`` and compare at the points. pts: [{'env': {p: Fraction}, 'v': expected}]."""
    import sympy
    from mxlpy.meta.source_tools import fn_to_sympy

    try:
        expr = fn_to_sympy(fn, origin="c06", model_args=[sympy.Symbol(n) for n in names])
    except Exception as e:  # noqa: BLE001  any exception is a visible refusal
        return {"refused": f"raised {type(e).__name__}"}
    if expr is None:
        return {"refused": "None"}
    if not isinstance(expr, sympy.Basic):
        try:
            expr = sympy.sympify(expr)
        except Exception as e:  # noqa: BLE001
            return {"refused": f"not an expression: {type(e).__name__}"}
    bad, checked, floatfrag = [], 0, 0
    lazy0 = LAZY_USED[0]
    for pt in pts:
        env = pt["env"]
        subs, ok = {}, True
        for p, nme in zip(params, names, strict=True):
            s = sympy.Symbol(nme)
            if s in subs and subs[s] != env[p]:
                ok = False          # the same model name passed twice: only points on the diagonal exist
                break
            subs[s] = env[p]
        if not ok:
            continue
        checked += 1
        v = sym_value(expr, subs, exact=False)
        if agrees(v, pt["v"]):
            continue
        vx = sym_value(expr, subs, exact=True)
        if agrees(vx, pt["v"]) or agrees(sym_value(expr, subs, exact="snap"), pt["v"]):
            floatfrag += 1          # float-fragile: a comparison sits exactly on its boundary and the 15-digit Float
            continue                # coefficients of the expression round to the other side; excluded, counted
        bad.append({"point": {p: str(x) for p, x in env.items()}, "expected": str(pt["v"]),
                    "float_eval": str(v[1]), "exact_eval": str(vx[1])})
    return {"expr": str(expr)[:300], "checked": checked, "bad": bad, "floatfrag": floatfrag,
            "lazy": LAZY_USED[0] - lazy0}


# ---------------------------------------------------------------------------------------------------
# one program: CPython cross-check, then the translator under the chosen renamings
# ---------------------------------------------------------------------------------------------------
def decode_points(p: dict) -> list[dict]:
    out = []
    for o in p["pts"]:
        env = {k: render.from_json_value(v) for k, v in o["env"].items()}
        out.append({"env": env, "st": o["st"], "v": render.from_json_value(o["v"])})
    out.sort(key=lambda q: [q["env"][x] for x in p["params"]])
    return out


def cpython_check(fn, fnx, params, pts) -> tuple[list, list]:
    """Spec validation. Returns (problems, fragile point indices)."""
    problems, fragile = [], []
    for i, q in enumerate(pts):
        if q["st"] == "skip":
            continue
        args = [q["env"][x] for x in params]
        ox = render.py_outcome(fnx, args)
        if not render.same_outcome(q, ox):
            problems.append({"point": {k: str(v) for k, v in q["env"].items()}, "spec": [q["st"], str(q["v"])],
                             "cpython_exact": [ox["st"], str(ox["v"])]})
            continue
        of = render.py_outcome(fn, [float(a) for a in args])
        if not render.same_outcome(q, of):
            fragile.append(i)
    return problems, fragile


def work(p: dict) -> dict:
    d = _STATE["dir"]
    mod = render.load_module(d, p["mod"])
    modx = render.load_module(d, p["mod"].replace("c06m_", "c06x_"))
    fn, fnx = getattr(mod, p["fn"]), getattr(modx, p["fn"])
    pts = decode_points(p)
    if p.get("corrupt") == "spec":          # demonstration of the binding: see design_notes/C06.md
        q = next((q for q in pts if q["st"] == "ret" and not isinstance(q["v"], bool)), None)
        if q:
            q["v"] = q["v"] + 1
    problems, fragile = cpython_check(fn, fnx, p["params"], pts)
    res = {"problems": problems, "fragile": len(fragile), "skipped": sum(q["st"] == "skip" for q in pts),
           "defined": 0, "rens": []}
    if problems:
        return res
    use = [q for i, q in enumerate(pts) if q["st"] == "ret" and i not in set(fragile)]
    res["defined"] = len(use)
    if p.get("corrupt") == "expected" and use and not isinstance(use[0]["v"], bool):
        use[0] = {**use[0], "v": use[0]["v"] + 1}
    for ren in p["use_rens"]:
        r = check_translation(fn, p["params"], ren["names"], use)
        r["tag"], r["names"] = ren["tag"], ren["names"]
        res["rens"].append(r)
    return res


# ---------------------------------------------------------------------------------------------------
# classification of a mismatch by the SHAPE of the failing scenario (DESIGN appendix D)
# ---------------------------------------------------------------------------------------------------
def walk_exprs(e: dict):
    yield e
    for f in ("a", "b", "c"):
        if f in e and isinstance(e[f], dict):
            yield from walk_exprs(e[f])
    for x in e.get("args", []) if isinstance(e.get("args"), list) else []:
        yield from walk_exprs(x)


def walk_stmts(body: list):
    for s in body:
        yield s
        if s["k"] in ("if", "while", "for"):
            yield from walk_stmts(s["body"])
            yield from walk_stmts(s.get("orelse", []))


def assigned_in(body: list) -> set:
    return {s["name"] for s in walk_stmts(body) if s["k"] in ("assign", "aug", "for")} | \
        {n for s in walk_stmts(body) if s["k"] == "chain" for n in s["names"]}


def reads_of(body: list) -> set:
    out = set()
    for s in walk_stmts(body):
        out |= {x["name"] for x in walk_exprs(s["e"]) if x["k"] == "var"}
    return out


def has_eq(body: list) -> bool:
    for s in walk_stmts(body):
        for x in walk_exprs(s["e"]):
            if x["k"] == "cmp":
                for j, op in enumerate(x["ops"]):
                    if op in ("eq", "ne") and not (x["args"][j]["k"] == "num" and x["args"][j + 1]["k"] == "num"):
                        return True
    return False


def has_branch_assign(body: list) -> bool:
    """A name assigned inside an if branch and read after the if; or statements following an if that assigns."""
    for blk in [body] + [b for s in walk_stmts(body) if s["k"] == "if" for b in (s["body"], s["orelse"])]:
        for j, s in enumerate(blk):
            if s["k"] == "if":
                inside = assigned_in(s["body"]) | assigned_in(s["orelse"])
                if inside and j + 1 < len(blk):
                    return True
    # the continuation of an enclosing block also reads it (if nested in a branch without own continuation)
    return False


def depends_on(body: list) -> dict:
    """name -> every name its value may be computed from (transitively, through the assignments of the body)."""
    dep: dict = {}
    for s in walk_stmts(body):
        for nm in ([s["name"]] if s["k"] == "assign" else s["names"] if s["k"] == "chain" else []):
            dep.setdefault(nm, set()).update(x["name"] for x in walk_exprs(s["e"]) if x["k"] == "var")
    changed = True
    while changed:
        changed = False
        for n, ds in dep.items():
            new = set().union(*[dep.get(d, set()) for d in ds]) - ds
            if new:
                ds |= new
                changed = True
    return dep


def overlapping_call(body: list, lib: dict) -> bool:
    """A nested call one of whose arguments (locals resolved) mentions a parameter name of the callee that belongs
    to another position - the shape on which one-after-the-other substitution differs from simultaneous."""
    dep = depends_on(body)
    for s in walk_stmts(body):
        for x in walk_exprs(s["e"]):
            if x["k"] == "call" and x["name"] in lib:
                ps = lib[x["name"]]["params"]
                kw = x.get("kw") or [""] * len(x["args"])
                for j0, a in enumerate(x["args"]):
                    j = ps.index(kw[j0]) if kw[j0] in ps else j0
                    names = {y["name"] for y in walk_exprs(a) if y["k"] == "var"}
                    names |= set().union(*[dep.get(nm, set()) for nm in names]) if names else set()
                    if names & (set(ps) - {ps[j] if j < len(ps) else None}):
                        return True
    return False


def bodies_reached(p: dict, lib: dict) -> list:
    return [p["body"]] + [lib[f]["body"] for f in p.get("calls", []) if f in lib]


def classify(p: dict, ren: dict, lib: dict) -> str | None:
    bodies = bodies_reached(p, lib)
    names, params = ren["names"], p["params"]
    if names != params and set(names) & set(params):
        return "overlapping-rename"
    if any(overlapping_call(b, lib) for b in bodies):
        return "overlapping-rename"
    if any(has_branch_assign(b) for b in bodies):
        return "branch-assign"
    if any(has_eq(b) for b in bodies):
        return "eq-compare"
    return None


# ---------------------------------------------------------------------------------------------------
# TLC runs
# ---------------------------------------------------------------------------------------------------
SIM_BASE = """CHECK_DEADLOCK FALSE
INIT Init
NEXT Next
CONSTANTS
    Arities = {arities}
    Locals = {locals}
    NumLits = {{0, 1, 2}}
    ConstNames = {consts}
    UnOn = {un}
    BinOn = {bin}
    CmpOn = {{"lt", "le", "gt", "ge", "eq", "ne"}}
    Chains = {chains}
    BoolOn = {boolon}
    IteOn = {ite}
    CallOn = {calls}
    ScopeModes = {scopes}
    CallModes = {modes}
    AugOn = {aug}
    PassOn = {passon}
    AnnOn = {ann}
    ChainOn = {chain}
    LoopOn = {loop}
    MaxToks = 100
    MinStmts = {minst}
    MaxStmts = {maxst}
    MaxDepth = {depth}
    MaxNest = 2
    Sim = TRUE
    EqOk = TRUE
    CheckPW = TRUE
    EmitOn = TRUE
INVARIANTS EmitLib PWTheorem LibTheorem WellFormedAlways
"""

ALLMODES = '{"pos", "kw", "kwrev", "mix", "def", "defkw"}'
ALLSCOPES = '{"plain", "import", "closure", "both"}'
PROFILES = {
    # every construct the translator claims to support, shallow expressions: control flow dominates
    "core1": dict(arities="{1, 2}", locals='{"y"}', consts='{"K"}', un='{"neg"}', bin='{"add", "sub", "mul", "div"}',
                  chains="TRUE", boolon="{}", ite="TRUE", calls='{"sub2", "pick", "loc", "ratio", "dflt"}', modes=ALLMODES, scopes=ALLSCOPES, minst=2, depth=1, aug="{}", loop="FALSE", chain="FALSE", passon="FALSE", maxst=4, ann="FALSE"),
    "core2": dict(arities="{1, 2}", locals='{"y", "z"}', consts='{"K", "H"}', un='{"neg"}',
                  bin='{"add", "sub", "mul", "div", "pow"}', chains="TRUE", boolon="{}", ite="TRUE",
                  calls='{"sub2", "subxy", "pick", "loc", "nest", "kmul", "ratio", "dflt"}', modes=ALLMODES, scopes=ALLSCOPES, minst=3, depth=2, aug="{}",
                  loop="FALSE", chain="FALSE", passon="TRUE", maxst=4, ann="TRUE"),
    # just outside the subset: assignment to a parameter, augmented assignment, while / for loops (must be refused)
    "outside": dict(arities="{1, 2}", locals='{"y", "a"}', consts='{"K"}', un='{"neg"}', bin='{"add", "sub", "mul"}',
                    chains="FALSE", boolon="{}", ite="FALSE", calls='{"sub2"}', modes='{"pos", "kwrev"}', scopes='{"plain", "closure"}', minst=3, depth=1,
                    aug='{"add", "mul", "sub"}', loop="TRUE", chain="TRUE", passon="TRUE", maxst=4, ann="TRUE"),
    # guards: up to 6 statements, nested ifs / empty (pass) branches that fall through without binding anything,
    # followed by statements that re-bind a name (a local or a parameter) from its own old value
    "guard": dict(arities="{1, 2}", locals='{"y", "a"}', consts="{}", un="{}", bin='{"sub", "mul", "div"}',
                  chains="FALSE", boolon="{}", ite="FALSE", calls="{}", modes='{"pos"}', scopes='{"plain"}', minst=3, depth=1, aug="{}", loop="FALSE",
                  chain="FALSE", passon="TRUE", maxst=6, ann="TRUE"),
    # the whole grammar (min / max / abs / and / or / not are refused by the translator today)
    "full": dict(arities="{2, 3}", locals='{"y", "z"}', consts='{"K", "H"}', un='{"neg", "abs"}',
                 bin='{"add", "sub", "mul", "div", "pow", "floordiv", "mod", "min", "max"}', chains="TRUE",
                 boolon='{"and", "or", "not"}', ite="TRUE",
                 calls='{"sub2", "subxy", "pick", "loc", "nest", "kmul", "ratio", "dflt"}', modes=ALLMODES, scopes=ALLSCOPES, minst=2, depth=2,
                 aug='{"add"}', loop="TRUE", chain="TRUE", passon="TRUE", maxst=4, ann="TRUE"),
}


def teeth(ctx: Ctx, rep: Report) -> None:
    base = (Path(__file__).resolve().parent.parent.parent / "spec" / "Translate_small.cfg").read_text()
    base = base.replace("EmitOn = TRUE", "EmitOn = FALSE")
    for tag, old, new in (("seqsubst", "Sim = TRUE", "Sim = FALSE"), ("structeq", "EqOk = TRUE", "EqOk = FALSE")):
        cfg = ctx.write_cfg(f"teeth_{tag}.cfg", base.replace(old, new))
        res = ctx.tlc("Translate.tla", str(cfg), tag=f"teeth_{tag}", expect_violation=True, workers=4)
        if res.violated not in ("PWTheorem", "LibTheorem"):
            raise MachineryError(f"the wrong instance {tag} of the reference translation was not rejected by TLC "
                                 f"(violated={res.violated}): the theorem has lost its teeth")
        rep.add_tlc(res, f"wrong instance {tag}: TLC finds a counterexample to {res.violated}")
        rep.notes[f"wrong_instance_{tag}"] = f"TLC: {res.violated} violated"


def generate(ctx: Ctx, rep: Report) -> tuple[list[dict], dict, dict]:
    runs = []
    if ctx.quick:
        runs.append(("Translate_small.cfg", None, "exhaustive: all programs <= 3 statements, <= 6 expression nodes"))
        sims = [("core1", 80), ("core2", 44), ("guard", 60), ("outside", 40), ("full", 24)]      # -simulate num is per worker (8)
    else:
        runs.append(("Translate_medium.cfg", None, "exhaustive: all programs <= 3 statements, <= 7 expression nodes"))
        sims = [("core1", 480), ("core2", 320), ("guard", 320), ("outside", 160), ("full", 160)]
    progs, lib, consts = {}, None, None
    for cfg, _, what in runs:
        res = ctx.tlc("Translate.tla", cfg, timeout=1500, workers=WORKERS)
        rep.add_tlc(res, f"{what}; PWTheorem + emission")
        for p in res.payloads:
            if p["t"] == "lib":
                lib, consts = p["lib"], {c: render.from_json_value(v) for c, v in p["consts"].items()}
                _STATE["alt"] = p.get("alt", {})
            else:
                p["key"] = prog_key(p)
                p["origin"] = cfg
                progs.setdefault(p["key"], p)
    rep.exhaustive = True
    for j, (prof, num) in enumerate(sims):
        cfg = ctx.write_cfg(f"sim_{prof}.cfg", SIM_BASE.format(**PROFILES[prof]))
        res = ctx.tlc("Translate.tla", str(cfg), tag=f"sim_{prof}", simulate=f"num={num}", depth=200,
                      seed=ctx.seed + j, timeout=1500, workers=WORKERS)
        rep.add_tlc(res, f"-simulate profile {prof}: PWTheorem + emission")
        for p in res.payloads:
            if p["t"] == "prog":
                p["key"] = prog_key(p)
                p["origin"] = prof
                progs.setdefault(p["key"], p)
    if lib is None:
        raise MachineryError("the specification did not emit the function library")
    return sorted(progs.values(), key=lambda p: p["key"]), lib, consts


def choose_renamings(p: dict, rnd: random.Random, n_extra: int) -> list[dict]:
    rens = sorted(p["rens"], key=lambda r: r["tag"])
    own = [r for r in rens if r["tag"] == "own"]
    others = [r for r in rens if r["tag"] != "own"]
    rnd.shuffle(others)
    # always one renaming onto the function's own names in another order when there is one
    perm = [r for r in others if r["tag"] in ("rev", "rot")][:1]
    rest = [r for r in others if r not in perm]
    return own + perm + rest[:max(0, n_extra - len(perm))]


# ---------------------------------------------------------------------------------------------------
def run(ctx: Ctx) -> int:
    rep = Report(ctx)
    rep.rule = ("one case = (program, renaming, point); non-trivial = the function is defined at the point and the "
                "translator returned an expression; distinct by (program text, model names, point)")
    rep.assumptions = [
        "CPython executes the rendered source; its exact (Fraction) run must reproduce Run at every point",
        "points where CPython's float result differs from the exact result are excluded as fragile (counted)",
        "a translated expression is evaluated with floats first and, on disagreement, exactly (Floats "
        "rationalised, then with Float coefficients snapped to the small fraction they stand for); only a "
        "disagreement of all is a mismatch, agreement of a later stage counts the point as float-fragile",
        "when expr.subs raises or gives no number because sympy evaluates pieces / conjuncts the first-true-wins "
        "reading never needs (zoo < 1 in a later piece), the expression is evaluated lazily (Kleene logic for And/Or)",
    ]
    res = ctx.tlc("ExprCheck.tla", "ExprCheck.cfg", workers=1)
    rep.add_tlc(res, "unit checks of Rat / Expr / PyFn / Piecewise (ASSUMEs)")
    teeth(ctx, rep)
    import time
    t0 = time.time()
    progs, lib, consts = generate(ctx, rep)
    rep.notes["timing"] = {"generate_s": round(time.time() - t0, 1)}
    if len(progs) < 500:
        raise MachineryError(f"only {len(progs)} programs generated")
    rnd = random.Random(ctx.seed)
    for p in progs:
        # thorough: the 46 000 programs of the exhaustive family get the own names + one more argument list
        p["use_rens"] = choose_renamings(p, rnd, 1 if (not ctx.quick and p["origin"].endswith(".cfg")) else 2)
    import os

    if os.environ.get("C06_CORRUPT"):       # corrupt ONE expected value of one program (binding demonstration)
        victim = next(p for p in progs if len(p["body"]) == 1 and p["body"][0]["e"]["k"] in ("sub", "mul", "var")
                      and not p["calls"] and not p["consts"])
        victim["corrupt"] = os.environ["C06_CORRUPT"]
        rep.notes["corrupted_program"] = render.fn_src("f", victim["params"], victim["body"])
    render_all(ctx, progs, lib, consts)
    _STATE["dir"], _STATE["consts"] = ctx.work / "mods", consts
    t0 = time.time()
    results = pmap(work, progs, procs=WORKERS, chunk=25)
    rep.notes["timing"]["replay_s"] = round(time.time() - t0, 1)
    t0 = time.time()
    judge(ctx, rep, progs, results, lib)
    rep.notes["timing"]["judge_s"] = round(time.time() - t0, 1)
    from .. import c06_oracle

    c06_oracle.run_oracle(ctx, rep)
    return rep.finish()


def judge(ctx: Ctx, rep: Report, progs: list[dict], results: list[dict], lib: dict) -> None:
    stats = {"programs": len(progs), "refused": 0, "translated": 0, "points_checked": 0, "fragile_points": 0,
             "skipped_points": 0, "float_fragile": 0, "lazy_evaluations": 0, "mismatches": 0, "mismatches_by_origin": {}, "refusal_kinds": {}, "by_origin": {}}
    bad_spec = []
    for p, r in zip(progs, results, strict=True):
        if r["problems"]:
            bad_spec.append((p, r["problems"][0]))
            continue
        stats["fragile_points"] += r["fragile"]
        stats["skipped_points"] += r["skipped"]
        stats["by_origin"][p["origin"]] = stats["by_origin"].get(p["origin"], 0) + 1
        src = render.fn_src("f", p["params"], p["body"])
        for rr in r["rens"]:
            rep.replayed += 1
            if "refused" in rr:
                stats["refused"] += 1
                stats["refusal_kinds"][rr["refused"]] = stats["refusal_kinds"].get(rr["refused"], 0) + 1
                continue
            stats["translated"] += 1
            stats["points_checked"] += rr["checked"]
            stats["float_fragile"] += rr["floatfrag"]
            stats["lazy_evaluations"] += rr.get("lazy", 0)
            rep.evaluations += rr["checked"]
            if rr["checked"]:
                rep.distinct.add((p["key"], tuple(rr["names"])))
            if rr["bad"]:
                stats["mismatches"] += 1
                stats["mismatches_by_origin"][p["origin"]] = stats["mismatches_by_origin"].get(p["origin"], 0) + 1
                scn = {"params": p["params"], "body": p["body"], "calls": p["calls"], "consts": p["consts"],
                       "style": p["style"], "shadow": p["shadow"], "smode": p.get("smode", "plain"),
                       "imports": p.get("imports", []), "cells": p.get("cells", []), "alt": _STATE.get("alt", {}),
                       "names": rr["names"], "tag": rr["tag"], "source": src,
                       "lib": lib, "consts_values": {c: str(v) for c, v in _STATE["consts"].items()},
                       "pts": [{"env": o["env"], "st": o["st"], "v": o["v"]} for o in p["pts"]]}
                detail = {"expression": rr["expr"], "first_bad_points": rr["bad"][:3], "bad_points": len(rr["bad"]),
                          "points_checked": rr["checked"]}
                rep.mismatch(scn, detail, classify(p, rr, lib))
            elif len(rep.samples) < 4 and rr["checked"] > 8 and p["origin"] != "Translate_small.cfg":
                rep.sample({"source": src, "model_args": rr["names"], "expression": rr["expr"],
                            "points_checked": rr["checked"]})
    if bad_spec:
        p, prob = bad_spec[0]
        raise MachineryError(f"spec validation failed for {len(bad_spec)} programs: CPython disagrees with Run, e.g.\n"
                             f"{render.fn_src('f', p['params'], p['body'])}{prob}")
    rep.notes["translate"] = stats
    if stats["translated"] < 200:
        raise MachineryError(f"vacuity: only {stats['translated']} translations were not refused")
    npts = sum(len(p["pts"]) for p in progs)
    if stats["fragile_points"] > 0.02 * npts:
        raise MachineryError(f"{stats['fragile_points']} of {npts} points are float-fragile: the grid is badly chosen")


def replay(ctx: Ctx, doc: dict) -> int:
    """Re-render the recorded program, re-run the translator with the recorded model names, compare at the recorded points."""
    scn = doc["scenario"]
    if scn.get("oracle"):
        from .. import c06_oracle

        return c06_oracle.replay(ctx, doc)
    lib, consts = scn["lib"], {c: Fraction(v) for c, v in scn["consts_values"].items()}
    p = {"params": scn["params"], "body": scn["body"], "calls": scn["calls"], "consts": scn["consts"], "pts": scn["pts"],
         "origin": "replay", "shadow": scn.get("shadow", 0), "smode": scn.get("smode", "plain"),
         "imports": scn.get("imports", []), "cells": scn.get("cells", [])}
    _STATE["alt"] = scn.get("alt", {})
    p["key"] = prog_key(p)
    p["use_rens"] = [{"tag": scn["tag"], "names": scn["names"]}]
    render_all(ctx, [p], lib, consts)
    _STATE["dir"] = ctx.work / "mods"
    r = work(p)
    print(render.fn_src("f", p["params"], p["body"]))
    print(json.dumps(r, indent=1, default=str))
    if r["problems"]:
        print("spec validation problem (machinery)")
        return 2
    if any(rr.get("bad") for rr in r["rens"]):
        print("VIOLATION property=C06 replay=(given)")
        return 1
    print("conforms")
    return 0
