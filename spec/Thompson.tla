------------------------------ MODULE Thompson ------------------------------
(***************************************************************************)
(* Beyond the listed properties (E03): mxlpy.fuzzy.ThompsonState and       *)
(* thompson_sampling as a state machine.                                   *)
(*                                                                         *)
(* State: per fitted parameter k a table of NBins candidate values with a  *)
(* success and a fail counter each (both start at 1).  One round           *)
(*   Draw(idx)   picks one candidate index per parameter (the Beta draw is *)
(*               nondeterministic here: every choice is possible),         *)
(*   Apply       simulates the model with the chosen candidates, compares  *)
(*               with the data and bumps, for EVERY parameter, the success *)
(*               counter of the chosen candidate if the prediction matches *)
(*               (all chosen candidates are good ones) and its fail        *)
(*               counter otherwise (also when the simulation fails).       *)
(* Sequential sampling (W = 1) alternates Draw and Apply N times.  The     *)
(* parallel form draws W index vectors from the SAME tables, then applies  *)
(* the W outcomes in drawing order, and repeats ceil(N / W) times: it      *)
(* performs W * ceil(N / W) >= N rounds (the code's actual behaviour,      *)
(* modelled as it is: `Total`).                                            *)
(*                                                                         *)
(* Checked by TLC: counters never decrease and stay >= 1 (Monotone), each  *)
(* round adds exactly one count per parameter (Conservation), every        *)
(* parameter has seen the same number of successes (AcceptsAgree), a       *)
(* candidate that is not good never gains a success (OnlyGoodSucceed),     *)
(* drawing does not touch the tables, the final tables do not depend on    *)
(* the order in which a batch's outcomes are applied (BatchCommutes), and  *)
(* the run ends after exactly Total rounds.                                *)
(* Wrong instances (Mode): "own"  - a parameter's success depends on its   *)
(* own candidate only (refuted by AcceptsAgree), "skipfail" - a failed     *)
(* simulation is not counted (refuted by Conservation), "exactN" - the     *)
(* parallel form stops after N rounds (the code does not: refuted against  *)
(* the code by replay, accepted by the invariants).                        *)
(***************************************************************************)
EXTENDS Naturals, Sequences, FiniteSets, TLC, Json, FiniteSetsExt, Functions

CONSTANTS
    Params,     \* sequence of parameter names, in the order of the caller's dict
    NBins,      \* candidates per parameter
    GoodOf,     \* sequence (aligned with Params) of sets of good candidate indices (1-based)
    FailsOf,    \* set of index vectors (sequences) whose simulation fails (pred = None)
    N,          \* requested number of rounds
    W,          \* batch width (1 = sequential)
    Mode,       \* "code" | "own" | "skipfail"
    EmitOn

VARIABLES succ, fail, pending, done, batches, hist
vars == <<succ, fail, pending, done, batches, hist>>

P == 1..Len(Params)
Bins == 1..NBins
Idx == [P -> Bins]

Total == W * ((N + W - 1) \div W)
NBatches == (N + W - 1) \div W

Fails(idx) == \E f \in FailsOf : \A k \in P : f[k] = idx[k]
Accept(idx) == ~Fails(idx) /\ \A k \in P : idx[k] \in GoodOf[k]
AcceptFor(k, idx) ==
    IF Mode = "own" THEN ~Fails(idx) /\ idx[k] \in GoodOf[k] ELSE Accept(idx)

\* effect of one outcome on a pair of tables (pure, so that batches can be folded in any order)
Bump(tabs, idx) ==
    IF Mode = "skipfail" /\ Fails(idx) THEN tabs
    ELSE [s |-> [k \in P |-> [i \in Bins |-> tabs.s[k][i] + (IF i = idx[k] /\ AcceptFor(k, idx) THEN 1 ELSE 0)]],
          f |-> [k \in P |-> [i \in Bins |-> tabs.f[k][i] + (IF i = idx[k] /\ ~AcceptFor(k, idx) THEN 1 ELSE 0)]]]

RECURSIVE FoldBatch(_, _, _)
FoldBatch(tabs, b, order) ==
    IF order = <<>> THEN tabs ELSE FoldBatch(Bump(tabs, b[Head(order)]), b, Tail(order))

Init ==
    /\ succ = [k \in P |-> [i \in Bins |-> 1]]
    /\ fail = [k \in P |-> [i \in Bins |-> 1]]
    /\ pending = <<>>
    /\ done = 0
    /\ batches = 0
    /\ hist = <<>>

\* one sample() call: the tables are read, not written
Draw(idx) ==
    /\ batches < NBatches
    /\ Len(pending) < W
    /\ (Len(pending) > 0 => hist = <<>> \/ hist[Len(hist)].k = "draw")   \* a batch is drawn completely before any update
    /\ pending' = Append(pending, idx)
    /\ hist' = Append(hist, [k |-> "draw", idx |-> idx, acc |-> FALSE, s |-> succ, f |-> fail])
    /\ UNCHANGED <<succ, fail, done, batches>>

\* one update() call: the oldest outstanding outcome of a complete batch
Apply ==
    /\ pending # <<>>
    /\ (Len(pending) = W \/ (hist # <<>> /\ hist[Len(hist)].k = "apply"))
    /\ LET idx == Head(pending)
           t == Bump([s |-> succ, f |-> fail], idx)
       IN /\ succ' = t.s /\ fail' = t.f
          /\ hist' = Append(hist, [k |-> "apply", idx |-> idx, acc |-> Accept(idx), s |-> t.s, f |-> t.f])
    /\ pending' = Tail(pending)
    /\ done' = done + 1
    /\ batches' = IF Len(pending) = 1 THEN batches + 1 ELSE batches

Next == (\E idx \in Idx : Draw(idx)) \/ Apply
Spec == Init /\ [][Next]_vars

Finished == batches = NBatches /\ pending = <<>>

Sum(t) == FoldFunction(LAMBDA a, b : a + b, 0, t)

TypeOK == /\ \A k \in P, i \in Bins : succ[k][i] >= 1 /\ fail[k][i] >= 1
          /\ Len(pending) <= W /\ done <= Total
Conservation == \A k \in P : Sum(succ[k]) + Sum(fail[k]) = 2 * NBins + done
AcceptsAgree == \A k1, k2 \in P : Sum(succ[k1]) = Sum(succ[k2])
OnlyGoodSucceed == \A k \in P, i \in Bins : succ[k][i] > 1 => i \in GoodOf[k]
EndsAfterTotal == Finished => done = Total
\* applying the outcomes of a complete batch in any order gives the same tables
BatchCommutes ==
    Len(pending) = W =>
        \A o1, o2 \in {o \in [1..W -> 1..W] : \A a, b \in 1..W : a # b => o[a] # o[b]} :
            FoldBatch([s |-> succ, f |-> fail], pending, o1) = FoldBatch([s |-> succ, f |-> fail], pending, o2)
Monotone == [][\A k \in P, i \in Bins : succ'[k][i] >= succ[k][i] /\ fail'[k][i] >= fail[k][i]]_vars
DrawReadsOnly == [][(pending' # pending /\ Len(pending') > Len(pending)) => (succ' = succ /\ fail' = fail)]_vars

Emit == (EmitOn /\ Finished) =>
    PrintT("@J@" \o ToJson([params |-> Params, nbins |-> NBins, n |-> N, w |-> W, hist |-> hist,
                             succ |-> succ, fail |-> fail, total |-> Total]) \o "@E@")

\* constant values for the configurations (tuples cannot be written in a .cfg)
Params2 == <<"k1", "k2">>
GoodA == <<{1, 3}, {1}>>
FailsA == {<<2, 3>>}
GoodB == <<{1}, {2}>>
FailsB == {<<2, 1>>}
FailsNone == {}
=============================================================================
