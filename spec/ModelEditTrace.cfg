CONSTANTS
    Depth = 0
    Seeds = {}
    OpSet = "all"
    EmitOn = FALSE
INIT TInit
NEXT TStep
INVARIANT Progress
CHECK_DEADLOCK FALSE
