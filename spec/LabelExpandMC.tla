--------------------------- MODULE LabelExpandMC ---------------------------
(***************************************************************************)
(* C05 -- case family over LabelExpand: base model templates x label       *)
(* counts x ALL atom-transition maps x initial-label requests, built by    *)
(* actions in small steps (one label count, one map entry, one request per *)
(* step).  Every finished case is checked against the theorems of the      *)
(* definition (CountRule, UnitRule, AtomRule, SumRule at NPts integer      *)
(* isotopomer states, InitRule) and emitted with the observations the      *)
(* definition predicts for LabelMapper.build_model: the set of reactions   *)
(* (name, stoichiometry, arguments), the initial conditions and the        *)
(* right-hand side at the enumerated states.                               *)
(*                                                                         *)
(* ArgMode = "occurrence" is the definition; ArgMode = "last" is the shape *)
(* of the pinned implementation (argument renaming through a dict keyed by *)
(* base name) and must be REJECTED by TLC (SumRule) on template "homo".    *)
(***************************************************************************)
EXTENDS LabelExpand, SequencesExt, Json

CONSTANTS
    Tpls,        \* template ids offered
    Ords,        \* presentation orders offered (subset of {"std", "swap", "rev", "swaprev"}, see LabelExpand!Reorder)
    MaxNL,       \* label counts 1..MaxNL per labelled compound
    MaxL,        \* bound on max(S, P) of every mapped reaction (cases beyond it are not built)
    ShortMaps,   \* TRUE: also maps shorter than the substrates' atoms (must be rejected)
    InitAll,     \* TRUE: every initial-label request per compound; FALSE: one request, rotating with the case
    ArgMode,     \* "occurrence" | "last"
    EmitOn

VARIABLES tpl, ord, nl, maps, tgt, ci, ri, req, stage,
          sc      \* the finished case with everything the definition predicts for it (filled in once, by the last step)
vars == <<tpl, ord, nl, maps, tgt, ci, ri, req, stage, sc>>

Empty == [n \in {} |-> 0]
Rx(name, subs, prods, args, mapped) ==
    [name |-> name, subs |-> subs, prods |-> prods, args |-> args, mapped |-> mapped, map |-> <<>>, den |-> 1]
InitOf == [A |-> 4, B |-> 3, C |-> 5, D |-> 6, X |-> 2, Y |-> 1, Z |-> 7]
Pars   == [k0 |-> 6, k1 |-> 3, k2 |-> 2, k3 |-> 5]

\* lab: the compounds that receive label positions, in the order in which counts are chosen
Tpl(id) ==
    CASE id = "uni"    -> [cpds |-> <<"A", "B">>, lab |-> <<"A", "B">>, der |-> Empty,
                           rxns |-> <<Rx("v1", <<"A">>, <<"B">>, <<"A", "k1">>, TRUE)>>]
      [] id = "bi"     -> [cpds |-> <<"A", "B", "C">>, lab |-> <<"A", "B", "C">>, der |-> Empty,
                           rxns |-> <<Rx("v1", <<"A", "B">>, <<"C">>, <<"A", "B", "k1">>, TRUE)>>]
      [] id = "split"  -> [cpds |-> <<"A", "B", "C">>, lab |-> <<"A", "B", "C">>, der |-> Empty,
                           rxns |-> <<Rx("v1", <<"A">>, <<"B", "C">>, <<"k1", "A">>, TRUE)>>]
      [] id = "influx" -> [cpds |-> <<"A">>, lab |-> <<"A">>, der |-> Empty,
                           rxns |-> <<Rx("v0", <<>>, <<"A">>, <<"k0">>, TRUE)>>]
      [] id = "efflux" -> [cpds |-> <<"A">>, lab |-> <<"A">>, der |-> Empty,
                           rxns |-> <<Rx("v1", <<"A">>, <<>>, <<"k1", "A">>, TRUE)>>]
      [] id = "rev"    -> [cpds |-> <<"A", "B">>, lab |-> <<"A", "B">>, der |-> Empty,
                           rxns |-> <<Rx("v1", <<"A">>, <<"B">>, <<"A", "k1">>, TRUE),
                                      Rx("v2", <<"B">>, <<"A">>, <<"B", "k2">>, TRUE)>>]
      [] id = "homo"   -> [cpds |-> <<"A", "B">>, lab |-> <<"A", "B">>, der |-> Empty,
                           rxns |-> <<Rx("v1", <<"A", "A">>, <<"B">>, <<"A", "A", "k1">>, TRUE)>>]
      [] id = "dimer"  -> [cpds |-> <<"A", "B">>, lab |-> <<"A", "B">>, der |-> Empty,
                           rxns |-> <<Rx("v1", <<"A">>, <<"B", "B">>, <<"A", "k1">>, TRUE)>>]
      [] id = "cof"    -> [cpds |-> <<"X", "A", "B", "Y">>, lab |-> <<"A", "B">>, der |-> Empty,
                           rxns |-> <<Rx("v1", <<"X", "A">>, <<"B", "Y">>, <<"A", "X", "k1">>, TRUE)>>]
      [] id = "byst"   -> [cpds |-> <<"A", "X", "B", "Y">>, lab |-> <<"A", "B">>, der |-> Empty,
                           rxns |-> <<Rx("v1", <<"A">>, <<"B">>, <<"A", "k1">>, TRUE),
                                      Rx("v2", <<"X">>, <<"Y">>, <<"X", "A", "k2">>, FALSE)>>]
      [] id = "der"    -> [cpds |-> <<"A", "B", "X", "Y">>, lab |-> <<"A", "B">>,
                           der  |-> [d1 |-> [fn |-> "sum", args |-> <<"A", "B", "X">>],
                                     d2 |-> [fn |-> "prod", args |-> <<"k3", "Y">>]],
                           rxns |-> <<Rx("v1", <<"A">>, <<"B">>, <<"A", "d2">>, TRUE),
                                      Rx("v2", <<"X">>, <<"Y">>, <<"X", "d1", "k2">>, FALSE),
                                      Rx("v3", <<"B">>, <<"A">>, <<"k1", "B">>, TRUE)>>]
      \* merge / split embedded in a network whose other reactions introduce the compounds first (declaration-order cases)
      [] id = "binet"  -> [cpds |-> <<"A", "B", "C">>, lab |-> <<"A", "B", "C">>, der |-> Empty,
                           rxns |-> <<Rx("v0", <<>>, <<"A">>, <<"k0">>, TRUE),
                                      Rx("v3", <<>>, <<"B">>, <<"k3">>, TRUE),
                                      Rx("v1", <<"A", "B">>, <<"C">>, <<"A", "B", "k1">>, TRUE),
                                      Rx("v2", <<"C">>, <<>>, <<"k2", "C">>, TRUE)>>]
      [] id = "splitnet" -> [cpds |-> <<"A", "B", "C">>, lab |-> <<"A", "B", "C">>, der |-> Empty,
                           rxns |-> <<Rx("v0", <<>>, <<"A">>, <<"k0">>, TRUE),
                                      Rx("v2", <<"B">>, <<>>, <<"k2", "B">>, TRUE),
                                      Rx("v3", <<"C">>, <<>>, <<"k3", "C">>, TRUE),
                                      Rx("v1", <<"A">>, <<"B", "C">>, <<"k1", "A">>, TRUE)>>]
      \* three units on one side (the third unit's atoms start after the first TWO units' atoms); homo3 mentions the
      \* doubled substrate NON-adjacently in the rate arguments
      [] id = "tri3"   -> [cpds |-> <<"A", "B", "C", "D">>, lab |-> <<"A", "B", "C", "D">>, der |-> Empty,
                           rxns |-> <<Rx("v1", <<"A", "B", "C">>, <<"D">>, <<"A", "B", "C", "k1">>, TRUE)>>]
      [] id = "split3" -> [cpds |-> <<"A", "B", "C", "D">>, lab |-> <<"A", "B", "C", "D">>, der |-> Empty,
                           rxns |-> <<Rx("v1", <<"A">>, <<"B", "C", "D">>, <<"k1", "A">>, TRUE)>>]
      [] id = "homo3"  -> [cpds |-> <<"A", "B", "C">>, lab |-> <<"A", "B", "C">>, der |-> Empty,
                           rxns |-> <<Rx("v1", <<"A", "A", "B">>, <<"C">>, <<"A", "B", "A", "k1">>, TRUE)>>]
      [] id = "trimer" -> [cpds |-> <<"A", "B">>, lab |-> <<"A", "B">>, der |-> Empty,
                           rxns |-> <<Rx("v1", <<"A">>, <<"B", "B", "B">>, <<"A", "k1">>, TRUE)>>]
      \* an unmapped bystander with NON-INTEGER coefficients X -> 0.5 Y + 1.5 Z (unit counts 2, 1, 3 over den = 2; its rate X * A * k2 is
      \* even because k2 = 2) next to a mapped reaction: the bystander part of the dynamics must survive unchanged
      [] id = "frac"   -> [cpds |-> <<"A", "X", "B", "Y", "Z">>, lab |-> <<"A", "B">>, der |-> Empty,
                           rxns |-> <<Rx("v1", <<"A">>, <<"B">>, <<"A", "k1">>, TRUE),
                                      [Rx("v2", <<"X", "X">>, <<"Y", "Z", "Z", "Z">>, <<"X", "A", "k2">>, FALSE) EXCEPT !.den = 2]>>]
      \* a mapped reaction whose rate reads its own tracked product (A -> B at rate k1 * A * B)
      [] id = "prodarg" -> [cpds |-> <<"A", "B">>, lab |-> <<"A", "B">>, der |-> Empty,
                           rxns |-> <<Rx("v1", <<"A">>, <<"B">>, <<"A", "B", "k1">>, TRUE)>>]
      [] id = "chain"  -> [cpds |-> <<"A", "B">>, lab |-> <<"A", "B">>, der |-> Empty,
                           rxns |-> <<Rx("v0", <<>>, <<"A">>, <<"k0">>, TRUE),
                                      Rx("v1", <<"A">>, <<"B">>, <<"k1", "A">>, TRUE),
                                      Rx("v2", <<"B">>, <<>>, <<"k2", "B">>, TRUE)>>]

T == Reorder(Tpl(tpl), ord)

\* the content built so far (maps filled in as far as chosen)
Content ==
    [cpds |-> T.cpds,
     nl   |-> [c \in Range(T.cpds) |-> IF c \in DOMAIN nl THEN nl[c] ELSE 0],
     init |-> [c \in Range(T.cpds) |-> InitOf[c]],
     pars |-> Pars,
     der  |-> T.der,
     rxns |-> [j \in DOMAIN T.rxns |-> [T.rxns[j] EXCEPT !.map = IF j \in DOMAIN maps THEN maps[j] ELSE <<>>]]]

MappedIdx == {j \in DOMAIN T.rxns : T.rxns[j].mapped}
NextMapped(j) == IF \E m \in MappedIdx : m > j THEN Min({m \in MappedIdx : m > j}) ELSE 0

Init ==
    /\ tpl \in Tpls
    /\ ord \in Ords
    /\ nl = Empty /\ maps = Empty /\ tgt = 0 /\ ci = 1 /\ ri = 0 /\ req = Empty
    /\ stage = "nl"
    /\ sc = <<>>

PickNL ==
    /\ stage = "nl"
    /\ IF ci <= Len(T.lab)
       THEN /\ \E n \in 1..MaxNL : nl' = nl @@ (T.lab[ci] :> n)
            /\ ci' = ci + 1
            /\ UNCHANGED <<ri, stage>>
       ELSE /\ ri' = NextMapped(0)
            /\ stage' = "len"
            /\ UNCHANGED <<nl, ci>>
    /\ UNCHANGED <<tpl, ord, maps, tgt, req, sc>>

PickLen ==
    /\ stage = "len"
    /\ LET r == Content.rxns[ri] IN
          /\ NSrc(Content, r) <= MaxL
          /\ \E len \in {NSrc(Content, r)} \cup (IF ShortMaps THEN 0..(SLab(Content, r) - 1) ELSE {}) :
                tgt' = len
    /\ maps' = maps @@ (ri :> <<>>)
    /\ stage' = "map"
    /\ UNCHANGED <<tpl, ord, nl, ci, ri, req, sc>>

PickEntry ==
    /\ stage = "map"
    /\ IF Len(maps[ri]) < tgt
       THEN /\ \E e \in 0..(NSrc(Content, Content.rxns[ri]) - 1) : maps' = [maps EXCEPT ![ri] = Append(@, e)]
            /\ UNCHANGED <<ri, stage, ci>>
       ELSE /\ IF NextMapped(ri) # 0
               THEN ri' = NextMapped(ri) /\ stage' = "len" /\ ci' = ci
               ELSE ri' = ri /\ stage' = "req" /\ ci' = 1
            /\ UNCHANGED maps
    /\ UNCHANGED <<tpl, ord, nl, tgt, req, sc>>

\* every way to ask for initial label on a compound with n positions
ReqMenu(n) ==
    <<[k |-> "none", ps |-> <<>>]>>
    \o [p \in 1..n |-> [k |-> "int", ps |-> <<p - 1>>]]
    \o SetToSeq({[k |-> "list", ps |-> SetToSortSeq(S, <)] : S \in SUBSET (0..(n - 1))})

Salt == SumSeq([j \in 1..Len(T.rxns) |-> IF j \in DOMAIN maps THEN SumSeq(maps[j]) + Len(maps[j]) ELSE 0])

(***************************************************************************)
(* Integer isotopomer states                                               *)
(***************************************************************************)
NPts == 4
RECURSIVE BitVal(_)
BitVal(bits) == IF Len(bits) = 0 THEN 0 ELSE 2 * BitVal(SubSeq(bits, 1, Len(bits) - 1)) + bits[Len(bits)]
CPos(b, c) == CHOOSE j \in DOMAIN b.cpds : b.cpds[j] = c
Idx(b, rec) == 8 * (CPos(b, rec.c) - 1) + BitVal(rec.bits)
PointVal(k, i) ==
    CASE k = 1 -> ((3 * i + 2) % 7) + 1
      [] k = 2 -> (5 * i + 1) % 11
      [] k = 3 -> IF i % 3 = 1 THEN 0 ELSE (i % 5) + 1
      [] k = 4 -> 1
Point(b, k) == LET idx == IsoIndex(b) IN [n \in {rec.n : rec \in idx} |-> PointVal(k, Idx(b, CHOOSE rec \in idx : rec.n = n))]

NoReq == [k |-> "none", ps |-> <<>>]

\* everything the definition says about the finished case, computed once
Compute(rq) ==
    LET b == Content
    IN IF Outcome(b) = "ok" /\ AllProper(b)
       THEN [ok |-> TRUE, tpl |-> tpl, ord |-> ord, b |-> b, req |-> rq, outcome |-> "ok",
             rxns |-> LabelledRxns(b, "occurrence"),
             init |-> LInit(b, [c \in CpdSet(b) |-> IF c \in DOMAIN rq THEN rq[c] ELSE NoReq]),
             \* (rates reading a product: no predicted derivatives; the labelled model must still be evaluable at `probe`
             \* and, every reaction being 1:1, keep the total amount)
             probe |-> IF HasWild(b) THEN <<[y |-> Point(b, 1),
                                            balanced |-> \A j \in DOMAIN b.rxns : Len(b.rxns[j].subs) = Len(b.rxns[j].prods)]>>
                       ELSE <<>>,
             pts  |-> IF HasWild(b) THEN <<>> ELSE [k \in 1..NPts |->
                         LET y  == Point(b, k)
                             tt == Totals(b, y)
                         IN [y |-> y, dy |-> LRhs(b, y, ArgMode), tot |-> tt, base |-> BRhs(b, tt)]]]
       ELSE [ok |-> FALSE, tpl |-> tpl, ord |-> ord, b |-> b, req |-> rq, outcome |-> Outcome(b)]

PickReq ==
    /\ stage = "req"
    /\ IF ci <= Len(T.lab)
       THEN LET c == T.lab[ci]
                menu == ReqMenu(nl[c])
            IN /\ IF InitAll
                  THEN \E q \in 1..Len(menu) : req' = req @@ (c :> menu[q])
                  ELSE req' = req @@ (c :> menu[((Salt + 3 * ci) % Len(menu)) + 1])
               /\ ci' = ci + 1
               /\ UNCHANGED <<stage, sc>>
       ELSE /\ stage' = "done"
            /\ sc' = Compute(req)
            /\ UNCHANGED <<req, ci>>
    /\ UNCHANGED <<tpl, ord, nl, maps, tgt, ri>>

Next == PickNL \/ PickLen \/ PickEntry \/ PickReq
Done == stage = "done"
Ok == Done /\ sc.ok

Emit == (EmitOn /\ Done) => PrintT("@J@" \o ToJson(sc) \o "@E@")

(***************************************************************************)
(* Theorems                                                                *)
(***************************************************************************)
ThCount == Ok => CountRule(sc.b, ArgMode)
ThUnit  == Ok => UnitRule(sc.b, ArgMode)
ThAtom  == Ok => AtomRule(sc.b)
\* the isotopomers of a compound together move like the base compound at the totals (SumRule, on the stored values)
ThSum   == Ok => LET idx == IsoIndex(sc.b)
                 IN \A k \in DOMAIN sc.pts : \A c \in CpdSet(sc.b) : TotalOfI(idx, sc.pts[k].dy, c) = sc.pts[k].base[c]
\* placement keeps the amount of every compound (InitRule, on the stored values)
ThInit  == Ok => LET idx == IsoIndex(sc.b) IN \A c \in CpdSet(sc.b) : TotalOfI(idx, sc.init, c) = sc.b.init[c]
\* rejection is decided by the length of the map alone
\* non-integer coefficients: every rate of such a reaction is a multiple of the denominator (so the integer arithmetic is exact)
ThDen   == Ok => \A k \in DOMAIN sc.pts : \A j \in Unmapped(sc.b) :
                    (BRate(sc.b, sc.pts[k].tot, sc.b.rxns[j]) % Den(sc.b.rxns[j])) = 0
ThReject == Done => ((sc.outcome = "rejected") <=> (\E j \in MappedIdx : Len(maps[j]) < SLab(sc.b, sc.b.rxns[j])))
=============================================================================
