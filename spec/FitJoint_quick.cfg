\* C20 joint fits: two experiments, every combination of overrides and shared defaults; settings are order-free; scenarios with exact per-experiment residuals
CONSTANTS
    Kinds = {"tc", "ptc", "ssc"}
    NExp = 2
    SettingsRule = "own"
    Rich = FALSE
    EmitOn = TRUE
INIT Init
NEXT Next
INVARIANT OrderFree
INVARIANT LeakMatters
INVARIANT HistoryFree
INVARIANT Emit
CHECK_DEADLOCK FALSE
