\* C19: implementation-shaped wrong instance "an entry point that accepts cache= but does not forward it": must VIOLATE NoRecompute (the repeated run computes)
CONSTANTS
    NKeys = 2
    W = 1
    L = 1
    Design = "temp"
    Policy = "trust"
    RenameAt = "closed"
    BypassOne = FALSE
    MkdirAtBuild = FALSE
    Recover = FALSE
    Forwards = FALSE
    MaxDrop = 0
    LossyNames = FALSE
    Memo = FALSE
    MaxClear = 1
    MaxExtra = 1
    MaxCrash = 0
    Fifo = TRUE
    EmitOn = FALSE
INIT Init
NEXT Next
INVARIANT TypeOK
INVARIANT NoRecompute
CHECK_DEADLOCK TRUE
