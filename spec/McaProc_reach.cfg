\* C18 procedure machine: vacuity guard: a finished run with supplied initial values and normalisation exists (Reached must fail)
CONSTANTS
    Mode = "seq"
    RestorePars = TRUE
    RestoreY0 = TRUE
    Cyclic = FALSE
    EarlyRestoreY0 = FALSE
INIT Init
NEXT Next
INVARIANT Reached
CHECK_DEADLOCK FALSE
