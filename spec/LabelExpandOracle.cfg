INIT Init
NEXT Next
INVARIANT Judge
CHECK_DEADLOCK FALSE
