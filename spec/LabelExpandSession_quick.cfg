\* every session first-use x one field mutation x build (and the build-build control), label counts 0..2, identity maps initially (the style mutation switches to reversal)
CONSTANTS
    MaxNL = 2
    MaxSets = 1
    Styles = {"id"}
    Memo = FALSE
    EmitOn = TRUE
INIT Init
NEXT Next
INVARIANT Faithful
INVARIANT FieldsStable
INVARIANT Closed
INVARIANT Emit
CHECK_DEADLOCK FALSE
