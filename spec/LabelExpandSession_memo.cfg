\* the wrong instance: isotopomer table memoised at first use; TLC must find Faithful violated
CONSTANTS
    MaxNL = 2
    MaxSets = 1
    Styles = {"id"}
    Memo = TRUE
    EmitOn = FALSE
INIT Init
NEXT Next
INVARIANT Faithful
CHECK_DEADLOCK FALSE
