"""Shared by C04 and C14: the real Simulator on the linear family x' = kin - k*x, driven by operations of
spec/Simulator.tla; projection of results onto the specification's state; closed-form flow evaluation.

Units: the specification counts time in integer ticks plus "epsilons" (just after) and parameter values in
integer units.  A Rendering fixes what they are in model time: SMALL (tick 0.5, epsilon 2^-9, unit 2^-6) and LARGE
(tick 512, epsilon 2^-9 ~ 2 ms, unit 2^-16: the same k*dt per tick, so the closed form stays well-conditioned, but
absolute times of thousands where an epsilon is a relative 1e-6); every float is exact in both.  A time of the
specification is {"b": base, "o": ticks, "e": epsilons}: base 0 is model time zero, base j > 0 is the time stamp
of the j-th steady-state point (bound when the real call returns it).  Recorded traces write a time as the single
integer 1000 * ticks + epsilons.
"""

from __future__ import annotations

import json
import math
import random

from dataclasses import dataclass


@dataclass(frozen=True)
class Rendering:
    name: str
    ts: float    # model time per tick
    eps: float   # model time per epsilon
    ps: float    # parameter value per unit


# every number is dyadic AND a whole number of nanoseconds (protocol boundaries go through pandas Timedeltas):
# 2^-9 s = 1 953 125 ns.  At t >= 512 an epsilon is within numpy.isclose's default tolerance (1e-8 + 1e-5 t).
SMALL = Rendering("small", 0.5, 2.0 ** -9, 2.0 ** -6)
LARGE = Rendering("large", 512.0, 2.0 ** -9, 2.0 ** -16)
RENDERINGS = {"small": SMALL, "large": LARGE}
TS = SMALL.ts     # (kept for callers that only know the exact rendering)
PS = SMALL.ps
X0 = 4.0          # initial value of x
P0 = {"kin": 128, "kk": 64}
REL = 1e-6        # DESIGN.md section 4, rule 3: after an ODE solve
ABS = 1e-9
FRAGILE_BELOW = 1e-1   # |x| below this: 1e-6 * |x| < 10 x integrator atol (errors of a few 1e-8 accumulate while x decays to 0); such rows are judged at FRAGILE_ABS and counted
FRAGILE_ABS = 1e-7
SS_REL = 1e-4     # the steady-state point itself: accuracy of the steady state is C15's subject


def influx(kin):
    return kin


def outflux(k, x):
    return k * x


RAMP_UNITS = 32   # the time-dependent member: extra inflow r * time with r = 32 parameter units per tick of time


def rampflux(time, r):
    return r * time


def x0_of_kin(kin):
    return kin * X0_PER_KIN[0]


X0_PER_KIN = [0.0]   # set per model (module-level because rate functions must be plain functions)


def ident(v):
    return v


def make_model(x0: float = X0, p: dict | None = None, r: Rendering = SMALL, ramp: bool = False, ia: bool = False,
               mirror: bool = False, derived: bool = False, bystander: bool = False):
    """x' = kin - k*x [+ r*time when ramp].  ia: the initial value of x is assignment-defined (X0 under the
    parameter values at construction, proportional to kin)."""
    from mxlpy import Model
    from mxlpy.types import InitialAssignment

    p = p or P0
    PS = r.ps  # noqa: N806
    X0_PER_KIN[0] = x0 / (p["kin"] * PS)
    from mxlpy.types import Derived

    m = (
        Model()
        .add_parameters({"kin": p["kin"] * PS, "k": p["kk"] * PS})
        .add_variables({"x": InitialAssignment(fn=x0_of_kin, args=["kin"]) if ia else x0})
    )
    if derived:
        # same equations, but the rate laws do not read the stepped parameters directly: the outflow reads a derived
        # parameter k_d = k, the inflow has rate 1 and a computed stoichiometric coefficient kin
        m.add_parameter("one", 1.0).add_derived("k_d", fn=ident, args=["k"])
        sx = Derived(fn=ident, args=["kin"])
        kname, vin_args = "k_d", ["one"]
    else:
        sx, kname, vin_args = 1.0, "k", ["kin"]
    m.add_reaction("vin", influx, args=vin_args, stoichiometry={"x": sx})
    m.add_reaction("vout", outflux, args=[kname, "x"], stoichiometry={"x": -1.0})
    if ramp:
        m.add_parameter("r", ramp_rate(r)).add_reaction("vramp", rampflux, args=["time", "r"], stoichiometry={"x": 1.0})
    if mirror:
        # a second variable with the same equation and the same start: it must stay equal to x; an override is
        # then written as two calls in a row on the two variables
        m.add_variables({"y": InitialAssignment(fn=x0_of_kin, args=["kin"]) if ia else x0})
        m.add_reaction("vin_y", influx, args=vin_args, stoichiometry={"y": sx})
        m.add_reaction("vout_y", outflux, args=[kname, "y"], stoichiometry={"y": -1.0})
        if ramp:
            m.add_reaction("vramp_y", rampflux, args=["time", "r"], stoichiometry={"y": 1.0})
    if bystander:
        # a third kind of variable: same equation, same start, NEVER named in an override -- an override names x
        # only, so z must go on from the state it had reached (Simulator.tla: HistOf(s, FALSE))
        m.add_variables({"z": InitialAssignment(fn=x0_of_kin, args=["kin"]) if ia else x0})
        m.add_reaction("vin_z", influx, args=vin_args, stoichiometry={"z": sx})
        m.add_reaction("vout_z", outflux, args=[kname, "z"], stoichiometry={"z": -1.0})
        if ramp:
            m.add_reaction("vramp_z", rampflux, args=["time", "r"], stoichiometry={"z": 1.0})
    return m


def ramp_rate(r: Rendering) -> float:
    return RAMP_UNITS * r.ps / r.ts


def flow(kin: float, k: float, dt: float, x0: float) -> float:
    """Closed-form solution of x' = kin - k*x after dt from x0 (the trusted numeric leaf)."""
    if k == 0.0:
        return x0 + kin * dt
    xs = kin / k
    return xs + (x0 - xs) * math.exp(-k * dt)


def flow_t(kin: float, k: float, rr: float, t0: float, t: float, x0: float) -> float:
    """Closed-form solution of x' = kin + rr*time - k*x from (t0, x0) to absolute time t: the particular solution
    xp(t) = (rr/k) t + kin/k - rr/k^2 plus the decaying difference."""
    if rr == 0.0:
        return flow(kin, k, t - t0, x0)
    if k == 0.0:
        return x0 + kin * (t - t0) + rr * (t * t - t0 * t0) / 2.0

    def xp(s):
        return (rr / k) * s + kin / k - rr / (k * k)

    return xp(t) + (x0 - xp(t0)) * math.exp(-k * (t - t0))


def close(a: float, b: float, rel: float = REL, abs_: float = ABS) -> bool:
    return abs(a - b) <= abs_ + rel * max(abs(a), abs(b))


def tclose(a: float, b: float) -> bool:
    return abs(a - b) <= 1e-9 * max(1.0, abs(a), abs(b))


KEEP = -1   # spec: the step does not name this parameter


def step_dicts(steps: list, r: Rendering, salt: int) -> list:
    """[(duration, {name: value})] with the key order alternating between consecutive steps (so every step after
    the first is written in another order than the first one at least every second time) and KEEP entries left out."""
    out = []
    for i, s in enumerate(steps):
        items = [("kin", s["p"]["kin"]), ("k", s["p"]["kk"])]
        if (i + salt) % 2 == 1:
            items.reverse()
        out.append((s["d"] * r.ts, {n: v * r.ps for n, v in items if v != KEEP}))
    return out


class Run:
    """One real Simulator driven by specification operations."""

    def __init__(self, r: Rendering = SMALL, salt: int = 0, ramp: bool = False, ia: bool = False,
                 use_jacobian: bool = False, mirror: bool = False, derived: bool = False):
        from mxlpy import Simulator

        self.r = r
        self.ramp = ramp_rate(r) if ramp else 0.0
        self.ia = ia
        self.cand_kin = {P0["kin"]}     # kin values in force while the simulator had not run yet (ia start state)
        self.mirror = mirror
        self.derived = derived
        self.bystander = not mirror      # histories without the mirror variable carry the never-overridden z
        self.model = make_model(r=r, ramp=ramp, ia=ia, mirror=mirror, derived=derived, bystander=self.bystander)
        self.sim = Simulator(self.model, use_jacobian=use_jacobian)
        self.bases = {0: 0.0}
        self.touched = False     # the history has read the computed views of a result
        self.grids: dict = {}    # a caller keeps and reuses its time grids: one float64 array object per grid
        self.salt = salt         # seeds the rendering choices of protocol tables
        self.ncalls = 0
        self.stats: dict = {}

    def grid(self, kind: str, values: list):
        """The caller's array for this grid: created once, handed over again whenever the same grid is asked for."""
        import numpy as np

        key = (kind, tuple(values))
        if key not in self.grids:
            g = np.array(values, dtype=float)
            if all(float(v).is_integer() for v in values):
                # whole-number points are also written the way people write them: integers
                ints = [int(v) for v in values]
                how = (self.salt // 64 + len(self.grids)) % 4
                steps = {b - a for a, b in zip(ints, ints[1:])}
                if how == 1:
                    g = ints
                elif how == 2:
                    g = np.array(ints, dtype=np.int64)
                elif how == 3 and len(steps) == 1 and min(steps) > 0:
                    g = range(ints[0], ints[-1] + 1, min(steps))
                elif how == 3:
                    g = tuple(ints)
                if how:
                    self.stats["integer_typed_grids"] = self.stats.get("integer_typed_grids", 0) + 1
            self.grids[key] = g
        return self.grids[key]

    def t(self, tm: dict) -> float:
        return self.bases[tm["b"]] + tm["o"] * self.r.ts + tm.get("e", 0) * self.r.eps

    def off(self, v: int) -> float:
        """A relative offset written as 1000 * ticks + epsilons."""
        return (v // 1000) * self.r.ts + (v % 1000) * self.r.eps

    def protocol(self, steps):
        """The protocol table for the specification's steps.  A step is a function name -> value; HOW it is written
        down is a choice of this rendering (seeded by self.salt): the key order of the step dicts alternates from
        step to step, a parameter the step does not name (KEEP) is left out, and the table is built by
        make_protocol or by hand as a DataFrame with a Timedelta index (columns in order of first appearance)."""
        import pandas as pd

        from mxlpy import make_protocol

        self.ncalls += 1
        written = step_dicts(steps, self.r, self.salt + self.ncalls)
        if len(written) > 1:
            self.stats["protocol_key_order_varies"] = self.stats.get("protocol_key_order_varies", 0) + 1
        if any(len(d) < 2 for _, d in written):
            self.stats["protocol_step_omits_a_parameter"] = self.stats.get("protocol_step_omits_a_parameter", 0) + 1
        if (self.salt // 2 + self.ncalls) % 2 == 0:
            self.stats["protocol_by_make_protocol"] = self.stats.get("protocol_by_make_protocol", 0) + 1
            return make_protocol(written)
        self.stats["protocol_by_hand_made_dataframe"] = self.stats.get("protocol_by_hand_made_dataframe", 0) + 1
        cum, idx = 0.0, []
        for d, _ in written:
            cum += d
            idx.append(cum)
        return pd.DataFrame([d for _, d in written], index=pd.to_timedelta(idx, unit="s"))

    def apply(self, op: dict) -> dict:
        """Perform the call; returns {'raised': bool, 'exc': class name or None}."""
        s = self.sim
        k = op["k"]
        try:
            if k == "sim":
                s.simulate(self.t(op["te"]), steps=op["n"])
            elif k == "tc":
                s.simulate_time_course(self.grid("abs", [self.t(q) for q in op["pts"]]))
            elif k == "proto":
                s.simulate_protocol(self.protocol(op["steps"]), time_points_per_step=op["n"])
            elif k == "ptc":
                if op["rel"]:
                    s.simulate_protocol_time_course(self.protocol(op["steps"]),
                                                    self.grid("rel", [self.off(o) for o in op["rpts"]]),
                                                    time_points_as_relative=True)
                else:
                    s.simulate_protocol_time_course(self.protocol(op["steps"]),
                                                    self.grid("abs", [self.t(q) for q in op["pts"]]))
            elif k == "upd":
                s.update_parameter(op["name"], op["v"] * self.r.ps)
            elif k == "scale":
                s.scale_parameter(op["name"], float(op["f"]))
            elif k == "ov":
                if self.mirror:
                    s.update_variable("y", float(op["v"]))    # two overrides in a row, no segment in between
                s.update_variable("x", float(op["v"]))
            elif k == "ss":
                s.simulate_to_steady_state()
                obs = self.observe()
                if obs is not None and obs and op["tau"]["b"] != 0:
                    self.bases[op["tau"]["b"]] = obs[-1]["t"][-1] - op["tau"]["o"] * self.r.ts
            elif k == "ssfail":
                if not self.ramp:  # pragma: no cover
                    raise AssertionError("ssfail needs the member without a steady state")
                s.simulate_to_steady_state()
            elif k == "clear":
                s.clear_results()
            elif k == "read":
                # GetResult: the result is fetched AND its computed views are read
                r = s.get_result()
                if not isinstance(r.value, Exception):
                    _ = r.value.variables
                    _ = r.value.fluxes
                    _ = r.value.get_args()
                    self.touched = True
            else:  # pragma: no cover
                raise AssertionError(f"unknown op {k}")
        except AssertionError:
            raise
        except Exception as e:  # noqa: BLE001   (the statement says "refused", it names no class)
            return {"raised": True, "exc": type(e).__name__, "msg": str(e)[:120]}
        return {"raised": False, "exc": None}

    def observe(self):
        """Per segment: index, values of x, recorded parameters; None when get_result() is a failure value.
        Reads only raw_variables / raw_parameters (the lazily computed views touch the model's parameters)."""
        r = self.sim.get_result()
        if isinstance(r.value, Exception):
            return None
        res = r.value
        out = []
        for df, p in zip(res.raw_variables, res.raw_parameters, strict=True):
            out.append({"t": [float(v) for v in df.index], "x": [float(v) for v in df["x"].to_numpy()],
                        "p": {kk: float(v) for kk, v in p.items()}})
            if self.mirror:
                out[-1]["y"] = [float(v) for v in df["y"].to_numpy()]
            if getattr(self, "bystander", False):
                out[-1]["z"] = [float(v) for v in df["z"].to_numpy()]
        return out

    def views(self):
        """The computed views of a freshly fetched result (this is itself a read)."""
        r = self.sim.get_result()
        if isinstance(r.value, Exception):
            return None
        res = r.value
        va, fl, ar = res.variables, res.fluxes, res.get_args()
        self.touched = True
        return {"variables": {"t": [float(v) for v in va.index], "x": [float(v) for v in va["x"].to_numpy()]},
                "fluxes": {"t": [float(v) for v in fl.index], "vin": [float(v) for v in fl["vin"].to_numpy()],
                           "vout": [float(v) for v in fl["vout"].to_numpy()],
                           "vramp": [float(v) for v in fl["vramp"].to_numpy()] if self.ramp else None},
                "args": {"t": [float(v) for v in ar.index], "x": [float(v) for v in ar["x"].to_numpy()]}}


# ---- comparison of an observed result with the specification's state -----------------------------------------
def compare(run: Run, pst: dict, obs, stats: dict | None = None) -> dict | None:
    """pst: state predicted by the specification (after the call); obs: Run.observe(). None = conforms."""
    segs = pst["segs"]
    if pst.get("failed"):
        # a call failed: get_result() must answer with the failure, not with the segments simulated before
        if obs is not None:
            return {"what": "result", "expected": "a failure value (an earlier call failed)",
                    "observed_index": [o["t"] for o in obs]}
        return None
    if obs is None:
        if segs:
            return {"what": "result", "expected_segments": len(segs), "observed": "get_result() is a failure value"}
        return None
    if len(obs) != len(segs):
        # report the axis as well: it tells what happened
        return {"what": "segment-count", "expected": len(segs), "observed": len(obs),
                "observed_index": [o["t"] for o in obs]}
    try:
        exp_t = [[run.t(q) for q in g["times"]] for g in segs]
    except KeyError:
        return {"what": "steady-state-time", "observed": "no steady-state point was returned"}
    # the axis as a whole
    flat = [v for o in obs for v in o["t"]]
    if any(not (b > a) for a, b in zip(flat, flat[1:])):
        return {"what": "axis-not-increasing", "observed_index": [o["t"] for o in obs], "expected_index": exp_t}
    start_row = [True] * len(segs)
    for i, (g, o, et) in enumerate(zip(segs, obs, exp_t)):
        ot = o["t"]
        same = len(ot) == len(et) and all(tclose(a, b) for a, b in zip(ot, et))
        if not same and i == 0 and len(ot) == len(et) - 1 and all(tclose(a, b) for a, b in zip(ot, et[1:])):
            same = True          # the statement does not demand the starting row
            start_row[0] = False
        if not same:
            return {"what": "index", "segment": i, "expected": et, "observed": ot,
                    "observed_index": [x["t"] for x in obs]}
        ep = {"kin": g["p"]["kin"] * run.r.ps, "k": g["p"]["kk"] * run.r.ps}
        if getattr(run, "ramp", 0.0):
            ep["r"] = run.ramp
        if getattr(run, "derived", False):
            ep["one"] = 1.0
        if set(o["p"]) != set(ep) or any(not tclose(o["p"][n], ep[n]) for n in ep):
            return {"what": "parameters", "segment": i, "expected": ep, "observed": o["p"]}
    # the mirror variable (same equation, same start, every override written for both) stays equal to x
    for i, o in enumerate(obs):
        for tv, xv, yv in zip(o["t"], o["x"], o.get("y", [])):
            tol = FRAGILE_ABS if max(abs(xv), abs(yv)) < FRAGILE_BELOW else ABS + REL * max(abs(xv), abs(yv))
            if not abs(xv - yv) <= tol:
                return {"what": "values", "segment": i, "time": tv, "expected": f"y = x = {xv}", "observed": yv,
                        "mirror_variable": True}
    # values: walk the history -- for x (named in every override) and for the bystander z (named in none: its
    # history is the same one without the override records)
    def walk(col: str, named: bool) -> dict | None:
        hist = pst["hist"]
        x = None
        hi = 0
        for i, (g, o) in enumerate(zip(segs, obs)):
            while hi < g["sidx"]:
                rec = hist[hi]
                if rec["k"] == "init":
                    x = X0
                    if getattr(run, "ia", False) and i == 0 and start_row[0] and g["times"][0] == g["t0"] \
                            and (hi == g["sidx"] - 1 or not named):
                        # assignment-defined initial value and parameters updated before the first run: the statement
                        # does not say whether a simulator that has not run yet starts from the model's initial
                        # conditions as they were at construction or as they are now -- either is accepted (and counted)
                        cands = {X0} | {X0 * u / P0["kin"] for u in run.cand_kin | {g["p"]["kin"]}}
                        hit = [c for c in sorted(cands) if close(o[col][0], c, 1e-9, 1e-12)]
                        if not hit:
                            return {"what": "start-state", "expected_one_of": sorted(cands), "observed": o[col][0]}
                        x = hit[0] if X0 not in hit else X0
                        if stats is not None and len(cands) > 1:
                            key = "start_state_as_at_construction" if x == X0 else "start_state_follows_current_parameters"
                            stats[key] = stats.get(key, 0) + 1
                elif rec["k"] == "free":
                    # bound to the first row of the first segment when that row is the starting point
                    own = hist[g["sidx"]]["k"] == "flow" and g["times"][0] == g["t0"]
                    x = o[col][0] if (i == 0 and start_row[0] and own) else None
                elif rec["k"] == "ov":
                    if named:
                        x = float(rec["v"])
                else:  # pragma: no cover
                    raise AssertionError(f"history record {rec} outside a segment")
                hi += 1
            frec = hist[hi]
            hi += 1
            if x is None:
                continue
            kin, k = g["p"]["kin"] * run.r.ps, g["p"]["kk"] * run.r.ps
            t0 = run.t(g["t0"])
            ts = o["t"]
            loose = frec["k"] == "ss"
            for tv, xv in zip(ts, o[col]):
                e = flow_t(kin, k, getattr(run, "ramp", 0.0), t0, tv, x)
                err = abs(e - xv)
                tol = ABS + (SS_REL if loose else REL) * max(abs(e), abs(xv))
                if max(abs(e), abs(xv)) < FRAGILE_BELOW:
                    # fragile: the relative budget is below the integrator's own absolute tolerance (1e-8)
                    tol = FRAGILE_ABS
                    if stats is not None:
                        stats["fragile"] = stats.get("fragile", 0) + 1
                if stats is not None:
                    stats["n"] = stats.get("n", 0) + 1
                    stats["worst"] = max(stats.get("worst", 0.0), err / tol)
                if not (err <= tol):
                    return {"what": "values", "segment": i, "time": tv, "expected": e, "observed": xv,
                            "variable": col, "start_state": x, "start_time": t0, "parameters": {"kin": kin, "k": k},
                            "steady_state_point": loose}
            # the state reached: closed form, except after a steady-state point (its accuracy is not ours to judge)
            x = o[col][-1] if loose else flow_t(kin, k, getattr(run, "ramp", 0.0), t0, ts[-1], x)
        return None

    bad = walk("x", True)
    if bad is None and getattr(run, "bystander", False) and all("z" in o for o in obs):
        bad = walk("z", False)
        if bad is not None:
            bad["bystander_variable"] = True
    return bad


def compare_views(run: Run, pst: dict, obs) -> dict | None:
    """The computed views of the result (variables, fluxes, args) cover the whole accumulated axis, repeat the
    raw states, and fluxes reported at a point use the values in force during that point's segment."""
    if pst.get("failed"):
        return None
    vw = run.views()
    if vw is None or obs is None:
        return None
    PS = run.r.ps  # noqa: N806
    rows = [(tv, xv, g["p"]) for g, o in zip(pst["segs"], obs) for tv, xv in zip(o["t"], o["x"])]
    for name in ("variables", "args", "fluxes"):
        got = vw[name]["t"]
        if len(got) != len(rows) or any(not tclose(a, r[0]) for a, r in zip(got, rows)):
            return {"what": "views-index", "view": name, "expected": [r[0] for r in rows], "observed": got}
    for name in ("variables", "args"):
        for (tv, xv, _), gx in zip(rows, vw[name]["x"]):
            if not close(gx, xv, 1e-12, 0.0):
                return {"what": "views-values", "view": name, "time": tv, "expected": xv, "observed": gx}
    fl = vw["fluxes"]
    for (tv, xv, p), vin, vout in zip(rows, fl["vin"], fl["vout"]):
        if run.derived:
            vin = vin * p["kin"] * PS     # rate 1 with the computed coefficient kin
        if not tclose(vin, p["kin"] * PS) or not close(vout, p["kk"] * PS * xv, 1e-9, 1e-12):
            return {"what": "fluxes", "time": tv, "expected": {"vin": p["kin"] * PS, "vout": p["kk"] * PS * xv},
                    "observed": {"vin": vin, "vout": vout}}
    if run.ramp:
        for (tv, _, _), vr in zip(rows, fl["vramp"]):
            if not close(vr, run.ramp * tv, 1e-9, 1e-15):
                return {"what": "fluxes", "time": tv, "expected": {"vramp": run.ramp * tv}, "observed": {"vramp": vr}}
    return None


def has_eps(hist_steps: list) -> bool:
    """Does the history ask for a point just after a boundary / the time reached?"""
    for s in hist_steps:
        op = s["op"]
        if any(q.get("e", 0) for q in op.get("pts", []) if isinstance(q, dict)) or \
                any(v % 1000 for v in op.get("rpts", [])) or op.get("te", {}).get("e", 0):
            return True
    return False


def hist_salt(hist_steps: list) -> int:
    import zlib

    return zlib.crc32(json.dumps([s["op"] for s in hist_steps], sort_keys=True).encode())


def replay_history(hist_steps: list, *, views_at_end: bool = True, r: Rendering = SMALL, ramp: bool = False,
                   ia: bool = False, use_jacobian: bool = False, mirror: bool = False,
                   derived: bool = False) -> tuple[dict | None, dict]:
    """Drive one emitted behaviour through the real Simulator; compare after every step.  Raw results are compared
    after every call; the computed views as well once the history itself has read them (operation "read"), and
    always at the end."""
    run = Run(r, salt=hist_salt(hist_steps), ramp=ramp, ia=ia, use_jacobian=use_jacobian, mirror=mirror,
              derived=derived)
    stats = run.stats
    tag = r.name + ("+ramp" if ramp else "") + ("+ia" if ia else "") + ("+jac" if use_jacobian else "") + \
        ("+mirror" if mirror else "") + ("+derived" if derived else "")
    obs = None
    for j, step in enumerate(hist_steps):
        if j > 0 and not hist_steps[j - 1]["st"]["segs"]:
            run.cand_kin.add(hist_steps[j - 1]["st"]["p"]["kin"])
        got = run.apply(step["op"])
        if got["raised"] != step["raised"]:
            return ({"what": "raised", "step": j, "expected_raised": step["raised"], "observed": got,
                     "rendering": tag, "observed_index": [o["t"] for o in (run.observe() or [])]}, stats)
        obs = run.observe()
        bad = compare(run, step["st"], obs, stats)
        if bad is None and run.touched and not step["st"].get("failed"):
            bad = compare_views(run, step["st"], obs)
        if bad:
            return ({**bad, "step": j, "rendering": tag}, stats)
    if views_at_end and hist_steps:
        bad = compare_views(run, hist_steps[-1]["st"], obs)
        if bad:
            return ({**bad, "step": len(hist_steps) - 1, "rendering": tag}, stats)
    return None, stats


def replay_renderings(hist_steps: list) -> tuple[dict | None, dict]:
    """Both renderings are exact.  Histories with an epsilon point (and no steady-state run, whose search length
    depends on the time scale) are replayed at large absolute times, where an epsilon is a relative 1e-6; the
    others in the small rendering.  Seeded by the history itself: half of the histories without a steady-state
    run use the time-dependent member of the family (extra inflow r * time: the model must see ABSOLUTE time in
    every continuation), half of all histories a model whose initial value is assignment-defined."""
    salt = hist_salt(hist_steps)
    no_ss = all(s["op"]["k"] != "ss" for s in hist_steps)
    fails = any(s["op"]["k"] == "ssfail" for s in hist_steps)
    if fails and not no_ss:
        # a steady-state run that succeeds and one that fails need different members of the family
        return None, {"skipped_success_and_failure_of_steady_state": 1}
    ramp = no_ss and ((salt >> 3) % 2 == 0 or fails)
    ia = (salt >> 4) % 2 == 0
    r = LARGE if (has_eps(hist_steps) and no_ss) else SMALL
    jac = (salt >> 5) % 2 == 0       # construction options of the Simulator are a dimension of the family too
    mirror = (salt >> 6) % 2 == 0
    derived = (salt >> 7) % 2 == 0   # rate laws read a derived parameter / a computed coefficient of the stepped ones
    bad, stats = replay_history(hist_steps, r=r, ramp=ramp, ia=ia, use_jacobian=jac, mirror=mirror, derived=derived)
    stats["derived"] = int(derived)
    stats["fails"] = int(fails)
    stats["large"] = int(r is LARGE)
    stats["ramp"] = int(ramp)
    stats["ia"] = int(ia)
    stats["jac"] = int(jac)
    stats["mirror"] = int(mirror)
    return bad, stats


# ---- shapes of failing histories (keys of known findings) ---------------------------------------------------
ADVANCING = ("sim", "tc", "proto", "ptc")


def classify(hist_steps: list, detail: dict) -> str | None:
    """Finding key from the SHAPE of the failing history and the kind of disagreement; None = no listed shape."""
    j = detail.get("step")
    if j is None:
        return None
    ops = [s["op"]["k"] for s in hist_steps]
    what = detail.get("what")
    # since the last clear
    start = max([i + 1 for i, k in enumerate(ops[:j + 1]) if k == "clear"] + [0])
    before = ops[start:j]
    cur = ops[j]
    book = ("raised", "index", "axis-not-increasing", "segment-count", "trace")
    if detail.get("mirror_variable") and "ov" in before + [cur]:
        return "consecutive-overrides-lose-the-first"
    if any(s["op"]["k"] in ("proto", "ptc") and
           any(KEEP in (st["p"]["kin"], st["p"]["kk"]) for st in s["op"]["steps"]) for s in hist_steps[start:j + 1]) \
            and what in ("raised", "parameters", "values", "trace", "result", "index", "segment-count"):
        return "protocol-step-omits-a-parameter"
    if "read" in before and what in ("views-index", "views-values"):
        return "views-stale-after-continuation"
    if "ss" in before and cur in ADVANCING + ("ss",) and what in book + ("values",):
        return "continue-after-steady-state"
    if cur == "ss" and what in ("values", "trace") and any(k in ADVANCING for k in before):
        return "steady-state-restarts-from-initial-state"
    if "read" in before and "upd" in before and cur in ADVANCING + ("ss",) and what in ("parameters", "values", "trace"):
        return "reading-views-restores-old-parameters"
    # time-dependent member of the family: an override after some result, then anything whose values are wrong
    if "+ramp" in str(detail.get("rendering", "")) and what == "values":
        seen = False
        for k in before + [cur]:
            if k == "ov" and seen:
                return "time-dependent-rate-after-variable-update"
            seen = seen or k in ADVANCING + ("ss",)
    # an override made after some result exists, then a continuation
    seen_result = False
    for k in before:
        if k in ADVANCING + ("ss",):
            seen_result = True
        if k == "ov" and seen_result and cur in ADVANCING and what in book:
            return "continue-after-variable-update"
    return None


# ---- code -> spec: a seeded random driver that records what the real Simulator does --------------------------
def to_ticks(v: float, r: Rendering = SMALL):
    """Model time -> 1000 * ticks + epsilons, or None when it is not on the grid."""
    if not math.isfinite(v):
        return None
    o = round(v / r.ts)
    rem = v - o * r.ts
    e = round(rem / r.eps)
    if not (0 <= e < 1000) or abs(rem - e * r.eps) > max(0.01 * r.eps, 8 * math.ulp(max(1.0, abs(v)))):
        return None
    return int(o) * 1000 + int(e)


def to_units(v: float, r: Rendering = SMALL):
    if not math.isfinite(v):
        return None
    q = v / r.ps
    u = round(q)
    return int(u) if abs(q - u) <= 1e-9 * max(1.0, abs(q)) else None


PAR_CHOICES = [(128, 64), (64, 128), (192, 32), (128, 16), (32, 64), (64, 4), (0, 64), (0, 16), (KEEP, 32), (192, KEEP),
               (KEEP, 128)]
DEFAULT_WEIGHTS = {"sim": 5, "tc": 4, "proto": 2, "ptc": 3, "upd": 3, "scale": 1, "ov": 3, "ss": 1, "clear": 1,
                   "read": 2}


def random_steps(rnd: random.Random, nmax: int = 4) -> list:
    n = rnd.randint(1, nmax)
    out = []
    for _ in range(n):
        kin, kk = rnd.choice(PAR_CHOICES)
        out.append({"d": rnd.randint(1, 6), "p": {"kin": kin, "kk": kk}})
    return out


def random_op(rnd: random.Random, now: int, weights: dict | None = None) -> dict:
    """An operation in the flat (base 0) form used by recorded traces; times as 1000 * ticks + epsilons."""
    w = weights or DEFAULT_WEIGHTS
    kinds = [k for k, v in w.items() for _ in range(v)]
    k = rnd.choice(kinds)
    if k == "sim":
        if rnd.random() < 0.12:
            return {"k": "sim", "te": now + 1, "n": 1}          # to just after the time reached
        n = rnd.choice([1, 1, 2, 3, 4])
        d = n * rnd.randint(1, 3) if rnd.random() < 0.75 else -n * rnd.randint(0, 2)
        return {"k": "sim", "te": now + 1000 * d, "n": n}
    if k == "tc":
        lo = rnd.randint(-3, 2)
        offs = sorted(rnd.sample(range(lo, lo + 9), rnd.randint(1, 5)))
        if rnd.random() < 0.15:
            offs = [q - 6 for q in offs]
        pts = [now + 1000 * q for q in offs]
        if rnd.random() < 0.3:
            pts = sorted(set(pts + [now + 1]))                   # a point just after the time reached
        return {"k": "tc", "pts": pts}
    if k == "proto":
        n = rnd.choice([1, 2])
        steps = random_steps(rnd)
        for s in steps:
            s["d"] *= n
        return {"k": "proto", "steps": steps, "n": n}
    if k == "ptc":
        steps = random_steps(rnd)
        total = sum(s["d"] for s in steps)
        cand = [1000 * q for q in range(-2, total + 4)]
        pts = rnd.sample(cand, rnd.randint(1, min(6, len(cand))))
        if rnd.random() < 0.4:                                   # points just after the start / a step boundary
            cum, bounds = 0, [0]
            for s in steps:
                cum += s["d"]
                bounds.append(cum)
            pts += [1000 * b + 1 for b in rnd.sample(bounds, rnd.randint(1, len(bounds)))]
        pts = sorted(set(pts))
        if rnd.random() < 0.1:
            pts = [q for q in pts if q <= 0] or [0]
        rel = rnd.random() < 0.5
        return {"k": "ptc", "steps": steps, "pts": pts if rel else [now + q for q in pts], "rel": rel}
    if k == "upd":
        name = rnd.choice(["k", "kin"])
        return {"k": "upd", "name": name,
                "v": rnd.choice([4, 16, 32, 64, 128] if name == "k" else [0, 0, 32, 64, 128, 192])}
    if k == "scale":
        return rnd.choice([{"k": "scale", "name": "kin", "f": 0}, {"k": "scale", "name": "kin", "f": 2},
                           {"k": "scale", "name": "k", "f": 2}])
    if k == "ov":
        return {"k": "ov", "v": rnd.randint(0, 12)}
    return {"k": k}


def flat_to_spec_op(op: dict) -> dict:
    """Trace-form operation (times as 1000 * ticks + epsilons, base 0) -> the form Run.apply understands."""
    def tm(v):
        return {"b": 0, "o": v // 1000, "e": v % 1000}

    k = op["k"]
    if k == "sim":
        return {"k": "sim", "te": tm(op["te"]), "n": op["n"]}
    if k == "tc":
        return {"k": "tc", "pts": [tm(q) for q in op["pts"]]}
    if k == "ptc":
        if op["rel"]:
            return {"k": "ptc", "steps": op["steps"], "rpts": op["pts"], "pts": [], "rel": True}
        return {"k": "ptc", "steps": op["steps"], "pts": [tm(q) for q in op["pts"]], "rpts": [], "rel": False}
    if k == "ss":
        return {"k": "ss", "tau": tm(0)}
    return op


def record_trace(seed, length: int, weights: dict | None = None, ops: list | None = None,
                 rendering: str | None = None) -> dict:
    """Run a random call sequence (or the given one) on the real Simulator and log what it did (no
    specification involved).  About a third of the random sequences run at large absolute times (no steady-state
    runs there: the length of the search depends on the time scale)."""
    rnd = random.Random(seed)
    if rendering is None:
        rendering = "large" if rnd.random() < 0.35 else "small"
    r = RENDERINGS[rendering]
    weights = dict(weights or DEFAULT_WEIGHTS)
    if r is LARGE:
        weights["ss"] = 0
    ramp = r is LARGE      # no steady-state runs there: the time-dependent member of the family
    jac, mirror, derived = rnd.random() < 0.5, rnd.random() < 0.5, rnd.random() < 0.5
    run = Run(r, salt=rnd.randrange(1 << 16), ramp=ramp, use_jacobian=jac, mirror=mirror, derived=derived)
    ev = []
    offgrid = None
    values = []
    last_rel = None
    for step in range(length if ops is None else len(ops)):
        obs = run.observe()
        now = 0
        if obs:
            now = to_ticks(obs[-1]["t"][-1], r)
            if now is None:
                offgrid = "time reached is not on the grid"
                break
        op = random_op(rnd, now, weights) if ops is None else {k: v for k, v in ops[step].items() if k != "tau"}
        if ops is None and last_rel is not None and rnd.random() < 0.35:
            op = dict(last_rel)      # the same relative protocol call once more: the caller reuses its grid array
        last_rel = op if (op["k"] == "ptc" and op["rel"]) else last_rel
        if op["k"] == "sim" and op["n"] > 1 and op["te"] > now and ((op["te"] - now) % 1000 or ((op["te"] - now) // 1000) % op["n"]):
            if ops is None:  # pragma: no cover
                raise AssertionError("driver produced an off-grid linspace")
            break   # replaying calls recorded on another tree: this linspace is off the tick grid here, stop before it
        got = run.apply(flat_to_spec_op(op))
        obs = run.observe()
        segs = []
        for o in obs or []:
            tt = [to_ticks(v, r) for v in o["t"]]
            kin, kk = to_units(o["p"].get("kin", float("nan")), r), to_units(o["p"].get("k", float("nan")), r)
            if any(v is None for v in tt) or kin is None or kk is None:
                offgrid = f"observation off the grid: {o['t']} {o['p']}"
                break
            segs.append({"times": tt, "kin": kin, "kk": kk})
        views = []
        if run.touched and not offgrid:
            vw = run.views()
            if vw is not None:
                idx = [to_ticks(v, r) for v in vw["variables"]["t"]]
                same = all(vw[n]["t"] == vw["variables"]["t"] for n in ("fluxes", "args"))
                if any(v is None for v in idx) or not same:
                    offgrid = f"views off the grid or with different indexes: {vw['variables']['t']} {vw['fluxes']['t']}"
                views = idx
        if offgrid:
            ev.append({"op": op, "raised": got["raised"], "segs": [], "err": obs is None, "vread": False, "views": []})
            break
        if op["k"] == "ss":
            op = {**op, "tau": segs[-1]["times"][-1] if (segs and not got["raised"]) else 0}
        ev.append({"op": op, "raised": got["raised"], "segs": segs, "err": obs is None, "vread": run.touched,
                   "views": views})
        values = [o["x"] for o in obs or []]
    return {"seed": str(seed), "ev": ev, "offgrid": offgrid, "values": values, "rendering": rendering, "ramp": ramp,
            "use_jacobian": jac, "mirror": mirror}
