"""C09 -- scans equal independent runs, row-aligned, under any scheduling.

spec      : spec/ParMap.tla (explicit model objects, workers, Take/ApplyRow/Run/Finish/Collect/lazy Evaluate, one
            failing row; durations + clock for realisable completion orders), spec/ParMapTrace.tla (code -> spec)
TLC (mc)  : every interleaving for <= 3 workers, <= 4 rows, rows more or fewer than workers, sequential and
            parallel, three model variants: every evaluated row equals a fresh copy with exactly that row applied,
            results aligned with the input, the failing row (and only it) is a NaN placeholder, never more rows in
            progress than workers; the implementation-shaped sequential mode (one shared model, results keep a
            reference, lazy fluxes) must VIOLATE RowIndependent
spec->code: TLC (-simulate, seeded) emits configurations: kind x columns (k, k_in, initial x and, for the variant with an
            assignment-defined parameter q, the column q itself) x rows x failing row and failure mode x
            model variant x mode x workers {1,2,3,16} x durations, with the completion order the workers produce
            and the expected value table of every row; each is run through the real scan.* / mc.* with a logging,
            delaying worker passed through the public worker= argument; per row, .variables and .fluxes are
            compared with an independent Simulator run on a fresh copy with that row applied and with the closed
            form of x' = kineff - k*x; labels/order with the input; the failing row with a NaN frame of the shape
            of a successful row
code->spec: the worker log (pid, row, start, end), the returned order and the per-row flux parameters recovered
            from the reported fluxes are validated by TLC against ParMapTrace in batches
"""

from __future__ import annotations

import json
import math
import os

os.environ.setdefault("TQDM_DISABLE", "1")
from pathlib import Path

from .. import crashkit, scankit as sk
from ..core import Ctx, Report, alarm
from ..tlc import MachineryError

STEADY = ("steady_state", "mc.steady_state", "mc.scan_steady_state")
# kinds whose result container is keyed by the row label (a dict)
DICT_KINDS = ("time_course", "protocol", "protocol_time_course", "mc.time_course", "mc.scan_steady_state")
EVAL_KINDS = ("steady_state", "time_course", "mc.steady_state", "mc.time_course")   # flux parameters recoverable


def close(a: float, b: float, rel: float = 1e-6, ab: float = 1e-9) -> bool:
    if math.isnan(a) or math.isnan(b):
        return math.isnan(a) and math.isnan(b)
    return abs(a - b) <= ab + rel * max(abs(a), abs(b))


def frames_equal(obs: dict, exp: dict) -> str | None:
    if obs["cols"] != exp["cols"]:
        return f"columns {obs['cols']} != {exp['cols']}"
    if len(obs["index"]) != len(exp["index"]):
        return f"{len(obs['index'])} rows, expected {len(exp['index'])}"
    for a, b in zip(obs["index"], exp["index"]):
        if not close(a, b, 1e-9, 1e-9):
            return f"time axis {obs['index']} != {exp['index']}"
    for r, (ra, rb) in enumerate(zip(obs["data"], exp["data"])):
        for c, (x, y) in enumerate(zip(ra, rb)):
            if not close(x, y):
                return f"value [{r}][{obs['cols'][c]}] = {x}, expected {y}"
    return None


def _as_int(v: float) -> int:
    return int(round(v)) if math.isfinite(v) and abs(v - round(v)) < 1e-6 else -1


def observed_eval(obs_v: dict, obs_f: dict, xname: str = "x") -> dict:
    """What the reported tables say about a row, in the specification's terms: a NaN placeholder, or the plain
    parameter k and the effective inflow recovered from the fluxes at the first reported point."""
    if all(math.isnan(x) for r in obs_v["data"] for x in r):
        return {"t": "nan"}
    try:
        x = obs_v["data"][0][obs_v["cols"].index(xname)]
        k_obs = obs_f["data"][0][obs_f["cols"].index("v_out")] / x
        ke_obs = obs_f["data"][0][obs_f["cols"].index("v_in")]
    except (ValueError, ZeroDivisionError, IndexError):
        return {"t": "val", "k": -1, "kineff": -1}
    return {"t": "val", "k": _as_int(k_obs), "kineff": _as_int(ke_obs)}


def spec_crosscheck(sc: dict) -> None:
    """The renderer's numbers must be the specification's: Expected(i) of ParMap.tla vs scankit's row values."""
    cfg = sc["cfg"]
    real_labels, spec_labels = sk.labels_of(sc), sc["labels"]
    for a in range(cfg["n"]):
        for b in range(cfg["n"]):
            if (real_labels[a] == real_labels[b]) != (spec_labels[a] == spec_labels[b]):
                raise MachineryError(f"spec/renderer cross-check: rows {a + 1}, {b + 1} share a label in one of them only: {sc}")
    for i in range(1, cfg["n"] + 1):
        e = sc["expect"][i - 1]
        if (e["t"] == "nan") != (i == cfg["fail"]):
            raise MachineryError(f"spec/renderer cross-check: placeholder position {sc}")
        if e["t"] == "nan":
            continue
        vals = {**sk.ORIGINAL, **(sk.y0_of(sc) or {}), **{sk.COLMAP[c]: float(sc["vals"][i - 1][c]) for c in cfg["cols"]}}
        ke = sk.kineff(cfg["variant"], vals["k_in"], vals["x"], vals.get("q"))
        if (e["traj"]["x0"], e["traj"]["k"], e["traj"]["kineff"], e["fl"]["k"], e["fl"]["kineff"]) != \
                (vals["x"], vals["k"], ke, vals["k"], ke):
            raise MachineryError(f"spec/renderer cross-check failed for row {i}: {e} vs {vals}")


def _row_frames(kind: str, res, sc: dict) -> tuple[list, list, list]:
    """Per input row: observed label, variables frame, fluxes frame (frames as dicts; inner rows for the nested kind)."""
    n = sc["cfg"]["n"]
    v, f = res.variables, res.fluxes
    labels, vs, fs = [], [], []
    if kind in ("steady_state", "mc.steady_state"):
        idx = list(v.index)
        for i in range(n):
            labels.append(list(idx[i]) if isinstance(idx[i], tuple) else [idx[i]])
            vs.append(sk._frame(v.iloc[i:i + 1].set_axis([math.inf])))
            fs.append(sk._frame(f.iloc[i:i + 1].set_axis([math.inf])))
        return labels, vs, fs
    # rows are blocks of consecutive entries under one outer label (labels may repeat, never on adjacent rows)
    lv = list(v.index.get_level_values(0))
    starts = [j for j in range(len(lv)) if j == 0 or lv[j] != lv[j - 1]]
    lf = list(f.index.get_level_values(0))
    fstarts = [j for j in range(len(lf)) if j == 0 or lf[j] != lf[j - 1]]
    for b, a in enumerate(starts):
        z = starts[b + 1] if b + 1 < len(starts) else len(lv)
        labels.append([lv[a]])
        vs.append(sk._frame(v.iloc[a:z].droplevel(0)))
    for b, a in enumerate(fstarts):
        z = fstarts[b + 1] if b + 1 < len(fstarts) else len(lf)
        fs.append(sk._frame(f.iloc[a:z].droplevel(0)))
    if len(fs) != len(vs):
        fs = fs[:len(vs)] + [fs[-1]] * max(0, len(vs) - len(fs))
    return labels, vs, fs


def run_case(sc: dict) -> dict:
    try:
        return _run_case(sc)
    except MachineryError as e:
        return {"status": "machinery", "detail": str(e)[:500], "trace": None, "discard": None, "more": []}
    except Exception as e:  # noqa: BLE001  (e.g. the independent Simulator run itself breaks on this tree)
        import traceback

        return {"status": "machinery", "detail": f"{type(e).__name__}: {e}\n{traceback.format_exc()[-800:]}",
                "trace": None, "discard": None, "more": []}


def _run_case(sc: dict) -> dict:
    """Run one configuration through the real code; judge every row; build the trace for TLC."""
    import numpy as np  # noqa: F401

    cfg = sc["cfg"]
    kind, n = cfg["kind"], cfg["n"]
    log = sc["log"]
    Path(log).parent.mkdir(parents=True, exist_ok=True)
    if os.path.exists(log):
        os.remove(log)
    if sc.get("quiet", True):       # progress bars of the library go to a file, not to the check's stderr
        fd = os.open(str(Path(log).parent / "stderr.txt"), os.O_WRONLY | os.O_CREAT | os.O_APPEND, 0o644)
        os.dup2(fd, 2)
        os.close(fd)
    out: dict = {"status": "ok", "detail": None, "trace": None, "discard": None, "more": []}
    try:
        with alarm(120):
            res, model = sk.run_scan(sc, log)
            # lazy results are read in the specification's evaluation order first
            raw = getattr(res, "raw_results", None)
            if raw is not None:
                items = list(raw.values()) if isinstance(raw, dict) else list(raw)
                for i in sc["eorder"]:
                    if i - 1 < len(items):
                        _ = items[i - 1].fluxes
            labels, vs, fs = _row_frames(kind, res, sc)
    except TimeoutError:
        out.update(status="timeout")
        return out
    except Exception as e:  # noqa: BLE001
        out.update(status="mismatch", detail={"what": "scan raised", "exc": type(e).__name__, "msg": str(e)[:200]})
        return out

    # ---- schedule actually realised (a run whose completion order is not the intended one is discarded) ------
    evs = [json.loads(ln) for ln in open(log)] if os.path.exists(log) else []
    starts = [e for e in evs if e["e"] == "start"]
    ends = {e["i"]: e["t"] for e in evs if e["e"] == "end"}
    mis: list[dict] = []
    logged_ok = sorted(e["i"] for e in starts) == list(range(1, n + 1)) and sorted(ends) == list(range(1, n + 1))
    if not logged_ok:
        # row 0 = a worker call whose model carries the values of no input row; the rows are still judged below,
        # only the schedule cannot be validated
        mis.append({"what": "worker calls do not correspond one-to-one to the input rows (0 = model carries no row's values)",
                    "started": [e["i"] for e in starts], "finished": sorted(ends)})
    if cfg["mode"] == "par" and logged_ok:
        for i in range(1, n + 1):
            for j in range(1, n + 1):
                if sc["ftick"][i - 1] < sc["ftick"][j - 1] and not ends[i] < ends[j]:
                    out["discard"] = f"completion order not realised: row {i} (tick {sc['ftick'][i-1]}) ended after row {j}"
    pids: dict[int, int] = {}
    tr = []
    for e in sorted(evs, key=lambda e: e["t"]):
        w = pids.setdefault(e["pid"], len(pids) + 1)
        tr.append({"e": e["e"], "i": e["i"], "w": w, "order": [], "t": "", "k": 0, "kineff": 0})
    out["pids"] = len(pids)

    # ---- alignment -----------------------------------------------------------------------------------------
    tab = sk.table(sc)
    if kind in ("steady_state", "mc.steady_state"):
        exp_labels = [[float(x) for x in tab.iloc[i]] for i in range(n)]
        got = [[float(x) for x in lab] for lab in labels]
    else:
        exp_labels = [[lab] for lab in sk.labels_of(sc)]
        got = [[x.item() if hasattr(x, "item") else x for x in lab] for lab in labels]
    if got != exp_labels:
        out.update(status="mismatch", detail={"what": "row labels / order differ from the input", "got": got, "expected": exp_labels,
                                              "rows_reported": len(got), "rows_expected": len(exp_labels)})
        return out
    tr.append({"e": "collect", "i": 0, "w": 0, "order": list(range(1, n + 1)), "t": "", "k": 0, "kineff": 0})

    # ---- every row against an independent run and the closed form --------------------------------------------
    ref = sk.independent(sc, 0, inner=None)          # shape of a successful row
    if ref["failed"]:
        raise MachineryError(f"reference run of the unmodified model failed: {ref}")
    inners = sk.INNER if kind == "mc.scan_steady_state" else [None]
    xname = sk.real(sc, "x")
    evals = {i: observed_eval(vs[i - 1], fs[i - 1], xname) for i in range(1, n + 1)} if kind in EVAL_KINDS else {}
    for i in range(1, n + 1):
        obs_v, obs_f = vs[i - 1], fs[i - 1]
        row_bad = False
        exp_rows_v, exp_rows_f, failed = [], [], False
        for inner in inners:
            ind = sk.independent(sc, i, inner=inner)
            if ind["failed"]:
                failed = True
                break
            exp_rows_v.append(ind["v"])
            exp_rows_f.append(ind["f"])
        if cfg["failmode"] == "latestep" and i == cfg["fail"]:
            failed = True       # decided by the specification: the independent run goes through the same get_result
        if failed != (i == cfg["fail"]):
            raise MachineryError(f"row {i}: independent run failed={failed} but the specification says fail={cfg['fail']}: {sc}")
        if failed:
            shape_v = (len(ref["v"]["index"]) * len(inners), ref["v"]["cols"])
            shape_f = (len(ref["f"]["index"]) * len(inners), ref["f"]["cols"])
            for name, obs, (rows, cols) in (("variables", obs_v, shape_v), ("fluxes", obs_f, shape_f)):
                bad, extra = None, {}
                if obs["cols"] != cols:
                    bad = f"columns {obs['cols']}, expected {cols}"
                elif len(obs["index"]) != rows:
                    bad = f"{len(obs['index'])} rows, a successful row has {rows}"
                elif not all(math.isnan(x) for r in obs["data"] for x in r):
                    bad = "placeholder is not all NaN"
                    extra = {"non_nan_cols": sorted({obs["cols"][c] for r in obs["data"] for c, x in enumerate(r) if not math.isnan(x)})}
                if bad:
                    mis.append({"what": "failing row", "row": i, "table": name, "why": bad,
                                "observed_rows": len(obs["index"]), "expected_rows": rows, **extra})
            continue
        exp_v = {"index": [t for fr in exp_rows_v for t in fr["index"]], "cols": exp_rows_v[0]["cols"],
                 "data": [r for fr in exp_rows_v for r in fr["data"]]}
        exp_f = {"index": [t for fr in exp_rows_f for t in fr["index"]], "cols": exp_rows_f[0]["cols"],
                 "data": [r for fr in exp_rows_f for r in fr["data"]]}
        if kind == "mc.scan_steady_state":            # rows of the nested result are labelled by the inner values
            exp_v["index"] = exp_f["index"] = list(sk.INNER)
        for name, obs, exp in (("variables", obs_v, exp_v), ("fluxes", obs_f, exp_f)):
            bad = frames_equal(obs, exp)
            if bad:
                mis.append({"what": "row differs from an independent simulation of a fresh copy",
                            "row": i, "table": name, "why": bad, "observed": obs, "expected": exp})
                row_bad = True
        # closed form (second, code-independent oracle)
        for j, inner in enumerate(inners):
            times = [math.inf] if kind in STEADY else exp_rows_v[j]["index"]
            cf = sk.closed_form(sc, i, times, inner=inner)
            lo = j * len(times)
            xcol, vo, vi = obs_v["cols"].index(xname), obs_f["cols"].index("v_out"), obs_f["cols"].index("v_in")
            bounds = {0.0} | {sum(d for d, _ in sk.PROTOCOL[:s + 1]) for s in range(len(sk.PROTOCOL))}
            for r, t in enumerate(times):
                ox, ovo, ovi = obs_v["data"][lo + r][xcol], obs_f["data"][lo + r][vo], obs_f["data"][lo + r][vi]
                tol = 1e-5 if kind in STEADY else 1e-6
                if not close(ox, cf["x"][r], tol, 1e-8) or not close(ovo, cf["v_out"][r], tol, 1e-8) or \
                        (not (kind.startswith("protocol") and t in bounds) and not close(ovi, cf["v_in"][r], tol, 1e-8)):
                    if not row_bad:
                        mis.append({"what": "row differs from the closed form", "row": i, "time": t, "inner": inner,
                                    "observed": {"x": ox, "v_out": ovo, "v_in": ovi},
                                    "expected": {"x": cf["x"][r], "v_out": cf["v_out"][r], "v_in": cf["v_in"][r]}})
                    row_bad = True
    if kind in EVAL_KINDS:
        for i in sc["eorder"]:
            tr.append({"e": "eval", "i": i, "w": 0, "order": [], **{"t": "", "k": 0, "kineff": 0, **evals[i]}})
        tr.append({"e": "fin", "i": 0, "w": 0, "order": [], "t": "", "k": 0, "kineff": 0})
    out["trace"] = tr if logged_ok else None
    if mis:
        out.update(status="mismatch", detail=mis[0], more=mis[1:])
    return out


def classify(sc: dict, detail: dict) -> str | None:
    """Finding key from the shape of the failing configuration (DESIGN appendix D)."""
    cfg = sc["cfg"]
    what = detail.get("what", "")
    if what == "scan raised" and detail.get("exc") == "ZeroDivisionError" and cfg["fail"] > 0 and cfg["failmode"] == "raise":
        return "placeholder-reevaluates"
    if what == "failing row" and cfg["kind"] == "protocol" and detail.get("observed_rows") == detail.get("expected_rows", 0) - 1:
        return "protocol-placeholder-rows"
    if what == "failing row" and cfg["kind"] == "protocol_time_course" and \
            detail.get("observed_rows") == len(sk.PTC_POINTS) < detail.get("expected_rows", 0):
        return "protocol-time-course-placeholder-rows"    # only the requested points, not the protocol's own
    if what == "failing row" and detail.get("table") == "fluxes" and detail.get("non_nan_cols") == ["v_in"]:
        return "placeholder-constant-flux"                # the only rate that does not depend on a variable
    if what.startswith("row labels") and cfg.get("labels") == "repeated" and cfg["kind"] in DICT_KINDS and cfg["n"] >= 3 \
            and detail.get("got") == [list(x) for x in dict.fromkeys(tuple(e) for e in detail.get("expected", []))]:
        return "repeated-labels-collapse"        # one entry per distinct label came back (container keyed by label)
    if what.startswith("row differs") or detail.get("tlc") == "eval":
        if cfg["mode"] == "seq" and "x" in cfg["cols"] and "q" not in cfg["cols"] and cfg["variant"] == "ia" \
                and detail.get("row") != cfg["fail"]:
            return "sequential-initial-value-dependence"
    return None


def case_key(sc: dict) -> str:
    return json.dumps([sc["cfg"], sc["dur"], sc["forder"], sc["eorder"]], sort_keys=True)


def nontrivial(sc: dict) -> bool:
    return sc["cfg"]["n"] >= 2


def validate_traces(ctx: Ctx, rep: Report, items: list[dict], tag: str) -> dict:
    verdict = {t["id"]: False for t in items}
    prefix: dict[str, int] = {}
    for verbose in (False, True):
        todo = [t for t in items if not (verbose and verdict[t["id"]])]
        if not todo:
            break
        jobs, whats = [], []
        for lo in range(0, len(todo), 120):
            batch = todo[lo:lo + 120]
            f = ctx.work / f"traces_{tag}_{lo}_{int(verbose)}.json"
            f.write_text(json.dumps(batch))
            jobs.append(("ParMapTrace.tla", "ParMapTrace_verbose.cfg" if verbose else "ParMapTrace.cfg",
                         {"tag": f"trace_{tag}_{lo}_{int(verbose)}", "workers": 2, "env": {"TRACE_FILE": str(f)}}))
            whats.append(f"trace validation ({tag}): {len(batch)} recorded scans" + (" (prefix search)" if verbose else ""))
        from .c19 import _tlc_many

        for lo in range(0, len(jobs), 8):
            for res, what in zip(_tlc_many(ctx, jobs[lo:lo + 8]), whats[lo:lo + 8]):
                rep.add_tlc(res, what)
                for p in res.payloads:
                    if p["acc"]:
                        verdict[p["id"]] = True
                    else:
                        prefix[p["id"]] = max(prefix.get(p["id"], 0), p["l"] - 1)
    return {"verdict": verdict, "prefix": prefix}


def corruptions(t: dict) -> dict[str, dict]:
    out = {}
    ev = t["ev"]
    idx = {name: [j for j, e in enumerate(ev) if e["e"] == name] for name in ("start", "end", "collect", "eval")}
    if t["cfg"]["n"] >= 2 and idx["collect"]:
        c = json.loads(json.dumps(t))
        o = c["ev"][idx["collect"][0]]["order"]
        o[0], o[1] = o[1], o[0]
        out["returned-order-swapped"] = c
    vals = [j for j in idx["eval"] if ev[j]["t"] == "val"]
    if vals:
        c = json.loads(json.dumps(t))
        c["ev"][vals[0]]["kineff"] += 2
        out["flux-parameter-of-another-row"] = c
        c = json.loads(json.dumps(t))
        c["ev"][vals[0]]["t"] = "nan"
        out["placeholder-at-wrong-position"] = c
    if idx["start"]:
        c = json.loads(json.dumps(t))
        c["ev"].insert(idx["start"][0] + 1, dict(ev[idx["start"][0]]))
        out["row-started-twice"] = c
        c = json.loads(json.dumps(t))
        del c["ev"][idx["end"][-1]]
        out["row-never-finished"] = c
    for name, c in out.items():
        c["id"] = f"corrupt/{name}"
    return out


def generate(ctx: Ctx, rep: Report) -> list[dict]:
    from .c19 import _tlc_many

    jobs = [("ParMap.tla", "ParMap_shared.cfg", {"expect_violation": True, "workers": 2}),
            ("ParMap.tla", "ParMap_mc.cfg", {"workers": 6, "coverage": False})]
    if not ctx.quick:
        jobs.append(("ParMap.tla", "ParMap_mc4.cfg", {"workers": 6}))
    num = 28 if ctx.quick else 300          # per TLC worker (8 workers)
    jobs.append(("ParMap.tla", "ParMap_gen.cfg", {"simulate": f"num={num}", "depth": 90, "seed": ctx.seed % 100000, "workers": 8,
                                                   "coverage": True}))
    jobs.append(("ParMap.tla", "ParMap_gen_y0.cfg", {"simulate": f"num={8 if ctx.quick else 60}", "depth": 90,
                                                      "seed": ctx.seed % 100000 + 1, "workers": 8}))
    jobs.append(("ParMap.tla", "ParMap_y0again.cfg", {"expect_violation": True, "workers": 2}))
    jobs.append(("ParMap.tla", "ParMap_bylabel.cfg", {"expect_violation": True, "workers": 2}))
    res = _tlc_many(ctx, jobs)
    bylabel = res.pop()
    if bylabel.violated != "RowIndependent":
        raise MachineryError("the wrong instance 'results looked up by label' with repeated row labels should violate "
                             f"RowIndependent; TLC said {bylabel.violated!r}")
    rep.notes["keyed_by_label_counterexample"] = ("TLC: RowIndependent violated for KeyedByLabel=TRUE, rows 1 and 3 under one "
                                                  "label: row 1 reports row 3's values")
    y0again, gen_y0 = res.pop(), res.pop()
    if y0again.violated != "RowIndependent":
        raise MachineryError("the wrong instance 'y0 applied again after the row' should violate RowIndependent; "
                             f"TLC said {y0again.violated!r}")
    rep.notes["y0_after_row_counterexample"] = ("TLC: RowIndependent violated for Y0Again=TRUE: y0 replaces the row's "
                                                "initial value, the assignment-defined parameter follows y0")
    if res[0].violated != "RowIndependent":
        raise MachineryError("the implementation-shaped sequential mode (shared model, lazy fluxes) should violate "
                             f"RowIndependent; TLC said {res[0].violated!r}: the specification has lost its teeth")
    rep.notes["shared_model_design_counterexample"] = (
        "TLC: RowIndependent violated for SharedInSeq=TRUE (2 rows over the initial value, parameter defined by an "
        "initial assignment): the first row's fluxes are evaluated with the last row's initial value")
    rep.add_tlc(res[1], "every interleaving, <= 3 rows, <= 3 workers, seq+par, 3 variants, 3 column sets, every failing-row "
                        "position: RowIndependent, Aligned, FailedIsNaN, Bounded, CallerUntouched, no deadlock")
    if not ctx.quick:
        rep.add_tlc(res[2], "every interleaving, 4 rows, <= 3 workers (same invariants)")
    gen = res[-1]
    rep.add_tlc(gen, "configuration + schedule generator (-simulate, seeded): emitted scans with expected value tables")
    rep.require_coverage(gen, ["Setup", "Start", "Tick", "Collect", "Finished"])  # Take..Evaluate sit under a quantifier of Next: witnessed by the emitted schedules
    rep.add_tlc(gen_y0, "focused generator (-simulate): y0= given, assignment-defined parameter, initial-value column "
                        "present or absent, every kind")
    seen, scs = set(), []
    for p in sorted(gen.payloads + gen_y0.payloads, key=lambda p: json.dumps(p, sort_keys=True)):
        key = case_key(p)
        if key in seen:
            continue
        seen.add(key)
        scs.append(p)
    if len(scs) < (100 if ctx.quick else 800):
        raise MachineryError(f"only {len(scs)} configurations emitted")
    return scs


def run(ctx: Ctx) -> int:
    rep = Report(ctx)
    rep.rule = ("one case = (scan kind, columns, rows, failing row + failure mode, model variant, mode, workers, durations "
                "=> completion order, evaluation order); non-trivial = at least two rows; distinct by that tuple")
    rep.assumptions = [
        "model family x' = kineff/g - k*x (plain / parameter by initial assignment over x(0) / derived parameter)",
        "failure modes: rate law raises ZeroDivisionError at the row's values; the integrator reports failure "
        "(injected through the public integrator= argument); no steady state (k = 0)",
        "real OS schedules are not enumerated: completion orders are forced by per-row delays (discarded when the log "
        "shows another order); TLC covers all interleavings of the model only",
    ]
    import mxlpy.mc  # noqa: F401  (before forking)
    import mxlpy.scan  # noqa: F401

    scs = generate(ctx, rep)
    for n, sc in enumerate(scs):
        spec_crosscheck(sc)
        sc["id"] = f"c{n}"
        sc["log"] = str(ctx.work / "logs" / f"c{n}.jsonl")
    results = crashkit.lanes(run_case, scs, ctx.work, n=8, tag="scan")
    traces, discarded, timeouts, inlane = [], 0, 0, []
    for sc, r in zip(scs, results):
        rep.evaluations += 1
        if r["status"] == "machinery":
            inlane.append(r["detail"])
            continue
        scen = {k: sc[k] for k in ("cfg", "dur", "forder", "ftick", "eorder", "vals", "expect", "labels")}
        if r["status"] == "timeout":
            timeouts += 1
            continue
        if r["discard"]:
            discarded += 1
            continue
        rep.replayed += 1
        if nontrivial(sc):
            rep.distinct.add(case_key(sc))
        if r["status"] == "mismatch":
            for det in [r["detail"]] + r.get("more", []):
                rep.mismatch(scen, det, classify(sc, det))
        if r["trace"] is not None:
            if r["pids"] > sc["cfg"]["w"]:
                rep.mismatch(scen, {"what": "more worker processes than workers", "pids": r["pids"]}, None)
            else:
                traces.append({"id": sc["id"], "cfg": sc["cfg"], "ev": r["trace"]})
    for sc in scs[:: max(1, len(scs) // 4)][:4]:
        rep.sample({k: sc[k] for k in ("cfg", "dur", "forder", "eorder", "expect")})
    rep.notes.update({"configurations": len(scs), "discarded_completion_order_not_realised": discarded, "timeouts": timeouts})
    machinery = None
    if timeouts:
        machinery = f"{timeouts} scans did not return within 120 s"
    elif discarded > 0.15 * len(scs):
        machinery = f"{discarded} of {len(scs)} scans did not realise the intended completion order"
    elif inlane:
        machinery = f"{len(inlane)} cases could not be judged: {inlane[0]}"

    # ---- code -> spec ---------------------------------------------------------------------------------------
    donor = max((t for t in traces if t["cfg"]["n"] >= 3 and any(e["e"] == "eval" and e["t"] == "val" for e in t["ev"])),
                key=lambda t: len(t["ev"]), default=None)
    corrupt = corruptions(donor) if donor else {}
    tv = validate_traces(ctx, rep, traces + list(corrupt.values()), "all")
    by_id = {sc["id"]: sc for sc in scs}
    for t in traces:
        if tv["verdict"][t["id"]]:
            rep.traces += 1
            continue
        sc = by_id[t["id"]]
        pre = tv["prefix"].get(t["id"], 0)
        ev = t["ev"][pre] if pre < len(t["ev"]) else None
        det = {"what": "recorded scan is not a behaviour of the specification", "tlc": (ev or {}).get("e", "?"),
               "row": (ev or {}).get("i"), "matched_prefix": pre, "first_unmatched_event": ev, "trace": t["ev"]}
        rep.mismatch({k: sc[k] for k in ("cfg", "dur", "forder", "ftick", "eorder", "vals", "expect", "labels")}, det, classify(sc, det))
    if donor and tv["verdict"][donor["id"]]:
        wrongly = [c["id"] for c in corrupt.values() if tv["verdict"][c["id"]]]
        if wrongly or len(corrupt) < 5:
            raise MachineryError(f"binding self-test: corrupted copies of an accepted trace were accepted: {wrongly}")
        rep.notes["binding_selftest"] = {c["id"]: f"rejected after {tv['prefix'].get(c['id'], 0)} of {len(c['ev'])} events"
                                         for c in corrupt.values()}
    elif not rep.violations:
        raise MachineryError("binding self-test: no accepted trace to corrupt")
    else:
        rep.notes["binding_selftest"] = "skipped: no accepted trace on this tree (see the violations)"
    if machinery and not rep.violations:
        raise MachineryError(machinery)
    if machinery:
        rep.notes["machinery_note"] = machinery + " (next to the violations reported)"
    return rep.finish()


def replay(ctx: Ctx, doc: dict) -> int:
    import mxlpy.mc  # noqa: F401
    import mxlpy.scan  # noqa: F401

    sc = dict(doc["scenario"])
    sc["id"] = "replay"
    sc["log"] = str(ctx.work / "replay.jsonl")
    sc["quiet"] = False
    r = run_case(sc)
    print(json.dumps({k: r[k] for k in ("status", "detail", "discard")}, indent=1, default=str)[:4000])
    if r["status"] == "timeout" or r["discard"]:
        print("not judged (timeout / completion order not realised)")
        return 2
    from ..core import load_findings

    known = {f["key"] for f in load_findings() if f["property"] == "C09" and f["status"] == "known"}
    bad = False
    for det in ([r["detail"]] + r.get("more", [])) if r["status"] == "mismatch" else []:
        key = classify(sc, det)
        if key in known:
            print(f"KNOWN-FINDING: property=C09 {key} (row {det.get('row')}, {det.get('table')})")
        else:
            print(f"mismatch key={key}: " + json.dumps({k: v for k, v in det.items() if k not in ("observed", "expected", "trace")}))
            bad = True
    if not bad and r["status"] != "mismatch" and r["trace"] is not None:
        rep = Report(ctx)
        tv = validate_traces(ctx, rep, [{"id": "replay", "cfg": sc["cfg"], "ev": r["trace"]}], "replay")
        bad = not tv["verdict"]["replay"]
        print(f"TLC accepts the recorded trace: {not bad}")
    if bad:
        print("VIOLATION property=C09 replay=(given)")
        return 1
    print("conforms")
    return 0
