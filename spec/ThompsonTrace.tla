---------------------------- MODULE ThompsonTrace ----------------------------
(***************************************************************************)
(* E03, code -> spec: executions of mxlpy.fuzzy.thompson_sampling recorded *)
(* with the library's own random generator (every sample() and update()    *)
(* call with its index vector, update() also with the tables afterwards)   *)
(* are validated, in batches, against the actions of Thompson.tla.  Whether*)
(* an outcome was a success is NOT logged: the specification's Accept must *)
(* explain the logged tables.                                              *)
(***************************************************************************)
EXTENDS Thompson, IOUtils

Traces == JsonDeserialize(IOEnv.TRACE_FILE)

VARIABLES tid, l
tvars == <<vars, tid, l>>

TInit == Init /\ tid \in 1..Len(Traces) /\ l = 1
Ev == Traces[tid].ev[l]
IdxOf(e) == [k \in P |-> e.idx[k]]
More == l <= Len(Traces[tid].ev)

TDraw == More /\ Ev.k = "draw" /\ Draw(IdxOf(Ev)) /\ l' = l + 1 /\ UNCHANGED tid
TApply == /\ More /\ Ev.k = "apply"
          /\ pending # <<>> /\ Head(pending) = IdxOf(Ev)
          /\ Apply
          /\ succ' = [k \in P |-> [i \in Bins |-> Ev.s[k][i]]]
          /\ fail' = [k \in P |-> [i \in Bins |-> Ev.f[k][i]]]
          /\ l' = l + 1 /\ UNCHANGED tid
TNext == TDraw \/ TApply

Accepted == ~More /\ Finished
Verdict == PrintT("@J@" \o ToJson([id |-> Traces[tid].id, l |-> l, accept |-> Accepted]) \o "@E@")
=============================================================================
