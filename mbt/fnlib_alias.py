"""Functions that share their ``__name__`` with a *different* function of mbt/fnlib.py (C11: "different
functions happen to share a name").  ALIAS maps the FnLib name whose meaning they implement to the function."""


def inc(a):  # meaning of FnLib "dbl"
    return 2 * a


def add(a, b):  # meaning of FnLib "sub"
    return a - b


ALIAS = {"dbl": inc, "sub": add}
