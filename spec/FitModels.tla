----------------------------- MODULE FitModels -----------------------------
(***************************************************************************)
(* C20, "each residual equals the chosen loss between the data and the     *)
(* model's prediction at the candidate values": identifiable linear models *)
(* with CLOSED-FORM, EXACTLY RATIONAL predictions, the data generated from *)
(* them, and Residual (Losses.tla) for every shipped loss, scaled and      *)
(* unscaled, in both argument orientations.  TLC emits one scenario per    *)
(* (shape, true values, candidate values, data options) with the expected  *)
(* residuals; the harness drives fit.steady_state / time_course /          *)
(* protocol_time_course with a one-evaluation minimiser (the public        *)
(* MinimizerProtocol) and compares.                                        *)
(*                                                                         *)
(* shape "ss":  chain 0 -k_in-> x1 -k1-> x2 -k2-> ... -> 0, mass action;   *)
(*              steady state x_i = k_in / k_i (rational parameters).       *)
(* shape "tc":  independent pools x_i' = a_i - k_i x_i with a_i = A_i ln2, *)
(*              k_i = j_i ln2 (j_i natural): x_i(t) = A_i/j_i +            *)
(*              (x0_i - A_i/j_i) 2^(-j_i t), rational at integer times.    *)
(* shape "ptc": one pool whose inflow A follows a protocol of integer      *)
(*              durations; the same closed form piecewise.                 *)
(* The unit ln 2 is applied by the harness; every number TLC handles is    *)
(* rational, so the expected residual is exact (up to sqrt / log leaves).  *)
(***************************************************************************)
EXTENDS LossesCore

CONSTANTS Shapes,      \* subset of {"ss", "ssc", "tc", "ptc"}
          MaxChain,    \* largest number of chain members (ss), >= 2
          MaxPools,    \* largest number of pools (tc), 1 or 2
          Rich,        \* TRUE: more sources of the initial values for two variables, more time grids / candidates
          EmitOn
VARIABLES sc, ph
fvars == <<sc, ph>>

Two(e) == R(1, 2 ^ e)                                   \* 2^(-e)
Pool(A, j, x0, t) == LET xs == RDiv(A, RInt(j)) IN RAdd(xs, RMul(RSub(x0, xs), Two(j * t)))

RECURSIVE PoolProt(_, _, _, _)
PoolProt(steps, j, x0, t) ==
    IF steps = <<>> \/ t <= 0 THEN x0
    ELSE LET s == Head(steps)
         IN  IF t <= s.dur THEN Pool(s.A, j, x0, t)
             ELSE PoolProt(Tail(steps), j, Pool(s.A, j, x0, s.dur), t - s.dur)

KS   == {1, 2, 4}                                           \* rate constants of the chain (fast relaxing: >= 1)
KIn  == RInt(2)
JT   == {1, 2}                                              \* true decay multiples of ln 2
JC   == {1, 2, 3}                                           \* candidate multiples
X0S  == {RInt(0), RInt(4)}
AS   == <<RInt(2), RInt(3)>>                                \* inflow multiples of ln 2, per pool
TimeSets == IF Rich THEN {<<1, 2, 3>>, <<0, 1, 2>>, <<1, 3>>} ELSE {<<1, 2, 3>>, <<0, 1, 2>>}
Prots == {<<[dur |-> 1, A |-> RInt(2)], [dur |-> 2, A |-> RInt(0)]>>,
          <<[dur |-> 2, A |-> RInt(0)], [dur |-> 1, A |-> RInt(4)]>>}
PTimes == IF Rich THEN {<<1, 2, 3>>, <<1, 3>>, <<2, 3>>, <<1, 2>>} ELSE {<<1, 2, 3>>, <<2, 3>>}
MaxExp == 6                                                 \* largest j * t (keeps every intermediate below 2^31)
SeqMax(s) == IF s = <<>> THEN 0 ELSE CHOOSE x \in {s[i] : i \in 1..Len(s)} : \A i \in 1..Len(s) : s[i] <= x
Small(s, ts) == SeqMax(s.jc) * SeqMax(ts) <= MaxExp /\ SeqMax(s.jt) * SeqMax(ts) <= MaxExp
Offs(n) == {[i \in 1..n |-> RZero], [i \in 1..n |-> IF i = 1 THEN R(1, 2) ELSE RZero]}

(***************************************************************************)
(* Where a variable's initial value comes from (one entry per variable):   *)
(*   "model"  the caller's model holds it,                                 *)
(*   "y0"     the model holds a decoy, y0= supplies it,                    *)
(*   "p0"     it is FITTED: p0 names the variable, the candidate value is  *)
(*            written with update_variable; the model holds a decoy,       *)
(*   "p0y0"   fitted AND mentioned in y0 (with yet another decoy).         *)
(* The clause "the prediction AT THE CANDIDATE VALUES": a fitted initial   *)
(* value takes precedence over y0, y0 over the model (EffInit).            *)
(***************************************************************************)
Srcs1 == {"model", "y0", "p0", "p0y0"}
Srcs2 == IF Rich THEN {<<"model", "model">>, <<"y0", "y0">>, <<"p0", "model">>, <<"p0", "y0">>, <<"p0y0", "y0">>,
                       <<"p0y0", "model">>, <<"model", "p0y0">>, <<"p0", "p0y0">>}
         ELSE {<<"model", "model">>, <<"p0", "y0">>, <<"p0y0", "y0">>, <<"p0y0", "model">>}
Decoy  == RInt(1)          \* what the caller's model holds when the value comes from elsewhere
Decoy2 == RInt(2)          \* what y0 says about a variable that is fitted as well
Fitted(s, i) == s.srcs[i] \in {"p0", "p0y0"}
InY0(s, i)   == s.srcs[i] \in {"y0", "p0y0"}
ModelInit(s, i) == IF s.srcs[i] = "model" THEN s.x0[i] ELSE Decoy
Y0Val(s, i)     == IF s.srcs[i] = "y0" THEN s.x0[i] ELSE Decoy2
\* the initial value the simulation behind a residual starts from, for candidate initial values c
EffInit(s, c, i) == IF Fitted(s, i) THEN c[i] ELSE IF InY0(s, i) THEN Y0Val(s, i) ELSE ModelInit(s, i)

\* fitk: the rate constants are among the fitted names.  FALSE: p0 holds ONLY INITIAL VALUES (variable names); the rate
\* constants stay what the model holds (the truth) and the residual must still follow the candidate's initial values.
Blank == [shape |-> "", n |-> 0, jt |-> <<>>, jc |-> <<>>, x0 |-> <<>>, x0c |-> <<>>, srcs |-> <<>>, fitk |-> TRUE,
          times |-> <<>>, prot |-> <<>>, off |-> <<>>]

HasInits(shape) == shape \in {"tc", "ptc", "ssc"}        \* shapes whose prediction depends on the initial values

Init == /\ ph = "shape"
        /\ \E s \in Shapes, n \in 1..MaxChain :
              /\ (s = "ss" => n >= 2) /\ (s = "ptc" => n = 1) /\ (s = "tc" => n <= MaxPools) /\ (s = "ssc" => n = 2)
              /\ sc = [Blank EXCEPT !.shape = s, !.n = n]

Rates(s) == CASE s = "ss" -> KS [] s = "ssc" -> {1, 2} [] OTHER -> JT
Cands(s, n) == CASE s = "ss" -> KS [] s = "ssc" -> {1, 4} [] OTHER -> IF n = 2 /\ ~Rich THEN {1, 3} ELSE JC
\* true initial values; candidate initial values of a fitted variable
Inits(s, i) == CASE s = "ss" -> {RZero}
                 [] s = "ssc" -> IF i = 1 THEN {RInt(1), RInt(3)} ELSE {RInt(1)}
                 [] OTHER -> IF i = 2 /\ ~Rich THEN {RInt(4)} ELSE X0S
CandInits(s) == IF s = "ssc" THEN {RInt(1), RInt(3)} ELSE X0S

\* one component per step, so that no step has more than a few dozen successors
AddTrue == /\ ph = "shape" /\ Len(sc.jt) < sc.n
           /\ \E j \in Rates(sc.shape), x \in Inits(sc.shape, Len(sc.jt) + 1) :
                 sc' = [sc EXCEPT !.jt = Append(@, j), !.x0 = Append(@, x)]
           /\ UNCHANGED ph
ToCand  == /\ ph = "shape" /\ Len(sc.jt) = sc.n
           /\ \E ss \in (IF ~HasInits(sc.shape) THEN {[i \in 1..sc.n |-> "model"]}
                         ELSE IF sc.n = 1 THEN {<<x>> : x \in Srcs1} ELSE Srcs2) :
                 \E fk \in BOOLEAN :
                    /\ (~fk => \E i \in 1..sc.n : ss[i] \in {"p0", "p0y0"})       \* something must be fitted
                    /\ sc' = [sc EXCEPT !.srcs = ss, !.fitk = fk]
           /\ ph' = "cand"
AddCand == /\ ph = "cand" /\ Len(sc.jc) < sc.n
           /\ LET i == Len(sc.jc) + 1
              IN  \E j \in (IF sc.fitk THEN Cands(sc.shape, sc.n) ELSE {sc.jt[i]}),
                     x \in (IF Fitted(sc, i) THEN CandInits(sc.shape) ELSE {sc.x0[i]}) :
                     sc' = [sc EXCEPT !.jc = Append(@, j), !.x0c = Append(@, x)]
           /\ UNCHANGED ph
Finish  == /\ ph = "cand" /\ Len(sc.jc) = sc.n
           /\ \E o \in (IF sc.shape = "ssc" /\ ~Rich THEN {[i \in 1..sc.n |-> RZero]} ELSE Offs(sc.n)) :
                CASE sc.shape \in {"ss", "ssc"} -> sc' = [sc EXCEPT !.off = o]
                  [] sc.shape = "tc"  -> \E ts \in TimeSets : Small(sc, ts) /\ sc' = [sc EXCEPT !.off = o, !.times = ts]
                  [] sc.shape = "ptc" -> \E ts \in PTimes, pr \in Prots : Small(sc, ts) /\ sc' = [sc EXCEPT !.off = o, !.times = ts, !.prot = pr]
           /\ ph' = "done"
Next == AddTrue \/ ToCand \/ AddCand \/ Finish

(***************************************************************************)
(* closed-form tables: a sequence of groups (see Losses.tla)               *)
(* j: rate constants, x0: the initial values the simulation starts from    *)
(***************************************************************************)
Val(s, j, x0, i, t) ==
    CASE s.shape = "ss"  -> RDiv(KIn, RInt(j[i]))
      \* closed loop x1 <-> x2 (k1 x1, k2 x2): the total of the initial values is conserved
      [] s.shape = "ssc" -> LET tot == RAdd(x0[1], x0[2])
                            IN  RDiv(RMul(tot, RInt(j[IF i = 1 THEN 2 ELSE 1])), RInt(j[1] + j[2]))
      [] s.shape = "tc"  -> Pool(AS[i], j[i], x0[i], t)
      [] s.shape = "ptc" -> PoolProt(s.prot, j[i], x0[i], t)

OneGroup(s) == s.shape \in {"ss", "ssc"}
\* the data are generated from the true rate constants and the true initial values
TruthT(s) == IF OneGroup(s) THEN << [i \in 1..s.n |-> Val(s, s.jt, s.x0, i, 0)] >>
             ELSE [i \in 1..s.n |-> [r \in 1..Len(s.times) |-> Val(s, s.jt, s.x0, i, s.times[r])]]
\* the data: the truth, optionally displaced (first entry of the first group / first row of every displaced column)
DataT(s) ==  IF OneGroup(s) THEN << [i \in 1..s.n |-> RAdd(TruthT(s)[1][i], s.off[i])] >>
             ELSE [i \in 1..s.n |-> [r \in 1..Len(s.times) |-> IF r = 1 THEN RAdd(TruthT(s)[i][r], s.off[i]) ELSE TruthT(s)[i][r]]]
\* the prediction at the candidate: candidate rate constants, initial values by precedence (EffInit)
CandStart(s) == [i \in 1..s.n |-> EffInit(s, s.x0c, i)]
PredT(s) ==  IF OneGroup(s) THEN << [i \in 1..s.n |-> Val(s, s.jc, CandStart(s), i, 0)] >>
             ELSE [i \in 1..s.n |-> [r \in 1..Len(s.times) |-> Val(s, s.jc, CandStart(s), i, s.times[r])]]

Generated(s) == \A i \in 1..s.n : RIsZero(s.off[i])       \* the data were generated by the model
AtTruth(s)   == s.jc = s.jt /\ CandStart(s) = s.x0

\* a norm of a table is a vector norm only for a single column or a single row
OneVector(s) == OneGroup(s) \/ s.n = 1
\* the percentage loss divides by entries of its first argument: cases within a factor 16 of a zero divisor are fragile
SmallDiv(name, cells) == name = "mean_absolute_percentage" /\
                         \E i \in 1..Len(cells) : RLt(RAbs(cells[i]), R(1, 16))

Expected(s) ==
    LET data == DataT(s)
        pred == PredT(s)
    IN  [nm \in AllLosses |->
            [scl \in {"plain", "scaled"} |->
                LET scaled == (scl = "scaled")
                    und == (nm = "cosine_similarity" /\ ~OneVector(s)) \/ (scaled /\ ~Scalable(data))
                    dpc == IF und THEN <<>> ELSE DPCells(data, pred, scaled)
                IN  [dp |-> IF und THEN Undef ELSE ResidualT(nm, data, pred, scaled, "dp"),
                     pd |-> IF und THEN Undef ELSE ResidualT(nm, data, pred, scaled, "pd"),
                     fragile |-> ~und /\ (SmallDiv(nm, [i \in 1..Len(dpc) |-> dpc[i].d])
                                          \/ SmallDiv(nm, [i \in 1..Len(dpc) |-> dpc[i].p]))]]]

\* sanity theorems of this module (checked on every scenario)
\* (exact sums: only for the one-group scenarios, whose numbers stay small)
SmallSc == OneGroup(sc) \/ sc.n = 1
ZeroAtTruth == (ph = "done" /\ SmallSc /\ AtTruth(sc) /\ Generated(sc)) =>
    \A nm \in {"mean_squared", "rmse", "mae", "mean"} :
        Collapse(Expected(sc)[nm]["plain"].dp) = [k |-> "ssq", ts |-> <<>>]
SymmetricAgree == (ph = "done" /\ SmallSc) =>
    \A nm \in {"mean_squared", "rmse", "mae", "cosine_similarity"} : \A scl \in {"plain", "scaled"} :
        LET e == Expected(sc)[nm][scl]
            x == Collapse(e.dp)
            y == Collapse(e.pd)
        IN  x = y \/ (Leq(x, y) = "yes" /\ Leq(y, x) = "yes")

Emit == (EmitOn /\ ph = "done") =>
    PrintT("@J@" \o ToJson([sc |-> sc, kin |-> KIn, As |-> AS, data |-> DataT(sc), pred |-> PredT(sc),
                             minit |-> [i \in 1..sc.n |-> ModelInit(sc, i)],
                             y0 |-> [i \in 1..sc.n |-> IF InY0(sc, i) THEN Y0Val(sc, i) ELSE [n |-> 0, d |-> 0]],
                             generated |-> Generated(sc), exp |-> Expected(sc)]) \o "@E@")
=============================================================================
