\* C09: configuration + schedule generator (-simulate): kinds x columns x rows x failing row x variant x mode x workers x durations
CONSTANTS
    Ns = {1, 2, 3, 4, 5}
    Ws = {1, 2, 3, 16}
    Modes = {"seq", "par"}
    Variants = {"plain", "ia", "derived"}
    ColSets = {{"k"}, {"i"}, {"x"}, {"k", "i"}, {"k", "x"}, {"i", "x"}, {"k", "i", "x"}, {"q"}, {"k", "q"}, {"x", "q"}, {"i", "x", "q"}}
    Kinds = {"steady_state", "time_course", "protocol", "protocol_time_course", "mc.steady_state", "mc.time_course", "mc.scan_steady_state"}
    FailModes = {"intfail", "nosteady", "raise", "latestep"}
    LabelSchemes = {"range", "shuffled", "strings", "repeated"}
    KeyedByLabel = FALSE
    NameSchemes = {"plain", "keyword", "underscore", "operator", "mixed"}
    Y0s = {0, 9}
    Y0Again = FALSE
    MaxDur = 3
    SharedInSeq = FALSE
    Timed = TRUE
    Fifo = TRUE
    EmitOn = TRUE
INIT Init
NEXT Next
INVARIANT RowIndependent
INVARIANT Aligned
INVARIANT FailedIsNaN
INVARIANT Bounded
INVARIANT CallerUntouched
INVARIANT Emit
CHECK_DEADLOCK FALSE
