\* four components (one two-output provider), |req| <= 1, all 24 orders
CONSTANTS
    Comps = {"a", "b", "c", "s"}
    MaxReq = 1
    Shortcut = "raise"
    EmitOn = TRUE
INIT Init
NEXT Next
INVARIANT OkIsRight
INVARIANT MissingIsRight
INVARIANT CircularIsRight
INVARIANT Bounded
INVARIANT Emit
CHECK_DEADLOCK FALSE
