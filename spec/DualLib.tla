------------------------------ MODULE DualLib ------------------------------
(***************************************************************************)
(* Forward-mode differentiation of the FnLib function universe: a dual     *)
(* number is <<value, derivative>>.  Instantiating MxlModel with this      *)
(* algebra and seeding one variable with derivative 1 yields one column of *)
(* the exact Jacobian of the right-hand side (C12).  Conditionals are      *)
(* differentiated branch-wise (the branch taken at the point).             *)
(***************************************************************************)
EXTENDS Integers, Sequences

Dual(v, d) == <<v, d>>
DConst(v)  == <<v, 0>>
DAdd(a, b) == <<a[1] + b[1], a[2] + b[2]>>
DSub(a, b) == <<a[1] - b[1], a[2] - b[2]>>
DMul(a, b) == <<a[1] * b[1], a[1] * b[2] + a[2] * b[1]>>

DApply(fn, a) ==
    CASE fn = "one"  -> DConst(1)
      [] fn = "two"  -> DConst(2)
      [] fn = "id"   -> a[1]
      [] fn = "neg"  -> DSub(DConst(0), a[1])
      [] fn = "dbl"  -> DMul(DConst(2), a[1])
      [] fn = "inc"  -> DAdd(a[1], DConst(1))
      [] fn = "loopinc" -> DAdd(a[1], DConst(1))
      [] fn = "dflt" -> DMul(DConst(3), a[1])
      [] fn = "step" -> IF a[1][1] > 2 THEN DConst(1) ELSE DConst(0)
      [] fn = "pos"  -> IF a[1][1] >= 0 THEN DAdd(a[1], DConst(1)) ELSE DConst(0)
      [] fn = "lg2"  -> DMul(DConst(3), a[1])
      [] fn = "dsum" -> a[1]
      [] fn = "add"  -> DAdd(a[1], a[2])
      [] fn = "sub"  -> DSub(a[1], a[2])
      [] fn = "mul"  -> DMul(a[1], a[2])
      [] fn = "sel"  -> IF a[1][1] > a[2][1] THEN DSub(a[1], a[2]) ELSE DMul(DConst(3), a[2])
      [] fn = "cut"  -> IF a[1][1] > a[2][1] THEN DSub(a[1], a[2]) ELSE a[1]
      [] fn = "cap"  -> IF a[1][1] < a[2][1] THEN a[1] ELSE a[2]
      [] fn = "swp"  -> DSub(DMul(DConst(2), a[2]), a[1])
      [] fn = "kwo"  -> DAdd(DMul(DConst(3), a[1]), a[2])
      [] fn = "mad"  -> DAdd(DMul(a[1], a[2]), a[3])

\* lift an integer-valued model content to duals with derivative 0
LiftVal(x)  == IF x.k = "num" THEN [k |-> "num", v |-> DConst(x.v)] ELSE x
LiftSt(st)  == [v \in DOMAIN st |-> LiftVal(st[v])]
Lift(c) ==
    [vars |-> c.vars,
     init |-> [v \in DOMAIN c.init |-> LiftVal(c.init[v])],
     pars |-> [p \in DOMAIN c.pars |-> LiftVal(c.pars[p])],
     der  |-> c.der,
     rxn  |-> [r \in DOMAIN c.rxn |-> [fn |-> c.rxn[r].fn, args |-> c.rxn[r].args, st |-> LiftSt(c.rxn[r].st)]],
     sur  |-> [s \in DOMAIN c.sur |->
                 [fns |-> c.sur[s].fns, args |-> c.sur[s].args, outs |-> c.sur[s].outs,
                  st |-> [o \in DOMAIN c.sur[s].st |-> LiftSt(c.sur[s].st[o])]]],
     ro   |-> c.ro,
     data |-> [d \in DOMAIN c.data |-> DConst(c.data[d])]]
=============================================================================
