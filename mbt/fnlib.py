"""Python twins of spec/FnLib.tla (cross-checked against TLC by ``fnlib_crosscheck``)."""

import numpy as np


def one():
    return 1.0


def two():
    return 2.0


def id(a):  # noqa: A001
    return a


def neg(a):
    return -a


def dbl(a):
    return 2 * a


def inc(a):
    return a + 1


def step(a):
    return 1.0 if a > 2 else 0.0


def loopinc(a):
    i = 0
    while i < 1:
        i += 1
    return a + i


def _scaled(s, k=3):
    return s * k


def dflt(a):
    return _scaled(a)


def dsum(d):
    return float(d.sum())


def add(a, b):
    return a + b


def sub(a, b):
    return a - b


def mul(a, b):
    return a * b


def sel(a, b):
    if a > b:
        return a - b
    return 3 * b


def cut(a, b):
    v = a
    if a > b:
        v = v - b
    return v


def cap(a, b):
    return np.minimum(a, b)


def mad(a, b, c):
    return a * b + c


ARITY = {"one": 0, "two": 0, "id": 1, "neg": 1, "dbl": 1, "inc": 1, "step": 1, "dsum": 1, "loopinc": 1, "dflt": 1,
         "add": 2, "sub": 2, "mul": 2, "sel": 2, "cut": 2, "cap": 2, "mad": 3}
FNS = {n: globals()[n] for n in ARITY}


def pair(f1: str, f2: str):
    """Two-output surrogate function built from two library functions over the same arguments."""
    a, b = FNS[f1], FNS[f2]

    def both(*args):
        return (a(*args), b(*args))

    both.__name__ = f"pair_{f1}_{f2}"
    return both
