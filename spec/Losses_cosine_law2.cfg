\* C20: the shipped cosine_similarity rewards size: TLC must find a counterexample
CONSTANTS
    LossNames = {"cosine_similarity"}
    Orients = {"pd", "dp"}
    N = 2
    Grid = "small"
    EmitOn = FALSE
INIT Init
NEXT Next
INVARIANT Law2
CHECK_DEADLOCK FALSE
