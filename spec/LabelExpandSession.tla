------------------------- MODULE LabelExpandSession -------------------------
(***************************************************************************)
(* C05 -- sessions on ONE LabelMapper object.                              *)
(*                                                                         *)
(* A LabelMapper is a mutable object with the public fields                *)
(* label_variables and label_maps.  The property speaks about "every       *)
(* assignment of label counts and atom-transition map": whatever the       *)
(* fields contain WHEN build_model is called, the labelled model is the    *)
(* expansion (LabelExpand) of exactly that assignment -- also when the     *)
(* same object was used before with another assignment, when its           *)
(* isotopomer table was asked for before, or when the caller edited the    *)
(* table it was handed.                                                    *)
(*                                                                         *)
(* Abstract state st = [nl, style]: the label counts of A, B, C (0 = not   *)
(* in label_variables) and the style of the maps; label_maps always        *)
(* matches the counts (a map of length max(S,P) for every reaction that    *)
(* touches a labelled compound; identity or reversal).  Operations:        *)
(*   build(req)        observation = the expansion of the CURRENT fields   *)
(*   get               get_isotopomers() (only a step of the history)      *)
(*   tamper            the caller edits the dict returned by the last get  *)
(*   set(c, n, how)    label count of c becomes n, maps updated to match;  *)
(*                     how = "inplace" (mutating the dicts held by the     *)
(*                     mapper) or "assign" (new dicts assigned)            *)
(*   style(s, how)     every map is replaced by the other style            *)
(* Eff(op, st) is a pure operator; the replayer drives the real object     *)
(* along every emitted session and compares after every build.             *)
(*                                                                         *)
(* Memo = TRUE is the implementation-shaped WRONG instance (the isotopomer *)
(* table generated once per mapper and reused for variables / totals /     *)
(* argument rewriting while reactions follow the current fields): TLC must *)
(* refute Faithful for it.                                                 *)
(***************************************************************************)
EXTENDS LabelExpand, SequencesExt, Json

CONSTANTS
    MaxNL,      \* label counts 0..MaxNL
    MaxSets,    \* number of field mutations in a session (each followed by a build)
    Styles,     \* map styles offered initially, subset of {"id", "rev"}
    Memo,       \* FALSE: the definition; TRUE: table memoised at first use (wrong instance)
    EmitOn

VARIABLES st,      \* [nl, style]: the mapper's fields
          memo,    \* the label counts the memoised table was generated from ("none" record before first use)
          h,       \* history: the operations with what the specification predicts for them
          sets     \* field mutations so far
vars == <<st, memo, h, sets>>

Empty == [n \in {} |-> 0]
Lab == <<"A", "B", "C">>
Cpds == <<"A", "B", "C", "X", "Y">>
InitOf == [A |-> 4, B |-> 3, C |-> 5, X |-> 2, Y |-> 1]
Pars   == [kin |-> 6, k1 |-> 3, k2 |-> 2, kout |-> 5, k9 |-> 7]

\* feed: -> A, v1: A -> B, v2: B -> C, out: C ->, and an unlabelled bystander v9: X -> Y whose rate reads B and the
\* derived quantity d1 = A + C (on the totals when B / A / C are labelled, on the plain variables when they are not)
BaseRxns ==
    <<[name |-> "feed", subs |-> <<>>,    prods |-> <<"A">>, args |-> <<"kin">>],
      [name |-> "v1",   subs |-> <<"A">>, prods |-> <<"B">>, args |-> <<"A", "k1">>],
      [name |-> "v2",   subs |-> <<"B">>, prods |-> <<"C">>, args |-> <<"k2", "B">>],
      [name |-> "out",  subs |-> <<"C">>, prods |-> <<>>,    args |-> <<"C", "kout">>],
      [name |-> "v9",   subs |-> <<"X">>, prods |-> <<"Y">>, args |-> <<"X", "B", "d1", "k9">>]>>

NLf(nl) == [c \in Range(Cpds) |-> IF c \in DOMAIN nl THEN nl[c] ELSE 0]
MapOf(style, L) == [i \in 1..L |-> IF style = "id" THEN i - 1 ELSE L - i]

\* the base content the mapper's fields stand for
ContentOf(s) ==
    LET nlf == NLf(s.nl)
        pre == [cpds |-> Cpds, nl |-> nlf, init |-> InitOf, pars |-> Pars,
                der |-> [d1 |-> [fn |-> "sum", args |-> <<"A", "C">>]], rxns |-> <<>>]
        mk(r) == LET r0 == [name |-> r.name, subs |-> r.subs, prods |-> r.prods, args |-> r.args, mapped |-> FALSE, map |-> <<>>]
                     S == SLab(pre, r0)
                     P == PLab(pre, r0)
                 IN IF S + P > 0 THEN [r0 EXCEPT !.mapped = TRUE, !.map = MapOf(s.style, IF S > P THEN S ELSE P)] ELSE r0
    IN [pre EXCEPT !.rxns = [j \in DOMAIN BaseRxns |-> mk(BaseRxns[j])]]

\* the label_maps field that matches the counts
MapsOf(s) == LET b == ContentOf(s)
                 mapped == {j \in DOMAIN b.rxns : b.rxns[j].mapped}
             IN [n \in {b.rxns[j].name : j \in mapped} |-> b.rxns[CHOOSE j \in mapped : b.rxns[j].name = n].map]

NPts == 2
RECURSIVE BitVal(_)
BitVal(bits) == IF Len(bits) = 0 THEN 0 ELSE 2 * BitVal(SubSeq(bits, 1, Len(bits) - 1)) + bits[Len(bits)]
CPos(b, c) == CHOOSE j \in DOMAIN b.cpds : b.cpds[j] = c
PointVal(k, i) == IF k = 1 THEN ((3 * i + 2) % 7) + 1 ELSE (5 * i + 1) % 11
Point(b, k) == LET idx == IsoIndex(b)
               IN [n \in {rec.n : rec \in idx} |->
                      LET rec == CHOOSE r \in idx : r.n = n IN PointVal(k, 8 * (CPos(b, rec.c) - 1) + BitVal(rec.bits))]

NoReq == [k |-> "none", ps |-> <<>>]
\* one initial-label request per build, derived from the counts (the first labelled compound, its last position)
ReqOf(s, variant) ==
    LET labelled == {c \in Range(Lab) : c \in DOMAIN s.nl /\ s.nl[c] > 0}
    IN IF labelled = {} \/ variant = 0 THEN Empty
       ELSE LET c == CHOOSE x \in labelled : \A y \in labelled : CPos([cpds |-> Cpds], x) <= CPos([cpds |-> Cpds], y)
            IN IF variant = 1 THEN (c :> [k |-> "int", ps |-> <<s.nl[c] - 1>>])
               ELSE (c :> [k |-> "list", ps |-> <<0>>])

\* what build_model must return for the fields s (the same record shape as LabelExpandMC's cases)
BuildObs(s, rq) ==
    LET b == ContentOf(s)
    IN [b |-> b, req |-> rq, outcome |-> "ok",
        rxns |-> LabelledRxns(b, "occurrence"),
        init |-> LInit(b, [c \in CpdSet(b) |-> IF c \in DOMAIN rq THEN rq[c] ELSE NoReq]),
        pts  |-> [k \in 1..NPts |->
                    LET y == Point(b, k) tt == Totals(b, y)
                    IN [y |-> y, dy |-> LRhs(b, y, "occurrence"), tot |-> tt, base |-> BRhs(b, tt)]]]

(***************************************************************************)
(* Effects                                                                 *)
(***************************************************************************)
Eff(op, s) ==
    CASE op.k = "build"  -> [st |-> s, out |-> BuildObs(s, ReqOf(s, op.variant))]
      [] op.k = "get"    -> [st |-> s, out |-> [table |-> [c \in DOMAIN s.nl |-> s.nl[c]]]]
      [] op.k = "tamper" -> [st |-> s, out |-> Empty]          \* the caller's copy is not a field of the mapper
      [] op.k = "set"    -> [st |-> [s EXCEPT !.nl = IF op.n = 0 THEN [c \in DOMAIN s.nl \ {op.c} |-> s.nl[c]]
                                                     ELSE [c \in DOMAIN s.nl \cup {op.c} |-> IF c = op.c THEN op.n ELSE s.nl[c]]],
                             out |-> Empty]
      [] op.k = "style"  -> [st |-> [s EXCEPT !.style = op.s], out |-> Empty]

\* the wrong instance: which counts the variables / totals / rewriting are taken from at a build
TableNL(s, m) == IF Memo /\ m.k = "some" THEN m.nl ELSE s.nl
Touch(s, m) == IF m.k = "some" THEN m ELSE [k |-> "some", nl |-> s.nl]

Ops(s) ==
    UNION {{[k |-> "set", c |-> c, n |-> n, how |-> how] :
               n \in {v \in 0..MaxNL : v # NLf(s.nl)[c]}, how \in {"inplace", "assign"}} : c \in Range(Lab)}

Init ==
    /\ \E nl0 \in [Range(Lab) -> 0..MaxNL], sty \in Styles :
          st = [nl |-> [c \in {x \in Range(Lab) : nl0[x] > 0} |-> nl0[c]], style |-> sty]
    /\ memo = [k |-> "none", nl |-> Empty]
    /\ h = <<>> /\ sets = 0

Step(op) ==
    LET e == Eff(op, st) IN
    /\ st' = e.st
    /\ h' = Append(h, [op |-> op, out |-> e.out, fields |-> e.st.nl, style |-> e.st.style, maps |-> MapsOf(e.st),
                       tablenl |-> TableNL(st, Touch(st, memo))])
    /\ memo' = IF op.k \in {"build", "get"} THEN Touch(st, memo) ELSE memo

\* a session: first use (build | get | get, tamper), then MaxSets x (mutate the fields, build); control: build, build
First ==
    /\ h = <<>>
    /\ \E op \in {[k |-> "build", variant |-> 0], [k |-> "get"]} : Step(op)
    /\ UNCHANGED sets
Tamper ==
    /\ Len(h) = 1 /\ h[1].op.k = "get"
    /\ Step([k |-> "tamper"])
    /\ UNCHANGED sets
Mutate ==
    /\ h # <<>> /\ h[Len(h)].op.k \in {"build", "get", "tamper"} /\ sets < MaxSets
    /\ \/ \E op \in Ops(st) : Step(op)
       \/ \E how \in {"inplace", "assign"} :
             Step([k |-> "style", s |-> IF st.style = "id" THEN "rev" ELSE "id", how |-> how])
    /\ sets' = sets + 1
Build ==
    /\ h # <<>> /\ h[Len(h)].op.k \in {"set", "style"}
    /\ Step([k |-> "build", variant |-> (sets % 3)])
    /\ UNCHANGED sets
Again ==                                          \* control: building twice without touching anything
    /\ Len(h) = 1 /\ h[1].op.k = "build"
    /\ Step([k |-> "build", variant |-> 1])
    /\ sets' = MaxSets

Next == First \/ Tamper \/ Mutate \/ Build \/ Again
Done == Len(h) > 1 /\ h[Len(h)].op.k = "build" /\ sets = MaxSets

Emit == (EmitOn /\ Done) => PrintT("@J@" \o ToJson([steps |-> h]) \o "@E@")

(***************************************************************************)
(* Theorems                                                                *)
(***************************************************************************)
\* every build is the expansion of the fields at that build: the table it uses is the one of the current counts
Faithful == \A j \in DOMAIN h : h[j].op.k = "build" => h[j].tablenl = h[j].fields
\* the fields only change through set / style
FieldsStable == \A j \in DOMAIN h : h[j].op.k \in {"build", "get", "tamper"} =>
                   h[j].fields = (IF j = 1 THEN h[j].fields ELSE h[j - 1].fields)
\* the labelled variables of a build are exactly the isotopomers of the current counts, and no reaction acts on anything else
Closed == \A j \in DOMAIN h : h[j].op.k = "build" =>
             LET o == h[j].out IN \A r \in o.rxns : DOMAIN r.st \subseteq DOMAIN o.init
=============================================================================
