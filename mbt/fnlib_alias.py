"""Functions that share their ``__name__`` with a *different* function of mbt/fnlib.py (C11: "different
functions happen to share a name").  ALIAS maps the FnLib name whose meaning they implement to the function."""


def inc(a):  # meaning of FnLib "dbl"
    return 2 * a


def add(a, b):  # meaning of FnLib "sub"
    return a - b


ALIAS = {"dbl": inc, "sub": add}


def _twin(kind):
    """Two *different* functions with the same module and the same qualified name (``_twin.<locals>.inc``), as a model
    builder that defines its rate law inside an if / else produces them."""
    if kind == "dbl":
        def inc(a):  # meaning of FnLib "dbl"
            return 2 * a
    else:
        def inc(a):  # meaning of FnLib "neg"
            return -a
    return inc


def inc_2(a):  # meaning of FnLib "id"; its own name is what a generator would pick to keep two `inc` apart
    return a


TWIN = {"dbl": _twin("dbl"), "neg": _twin("neg"), "id": inc_2}
