\* C09: implementation-shaped sequential mode (one shared model, lazy evaluation): must VIOLATE RowIndependent
CONSTANTS
    Ns = {2}
    Ws = {1}
    Modes = {"seq"}
    Variants = {"ia"}
    ColSets = {{"x"}}
    Kinds = {"time_course"}
    FailModes = {"intfail"}
    LabelSchemes = {"shuffled"}
    KeyedByLabel = FALSE
    NameSchemes = {"plain"}
    Y0s = {0}
    Y0Again = FALSE
    MaxDur = 1
    SharedInSeq = TRUE
    Timed = FALSE
    Fifo = TRUE
    EmitOn = FALSE
INIT Init
NEXT Next
INVARIANT RowIndependent
INVARIANT Aligned
INVARIANT FailedIsNaN
INVARIANT Bounded
INVARIANT CallerUntouched
INVARIANT Emit
CHECK_DEADLOCK TRUE
