\* C17 teeth: coefficients not divided by the compartment size (wrong convention); TLC must report DividedBySize violated
CONSTANTS
    MaxSpecies = 2
    MaxRxn = 1
    Features = {"rule", "two"}
    NumLits = {2}
    Half = FALSE
    UnOn = {}
    BinOn = {"mul", "div"}
    CmpOn = {"lt"}
    BoolOn = {}
    IteOn = FALSE
    FnOn = {}
    CallOn = TRUE
    PiOn = FALSE
    MaxDepth = 0
    MaxToks = 1
    Schemes = {"plain", "keyword"}
    NoDivide = TRUE
    EmitOn = FALSE
INIT Init
NEXT Next
INVARIANT AlwaysResolves
INVARIANT IdsIrrelevant
INVARIANT DividedBySize
CHECK_DEADLOCK FALSE
