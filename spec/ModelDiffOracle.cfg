\* E02 code -> spec: one verdict per recorded pair (CASE_FILE)
CONSTANTS
    Depth = 0
    Seeds = {}
    OpSet = "all"
    EmitOn = FALSE
    Variant = "doc"
    L1 = 0
    L2 = 0
    Modes = {}
    Exact = FALSE
    Heavy = {}
INIT OInit
NEXT ONext
INVARIANT OJudge
CHECK_DEADLOCK FALSE
