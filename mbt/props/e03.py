"""E03 (beyond the listed properties) -- mxlpy.fuzzy: ThompsonState / thompson_sampling as a state machine.

spec      : spec/Thompson.tla (Draw / Apply, sequential W = 1 and batched W > 1 with Total = W * ceil(N / W) rounds;
            Conservation, AcceptsAgree, OnlyGoodSucceed, BatchCommutes, Monotone, DrawReadsOnly, EndsAfterTotal;
            wrong instances "own" and "skipfail" must be refuted by TLC)
spec->code: every finished behaviour of the exhaustive instances is stepped through the real objects with a scripted
            random generator (the Beta draw is the specification's nondeterministic choice):
            (a) ThompsonState.sample / .update directly (accepted, rejected and failed predictions), tables compared
                after every step; (b) mxlpy.fuzzy.thompson_sampling(parallel=False) on a real one-variable model whose
                good candidates reproduce the data; (c) thompson_sampling(parallel=True, max_workers=W) for a handful.
code->spec: runs of thompson_sampling with numpy's own generator are recorded (index vectors, tables after every update;
            success / failure is not logged) and validated in one TLC batch per form by spec/ThompsonTrace.tla.
Not registered in MANIFEST.json (the property list is fixed); run with ./check E03.
"""

from __future__ import annotations

import copy
import json
import os
import random

os.environ.setdefault("TQDM_DISABLE", "1")

from ..core import Ctx, Report, pmap
from ..tlc import MachineryError

CANDS = {  # instance -> candidate values per parameter (good ones reproduce k1 = 1, k2 = 0.5)
    3: {"k1": [1.0, 3.0, 1.0], "k2": [0.5, 2.0, 0.0]},      # GoodA = <<{1, 3}, {1}>>
    2: {"k1": [1.0, 3.0], "k2": [2.0, 0.5]},                # GoodB = <<{1}, {2}>>
}
TIMES = [0.0, 0.5, 1.0]


def _rate(x, k1, k2):
    return k2 - k1 * x


def _ident(x):
    return x


def _model():
    from mxlpy import Model

    return (Model().add_variable("x", 1.0).add_parameter("k1", 1.0).add_parameter("k2", 0.5)
            .add_reaction("v", _rate, args=["x", "k1", "k2"], stoichiometry={"x": 1.0}))


def _data():
    from mxlpy import Simulator

    return Simulator(_model()).simulate_time_course(TIMES).get_result().unwrap_or_err().get_variables()


class _Script:
    """Random generator whose Beta draws make argmax the scripted index (one call per parameter, in dict order)."""

    def __init__(self, flat):
        self.q = list(flat)

    def beta(self, a, b):
        import numpy as np

        out = np.zeros(len(a))
        out[self.q.pop(0)] = 1.0
        return out


def _recording_state(cands, rng):
    from mxlpy.fuzzy import ThompsonState

    class Rec(ThompsonState):
        def sample(self):
            out = super().sample()
            self.log.append({"k": "draw", "idx": dict(out[0]), "pars": {k: float(v) for k, v in out[1].items()},
                             **_tables(self)})
            return out

        def update(self, idxs, pred, data, rtol):
            super().update(idxs, pred, data, rtol)
            self.log.append({"k": "apply", "idx": dict(idxs), **_tables(self)})

    st = Rec.from_parameter_values(copy.deepcopy(cands))
    st.rng = rng
    st.log = []
    return st


def _tables(st):
    return {"s": [[int(x) for x in v["success"]] for v in st.state.values()],
            "f": [[int(x) for x in v["fail"]] for v in st.state.values()],
            "x": [[float(x) for x in v["x"]] for v in st.state.values()]}


def _cmp_log(p, log, cands):
    names = p["params"]
    if len(log) != len(p["hist"]):
        return {"what": "number of sample / update calls", "expected": len(p["hist"]), "observed": len(log),
                "kinds": "".join(e["k"][0] for e in log)}
    for j, (h, e) in enumerate(zip(p["hist"], log)):
        if h["k"] != e["k"]:
            return {"what": f"call {j}: kind", "expected": h["k"], "observed": e["k"]}
        idx = [e["idx"][n] + 1 for n in names]
        if idx != list(h["idx"]):
            return {"what": f"call {j} ({h['k']}): index vector", "expected": h["idx"], "observed": idx}
        if e["s"] != [list(r) for r in h["s"]] or e["f"] != [list(r) for r in h["f"]]:
            return {"what": f"call {j} ({h['k']}): success / fail tables", "expected": {"s": h["s"], "f": h["f"]},
                    "observed": {"s": e["s"], "f": e["f"]}, "idx": h["idx"], "accept": h["acc"]}
        if e["x"] != [cands[n] for n in names]:
            return {"what": f"call {j}: candidate values changed", "observed": e["x"]}
        if h["k"] == "draw" and [e["pars"][n] for n in names] != [cands[n][i - 1] for n, i in zip(names, h["idx"])]:
            return {"what": f"call {j}: sampled parameter values are not the chosen candidates", "observed": e["pars"]}
    return None


def _flat(p):
    return [i - 1 for h in p["hist"] if h["k"] == "draw" for i in h["idx"]]


def replay_direct(p: dict, fails: list) -> dict | None:
    """(a) sample / update called directly, in the order of the behaviour."""
    cands = CANDS[p["nbins"]]
    data = _DATA
    st = _recording_state(cands, _Script(_flat(p)))
    drawn = []
    # the tolerance is strict and dyadic here: a root-mean-square distance of exactly rtol is a rejection,
    # half of it an acceptance (every second update sits on / next to the boundary)
    for j, h in enumerate(p["hist"]):
        if h["k"] == "draw":
            drawn.append(st.sample())
        else:
            idxs, _ = drawn.pop(0)
            if list(h["idx"]) in fails:
                pred = None
            elif h["acc"]:
                pred = data + (0.0625 if j % 2 else 0.0)
            else:
                pred = data + (0.125 if j % 2 else 1.0)
            st.update(idxs, pred, data=data, rtol=0.125)
    return _cmp_log(p, st.log, cands)


def replay_run(p: dict) -> dict | None:
    """(b), (c) the whole behaviour through thompson_sampling on a real model."""
    from mxlpy.fuzzy import thompson_sampling

    cands = CANDS[p["nbins"]]
    st = _recording_state(cands, _Script(_flat(p)))
    par = p["w"] > 1
    out = thompson_sampling(_model(), _DATA, st, rtol=1e-3, n=p["n"], parallel=par, max_workers=p["w"], disable_tqdm=True)
    if out is not st:
        return {"what": "thompson_sampling returned another state object"}
    if st.rng.q:
        return {"what": "fewer sample() calls than the specification's rounds", "left": len(st.rng.q)}
    return _cmp_log(p, st.log, cands)


def _job(job):
    kind, p, fails = job
    try:
        return replay_direct(p, fails) if kind == "direct" else replay_run(p)
    except IndexError:
        return {"what": "more sample() calls than the specification's rounds"}
    except Exception as e:  # noqa: BLE001
        import traceback

        return {"what": "exception", "exception": f"{type(e).__name__}: {e}", "trace": traceback.format_exc()[-600:]}


def record_real(seed: int, n: int, w: int) -> dict:
    import numpy as np
    from mxlpy.fuzzy import thompson_sampling

    st = _recording_state(CANDS[3], np.random.default_rng(seed))
    thompson_sampling(_model(), _DATA, st, rtol=1e-3, n=n, parallel=w > 1, max_workers=w, disable_tqdm=True)
    names = list(CANDS[3])
    ev = [{"k": e["k"], "idx": [e["idx"][k] + 1 for k in names], "s": e["s"], "f": e["f"]} for e in st.log]
    return {"id": f"{'par' if w > 1 else 'seq'}-{seed}", "ev": ev}


def _rec_job(a):
    return record_real(*a)


_DATA = None


def run(ctx: Ctx) -> int:
    global _DATA
    rep = Report(ctx)
    rep.rule = "one case = one finished behaviour (sequence of index vectors); non-trivial = at least one success and one fail"
    _DATA = _data()
    rnd = random.Random(ctx.seed)

    # ---- model checking: lawful instances, wrong instances ------------------------------------------------
    fam = {}
    for cfg, fails in (("Thompson_seq.cfg", [[2, 3]]), ("Thompson_par.cfg", [[2, 1]]),
                       ("Thompson_seq_nf.cfg", []), ("Thompson_par_nf.cfg", [])):
        res = ctx.tlc("Thompson.tla", cfg, workers=4)
        rep.add_tlc(res, f"{cfg}: Conservation, AcceptsAgree, OnlyGoodSucceed, BatchCommutes, Monotone, DrawReadsOnly")
        if not res.payloads:
            raise MachineryError(f"{cfg}: no finished behaviour emitted")
        fam[cfg] = (res.payloads, fails)
    for cfg, inv in (("Thompson_own.cfg", "AcceptsAgree"), ("Thompson_skipfail.cfg", "Conservation")):
        res = ctx.tlc("Thompson.tla", cfg, workers=1, expect_violation=True)
        rep.add_tlc(res, f"{cfg}: wrong instance, must violate {inv}")
        if res.violated is None or inv not in str(res.violated) + res.out:
            raise MachineryError(f"wrong instance {cfg} was not refuted by {inv}")

    # ---- spec -> code ---------------------------------------------------------------------------------------
    jobs = []
    for cfg in ("Thompson_seq.cfg", "Thompson_par.cfg"):
        ps, fails = fam[cfg]
        jobs += [("direct", p, fails) for p in ps]
    ps = fam["Thompson_seq_nf.cfg"][0]
    jobs += [("run", p, []) for p in (ps if not ctx.quick else rnd.sample(ps, min(len(ps), 240)))]
    ps = fam["Thompson_par_nf.cfg"][0]
    jobs += [("run", p, []) for p in rnd.sample(ps, min(len(ps), 8 if ctx.quick else 48))]
    # (pebble cannot start its pool from a daemonic pool worker: the batched form runs in this process)
    out = pmap(_job, [j for j in jobs if j[1]["w"] == 1 or j[0] == "direct"], procs=8, chunk=8) \
        + [_job(j) for j in jobs if not (j[1]["w"] == 1 or j[0] == "direct")]
    jobs = [j for j in jobs if j[1]["w"] == 1 or j[0] == "direct"] + [j for j in jobs if not (j[1]["w"] == 1 or j[0] == "direct")]
    for (kind, p, _), bad in zip(jobs, out):
        rep.replayed += 1
        rep.evaluations += 1
        accs = {h["acc"] for h in p["hist"] if h["k"] == "apply"}
        if accs == {True, False}:
            rep.distinct.add(json.dumps([h["idx"] for h in p["hist"]]))
        if bad:
            rep.mismatch({"kind": kind, "n": p["n"], "w": p["w"], "draws": [h["idx"] for h in p["hist"] if h["k"] == "draw"]},
                         bad, None)
    rep.sample({"kind": "run", "w": 2, "draws": [h["idx"] for h in fam["Thompson_par_nf.cfg"][0][0]["hist"] if h["k"] == "draw"]})
    rep.notes["replayed_by_kind"] = {k: sum(1 for j in jobs if j[0] == k) for k in ("direct", "run")}

    # ---- code -> spec ---------------------------------------------------------------------------------------
    nseq, npar = (60, 6) if ctx.quick else (600, 40)
    traces = {"seq": pmap(_rec_job, [(ctx.seed + i, 6, 1) for i in range(nseq)], procs=8, chunk=8),
              "par": [record_real(ctx.seed + 7000 + i, 5, 2) for i in range(npar)]}
    # binding self-test: a trace with one corrupted counter and one with a swapped index vector must be rejected
    t1 = copy.deepcopy(traces["seq"][0]); t1["id"] = "tamper-count"
    last = [e for e in t1["ev"] if e["k"] == "apply"][-1]
    last["s"][0][0] += 1
    t2 = copy.deepcopy(traces["seq"][1]); t2["id"] = "tamper-idx"
    a = [e for e in t2["ev"] if e["k"] == "apply"][0]
    a["idx"][0] = a["idx"][0] % 3 + 1
    for form, extra in (("seq", [t1, t2]), ("par", [])):
        tf = ctx.work / f"traces_{form}.json"
        tf.write_text(json.dumps(traces[form] + extra))
        res = ctx.tlc("ThompsonTrace.tla", f"ThompsonTrace_{form}.cfg", workers=1, env={"TRACE_FILE": str(tf)})
        rep.add_tlc(res, f"ThompsonTrace ({form}): {len(traces[form])} recorded runs")
        verdict: dict = {}
        for p in res.payloads:
            v = verdict.setdefault(p["id"], {"l": 0, "accept": False})
            v["l"] = max(v["l"], p["l"]); v["accept"] = v["accept"] or bool(p["accept"])
        for t in traces[form] + extra:
            v = verdict.get(t["id"])
            if v is None:
                raise MachineryError(f"trace {t['id']} was not judged")
            if t["id"].startswith("tamper"):
                if v["accept"]:
                    raise MachineryError(f"binding self-test: tampered trace {t['id']} was accepted")
                continue
            rep.evaluations += 1
            if v["accept"]:
                rep.traces += 1
            else:
                ev = t["ev"]
                rep.mismatch({"trace": t["id"], "events": len(ev)},
                             {"what": "recorded run not a behaviour of Thompson.tla", "matched_prefix": v["l"] - 1,
                              "next_event": ev[v["l"] - 1] if v["l"] - 1 < len(ev) else "(end: run not finished after Total rounds)"}, None)
    rep.assumptions.append("the Beta draw is unconstrained in the specification; which candidate a real generator prefers is not judged")
    return rep.finish()


def replay(ctx: Ctx, doc: dict) -> int:
    print(json.dumps(doc["detail"], indent=1, default=str))
    return 0
