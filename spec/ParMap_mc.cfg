\* C09: every interleaving of take/apply/run/finish/evaluate, <= 3 rows, <= 3 workers, rows more or fewer than workers
CONSTANTS
    Ns = {1, 2, 3}
    Ws = {1, 2, 3}
    Modes = {"seq", "par"}
    Variants = {"plain", "ia", "derived"}
    ColSets = {{"k"}, {"x"}, {"k", "i", "x"}, {"q"}, {"x", "q"}}
    Kinds = {"time_course"}
    FailModes = {"intfail"}
    LabelSchemes = {"shuffled", "repeated"}
    KeyedByLabel = FALSE
    NameSchemes = {"plain"}
    Y0s = {0, 9}
    Y0Again = FALSE
    MaxDur = 1
    SharedInSeq = FALSE
    Timed = FALSE
    Fifo = TRUE
    EmitOn = FALSE
INIT Init
NEXT Next
INVARIANT RowIndependent
INVARIANT Aligned
INVARIANT FailedIsNaN
INVARIANT Bounded
INVARIANT CallerUntouched
INVARIANT Emit
CHECK_DEADLOCK TRUE
