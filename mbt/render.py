"""Bridge between the specification's expression core and Python (shared by C06, C07, C08, C11, C12).

Specification side: spec/Rat.tla, spec/Expr.tla, spec/PyFn.tla.  TLC prints ASTs with ``ToJson``;
this module consumes exactly that JSON (after ``json.loads``):

  value       {"n": int, "d": int}      rational n/d (d > 0); d == 0: n == 0 -> UNDEF, n == 1 -> SKIP
              {"b": bool}               boolean
  expression  {"k": tag, ...}           tags / fields as in Expr.tla: num(v) bool(val) var(name) const(name)
              neg abs not (a) | add sub mul div pow floordiv mod (a, b) | min max and or (args) |
              cmp(ops, args) | ite(c, a, b) | call(name, args[, kw]) | fn(name, args)
              (kw[j] = "" positional / parameter name: keyword argument; absent = all positional)
  statement   {"k": "assign", "name", "e"} | {"k": "ret", "e"} | {"k": "if", "e", "body", "orelse"} |
              {"k": "chain", "names", "e"} | {"k": "aug", "name", "op", "e"} | {"k": "while", "e", "body"} | {"k": "for", "name", "e", "body"}
  function    {"k": "fn", "params": [...], "body": [...][, "defs": [values of the last parameters' defaults]]}

Rendering (spec -> Python source):
  expr_src(e, style)                 one expression, fully parenthesised
  fn_src(name, params, body, style)  ``def name(a, b):`` with if/elif/else, assignments, returns
  module_src(fns, consts, style, imports, exact)   a whole module: imports, constants, functions
  write_module(dir, name, src) / load_module(dir, name)   real files (inspect.getsource needs them)
  style = Style(call_prefix="", const_prefix="")   e.g. call_prefix="c06lib." renders f(x) as c06lib.f(x)
  ``exact=True`` renders the constants as fractions.Fraction (twin module for exact CPython runs).

Running (CPython as executor of rendered code):
  py_outcome(fn, args)     -> {"st": "ret"|"none"|"err", "v": value}  (the statuses of PyFn.Run)
  to_json_value / from_json_value, as_float
  same_outcome(spec_outcome, py_outcome, tol)   spec-validation comparison

Encoding (Python source -> spec JSON) lives in mbt/pyenc.py.
"""

from __future__ import annotations

import importlib
import math
import sys
from dataclasses import dataclass
from fractions import Fraction
from pathlib import Path

UNDEF = "UNDEF"
SKIP = "SKIP"

BIN_SYM = {"add": "+", "sub": "-", "mul": "*", "div": "/", "pow": "**", "floordiv": "//", "mod": "%"}
CMP_SYM = {"lt": "<", "le": "<=", "gt": ">", "ge": ">=", "eq": "==", "ne": "!="}
MATH_FNS = {"exp", "log", "sqrt", "sin", "cos", "tan", "tanh", "floor", "ceil"}


@dataclass(frozen=True)
class Style:
    call_prefix: str = ""    # "" -> f(x);  "lib." -> lib.f(x)
    const_prefix: str = ""   # "" -> K;     "lib." -> lib.K
    annotate: bool = False   # def f(a: float) -> float:


PLAIN = Style()


# ---- values -------------------------------------------------------------------------------------
def from_json_value(v):
    """TLC JSON value -> Fraction | bool | UNDEF | SKIP."""
    if "b" in v:
        return bool(v["b"])
    if v["d"] == 0:
        return UNDEF if v["n"] == 0 else SKIP
    return Fraction(v["n"], v["d"])


def to_json_value(x):
    if isinstance(x, bool):
        return {"b": x}
    if x is UNDEF:
        return {"n": 0, "d": 0}
    if x is SKIP:
        return {"n": 1, "d": 0}
    f = Fraction(x)
    return {"n": f.numerator, "d": f.denominator}


def as_float(x) -> float:
    return float(x)


def num_src(fr: Fraction) -> str:
    if fr.denominator == 1:
        return str(fr.numerator) if fr.numerator >= 0 else f"(-{-fr.numerator})"
    s = f"({abs(fr.numerator)} / {fr.denominator})"
    return s if fr > 0 else f"(-{s})"


# ---- rendering ------------------------------------------------------------------------------------
def expr_src(e: dict, style: Style = PLAIN) -> str:
    k = e["k"]
    r = lambda x: expr_src(x, style)  # noqa: E731
    if k == "num":
        v = from_json_value(e["v"])
        if v is UNDEF or v is SKIP:
            return "(1 / 0)"  # the undefined literal of the reference translation; never generated as source
        return num_src(v)
    if k == "bool":
        return "True" if e["val"] else "False"
    if k == "var":
        return e["name"]
    if k == "const":
        return style.const_prefix + e["name"]
    if k == "neg":
        return f"(-{r(e['a'])})"
    if k == "abs":
        return f"abs({r(e['a'])})"
    if k == "not":
        return f"(not {r(e['a'])})"
    if k in BIN_SYM:
        return f"({r(e['a'])} {BIN_SYM[k]} {r(e['b'])})"
    if k in ("min", "max"):
        return f"{k}({', '.join(r(x) for x in e['args'])})"
    if k in ("and", "or"):
        return "(" + f" {k} ".join(r(x) for x in e["args"]) + ")"
    if k == "cmp":
        parts = [r(e["args"][0])]
        for op, x in zip(e["ops"], e["args"][1:], strict=True):
            parts += [CMP_SYM[op], r(x)]
        return "(" + " ".join(parts) + ")"
    if k == "ite":
        return f"({r(e['a'])} if {r(e['c'])} else {r(e['b'])})"
    if k == "call":
        kw = e.get("kw") or [""] * len(e["args"])      # "" = positional, otherwise the parameter name
        parts = [(n + "=" if n else "") + _strip(r(x)) for n, x in zip(kw, e["args"], strict=True)]
        return f"{style.call_prefix}{e['name']}({', '.join(parts)})"
    if k == "fn":
        return f"math.{e['name']}({', '.join(r(x) for x in e['args'])})"
    raise ValueError(f"unknown expression tag {k!r}")


def _strip(s: str) -> str:
    """Drop one pair of outer parentheses (cosmetic: `if (a > b):` -> `if a > b:`)."""
    if s.startswith("(") and s.endswith(")"):
        depth = 0
        for i, ch in enumerate(s):
            depth += ch == "("
            depth -= ch == ")"
            if depth == 0 and i < len(s) - 1:
                return s
        return s[1:-1]
    return s


def body_lines(body: list, style: Style = PLAIN, indent: int = 1, elif_ok: bool = True) -> list[str]:
    pad = "    " * indent
    out: list[str] = []
    for s in body:
        k = s["k"]
        if k == "assign":
            ann = ": float" if s.get("ann") else ""         # annotated assignment  x: float = e
            out.append(f"{pad}{s['name']}{ann} = {_strip(expr_src(s['e'], style))}")
        elif k == "ret":
            out.append(f"{pad}return {_strip(expr_src(s['e'], style))}")
        elif k == "chain":
            out.append(f"{pad}{' = '.join(s['names'])} = {_strip(expr_src(s['e'], style))}")
        elif k == "aug":
            out.append(f"{pad}{s['name']} {BIN_SYM[s['op']]}= {_strip(expr_src(s['e'], style))}")
        elif k == "while":
            out.append(f"{pad}while {_strip(expr_src(s['e'], style))}:")
            out += body_lines(s["body"], style, indent + 1, elif_ok) or [f"{pad}    pass"]
        elif k == "for":
            out.append(f"{pad}for {s['name']} in range({_strip(expr_src(s['e'], style))}):")
            out += body_lines(s["body"], style, indent + 1, elif_ok) or [f"{pad}    pass"]
        elif k == "if":
            kw = "if"
            cur = s
            while True:
                out.append(f"{pad}{kw} {_strip(expr_src(cur['e'], style))}:")
                out += body_lines(cur["body"], style, indent + 1, elif_ok) or [f"{pad}    pass"]
                orelse = cur["orelse"]
                if elif_ok and len(orelse) == 1 and orelse[0]["k"] == "if":
                    kw, cur = "elif", orelse[0]
                    continue
                if orelse:
                    out.append(f"{pad}else:")
                    out += body_lines(orelse, style, indent + 1, elif_ok)
                break
        else:
            raise ValueError(f"unknown statement tag {k!r}")
    return out


def fn_src(name: str, params: list[str], body: list, style: Style = PLAIN, defs: list | None = None,
           prelude: list[str] | None = None) -> str:
    """``defs``: JSON values, the defaults of the last len(defs) parameters (``def f(a, b=3.0)``);
    ``prelude``: statements put first in the body (function-level imports: ``from m import K_alt as K``)."""
    defs = defs or []
    first = len(params) - len(defs)
    ps = [p + (": float" if style.annotate else "")
          + ((" = " if style.annotate else "=") + repr(float(from_json_value(defs[j - first]))) if j >= first else "")
          for j, p in enumerate(params)]
    if style.annotate:
        head = f"def {name}({', '.join(ps)}) -> float:"
    else:
        head = f"def {name}({', '.join(ps)}):"
    return "\n".join([head, *("    " + ln for ln in (prelude or [])), *(body_lines(body, style) or ["    pass"])]) + "\n"


def module_src(fns: dict, consts: dict | None = None, style: Style = PLAIN, imports: list[str] | None = None,
               exact: bool = False, styles: dict | None = None) -> str:
    """fns: name -> {"params": [...], "body": [...]} (insertion order kept); consts: name -> Fraction.

    Constants are rendered as float literals (MxlPy only accepts ``float`` module attributes) or, for the
    exact twin, as Fractions.  ``styles`` optionally overrides the style per function name.
    """
    lines = ["import math", "from fractions import Fraction"] + [f"import {m}" for m in (imports or [])] + [""]
    for c, v in (consts or {}).items():
        v = Fraction(v)
        lines.append(f"{c} = Fraction({v.numerator}, {v.denominator})" if exact else f"{c} = {float(v)!r}")
    lines.append("")
    for name, f in fns.items():
        lines.append("")
        # a ready-made source text (function-level imports, factory-made closures ...) takes precedence
        ready = f.get("srcx" if exact else "src")
        lines.append(ready or fn_src(name, list(f["params"]), f["body"], (styles or {}).get(name, style), f.get("defs")))
    return "\n".join(lines)


def write_module(directory: Path, name: str, src: str) -> Path:
    directory.mkdir(parents=True, exist_ok=True)
    p = directory / f"{name}.py"
    p.write_text(src)
    return p


def load_module(directory: Path, name: str):
    d = str(directory)
    if d not in sys.path:
        sys.path.insert(0, d)
    importlib.invalidate_caches()
    if name in sys.modules:
        return sys.modules[name]
    return importlib.import_module(name)


# ---- running rendered code --------------------------------------------------------------------------
def py_outcome(fn, args) -> dict:
    """Call ``fn(*args)`` and classify like PyFn.Run: ret / none / err."""
    try:
        v = fn(*args)
    except Exception as e:  # noqa: BLE001  ZeroDivisionError, UnboundLocalError, TypeError ...: Python raises
        return {"st": "err", "v": UNDEF, "exc": type(e).__name__}
    if v is None:
        return {"st": "none", "v": UNDEF}
    if isinstance(v, complex):
        return {"st": "err", "v": UNDEF, "exc": "complex"}
    return {"st": "ret", "v": v}


def close(x, y, tol: float = 1e-9) -> bool:
    """Numeric agreement: exact for exact types, relative/absolute tolerance otherwise."""
    if isinstance(x, bool) or isinstance(y, bool):
        return isinstance(x, bool) and isinstance(y, bool) and x == y
    if isinstance(x, (int, Fraction)) and isinstance(y, (int, Fraction)):
        return x == y
    fx, fy = float(x), float(y)
    if math.isnan(fx) or math.isnan(fy) or math.isinf(fx) or math.isinf(fy):
        return False
    return abs(fx - fy) <= tol * max(1.0, abs(fx), abs(fy))


def same_outcome(spec: dict, py: dict, tol: float = 1e-9) -> bool:
    """spec: {"st", "v"} decoded from TLC (v via from_json_value); py: result of py_outcome."""
    if spec["st"] != py["st"]:
        return False
    if spec["st"] != "ret":
        return True
    return close(spec["v"], py["v"], tol)
