\* C20 Fit machine: reporting the final iterate can be worse than the start: counterexample expected
CONSTANTS
    Points = {1, 2, 3}
    LossVals = {0, 10, 20}
    MaxEvals = 3
    Reporter = "last"
    Copy = TRUE
    Generated = TRUE
INIT Init
NEXT Next
INVARIANT RepNoWorse
CHECK_DEADLOCK FALSE
