\* C17 sessions (pinned instance): module registry keyed by the sanitised stem; TLC must report ReadAlone violated
CONSTANTS
    Docs = {1, 2, 3, 4}
    MaxOps = 4
    Registry = "stem"
    RewriteDocs = {1}
    EmitOn = FALSE
INIT Init
NEXT Next
INVARIANT ReadAlone
INVARIANT Emit
CHECK_DEADLOCK FALSE
