\* C20: the five lawful shipped losses satisfy both laws in both argument orientations (lengths 1..3)
CONSTANTS
    LossNames = {"mean_squared", "rmse", "mae", "mean_absolute_percentage", "mean_squared_logarithmic"}
    Orients = {"pd", "dp"}
    N = 3
    Grid = "small"
    EmitOn = FALSE
INIT Init
NEXT Next
INVARIANT Law1
INVARIANT Law2
INVARIANT Law3Wired
INVARIANT Witness
CHECK_DEADLOCK FALSE
