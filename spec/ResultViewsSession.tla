------------------------- MODULE ResultViewsSession -------------------------
(***************************************************************************)
(* C10 -- results handed out by ONE Simulator during a session.            *)
(*                                                                         *)
(* A session interleaves                                                   *)
(*   Continue   : update parameters + simulate: one more segment           *)
(*   GetResult  : the simulator hands out a result                         *)
(*   Read(h,op) : a view of the h-th handed-out result is read             *)
(* over the linear-flow variant (exact integer states, see SimSegs).       *)
(* Contract: a handed-out result is a VALUE -- its views are a function of *)
(* the segments present WHEN IT WAS HANDED OUT (View(op, ResN(n))),        *)
(* whatever is simulated, handed out or read afterwards; a later result    *)
(* covers all segments simulated so far; reading an earlier result never   *)
(* changes a later one.                                                    *)
(* The machine is implementation-shaped: the argument table behind the     *)
(* cache-backed views is a memo that covers some number of segments.       *)
(*   Memo = "perresult" : every handed-out result has its own memo, and    *)
(*                        its own copy of the segment lists                *)
(*   Memo = "shared"    : one memo on the simulator, passed to every       *)
(*                        result, never invalidated by Continue (a         *)
(*                        plausible wrong implementation: TLC must refute) *)
(*   Memo = "sharedlists": the results share the simulator's segment LISTS *)
(*                        (the pinned commit): an earlier result that was  *)
(*                        read keeps its memo but sees the new segments in *)
(*                        its state-only views (TLC must refute)           *)
(***************************************************************************)
EXTENDS ResultViews, Json

CONSTANTS Memo, MaxEvents, MaxReads, EmitOn,
          Scenario,    \* "lin": all parameters are numbers | "linia": p is defined by an assignment (x(0) + q), q is
                       \* updated between segments 1 and 2 (p follows), p is overridden by a number before segment 3,
                       \* and the model's declared x(0) may be EDITED after the simulation (event "edit")
          Snapshot     \* "resolved": a segment records the resolved values of all parameters | "numbers": only the
                       \* number-valued ones, assignment-defined ones are re-resolved from the LIVE declaration at
                       \* the time of the read (the pinned commit: must be refuted by TLC)

VARIABLES k, handed, smemo, hist, lastans, nreads, atab, decl
vars == <<k, handed, smemo, hist, lastans, nreads, atab, decl>>
\* decl : the model's declaration as it stands now (content: parameters updated / overridden, x(0) edited)
\* atab[n][j] = View(SOps[j], ResN(n)): the specified answers, computed once (TLC does not memoise operators)
\* k      : segments simulated so far
\* handed : Seq([n |-> segments present at hand-out, memo |-> segments covered by this result's own memo, 0 = empty])
\* smemo  : segments covered by the simulator-wide memo (only used when Memo = "shared")

Scn     == IF Scenario = "lin"
           THEN [y0 |-> SimScenario.y0,
                 steps |-> [i \in DOMAIN SimScenario.steps |-> [set |-> SimScenario.steps[i].pars,
                                                                times |-> SimScenario.steps[i].times]]]
           ELSE IaScenario
C0      == Content(Scenario)
Steps   == ResolveSteps(C0, Scn.steps)            \* per step: the parameter values in force, and the times
AllSegs == SimSegs(C0, Steps, Scn.y0, 0)
MaxSeg  == Len(Scn.steps)
ResN(n) == MkRes(Scenario, SubSeq(AllSegs, 1, n))
EditX0  == 9                                      \* update_variable("x", 9) on the model after the simulation

\* was p number-valued while segment i was simulated?
WasNumber(i) == Scenario = "lin" \/ \E j \in 1..i : "p" \in DOMAIN Scn.steps[j].set
\* what a result that recorded only number-valued parameters reports: the other ones as the live declaration has them
ResLive(n) ==
    LET live == InForce(decl)
    IN MkRes(Scenario, [i \in 1..n |-> [AllSegs[i] EXCEPT !.pars = [m \in DOMAIN @ |->
                                            IF m = "p" /\ ~WasNumber(i) THEN live[m] ELSE @[m]]]])

SOp(view, flags, concat) ==
    [view |-> view, flags |-> flags, v |-> "x", scaled |-> FALSE, concat |-> concat, norm |-> "none", val |-> 0]
SOps == << SOp("fluxes", {"sflux"}, TRUE),
           SOp("variables", {"dvar", "svar", "ro"}, TRUE),
           SOp("variables", {}, TRUE),
           SOp("rhs", {}, TRUE),
           SOp("args", Groups, FALSE),
           SOp("newy0", {}, TRUE) >>
CacheBacked(op) == ~(op.view = "newy0" \/ (op.view = "variables" /\ op.flags = {}))

Err == <<>>          \* the read raised (e.g. memo and segment lists of different length)

\* what the implementation-shaped result answers: state-only views from the segments it sees, cache-backed views
\* from the memo it uses; a derivative needs both to have the same length
Answer(h, op, memoN) ==
    LET sees == IF Memo = "sharedlists" THEN k ELSE handed[h].n
    IN IF ~CacheBacked(SOps[op]) THEN atab[sees][op]
       ELSE IF SOps[op].view = "rhs" /\ memoN # sees THEN Err
       ELSE IF Snapshot = "numbers" THEN View(SOps[op], ResLive(memoN))
       ELSE atab[memoN][op]

Init == /\ decl = C0
        /\ k = 0 /\ handed = <<>> /\ smemo = 0 /\ hist = <<>> /\ lastans = <<>> /\ nreads = 0
        /\ atab = [n \in 1..MaxSeg |-> [j \in DOMAIN SOps |-> View(SOps[j], ResN(n))]]

\* has the MODEL been edited behind the simulator's back (events "editx" / "editp" / "readdp")?
Edited == \E j \in DOMAIN hist : hist[j].e \in {"editx", "editp", "readdp"}

Continue ==
    /\ k < MaxSeg /\ ~Edited          \* (a segment simulated after an edit would depend on the edit)
    /\ k' = k + 1
    /\ decl' = ApplySet(decl, Scn.steps[k + 1].set)
    /\ hist' = Append(hist, [e |-> "continue", h |-> 0, op |-> 0])
    /\ UNCHANGED <<handed, smemo, lastans, nreads, atab>>

\* the model is edited after the simulation: the declared initial value of x changes (an assignment-defined
\* parameter of the LIVE model now resolves differently; no result may notice)
\* ... or the assignment-defined parameter ITSELF is replaced by a number on the model (update_parameter, or
\* remove_parameter + add_parameter), not through the simulator, possibly before any view was read
EditP == 50
Edit ==
    /\ Scenario = "linia" /\ k >= 1
    /\ \/ /\ decl.init["x"].v # EditX0
          /\ decl' = [decl EXCEPT !.init["x"] = M!Num(EditX0)]
          /\ hist' = Append(hist, [e |-> "editx", h |-> 0, op |-> 0])
       \/ \E kind \in {"editp", "readdp"} :
             /\ ~\E j \in DOMAIN hist : hist[j].e \in {"editp", "readdp"}
             /\ decl' = ApplySet(decl, ("p" :> EditP))
             /\ hist' = Append(hist, [e |-> kind, h |-> 0, op |-> 0])
    /\ UNCHANGED <<k, handed, smemo, lastans, nreads, atab>>

GetResult ==
    /\ k >= 1 /\ Len(handed) < 2
    /\ (IF handed = <<>> THEN TRUE ELSE handed[Len(handed)].n < k)   \* the same value twice adds nothing
    /\ handed' = Append(handed, [n |-> k, memo |-> 0])
    /\ hist' = Append(hist, [e |-> "get", h |-> Len(handed) + 1, op |-> 0])
    /\ UNCHANGED <<k, smemo, lastans, nreads, atab, decl>>

Read(h, j) ==
    LET op   == SOps[j]
        sees == IF Memo = "sharedlists" THEN k ELSE handed[h].n
        own  == IF handed[h].memo = 0 THEN sees ELSE handed[h].memo
        shr  == IF smemo = 0 THEN sees ELSE smemo
        use  == IF Memo = "shared" THEN shr ELSE own
    IN /\ nreads < MaxReads
       /\ lastans' = Answer(h, j, use)
       /\ IF CacheBacked(op)
          THEN /\ handed' = [handed EXCEPT ![h].memo = own]
               /\ smemo' = shr
          ELSE UNCHANGED <<handed, smemo>>
       /\ hist' = Append(hist, [e |-> "read", h |-> h, op |-> j])
       /\ nreads' = nreads + 1
       /\ UNCHANGED <<k, atab, decl>>

Next == /\ Len(hist) < MaxEvents
        /\ \/ Continue \/ GetResult \/ Edit
           \/ \E h \in DOMAIN handed, j \in DOMAIN SOps : Read(h, j)

(***************************************************************************)
(* Properties                                                              *)
(***************************************************************************)
LastIsRead == hist # <<>> /\ hist[Len(hist)].e = "read"
\* every handed-out result's views = function of the segments present when it was handed out
HandedOutIsValue ==
    LastIsRead => lastans = atab[handed[hist[Len(hist)].h].n][hist[Len(hist)].op]
\* a result handed out now covers everything simulated so far
LaterCoversAll ==
    (hist # <<>> /\ hist[Len(hist)].e = "get") => handed[Len(handed)].n = k
\* the theorems of ResultViews hold of every prefix result (in particular concatenated = stacked, N.v = rhs)
\* the values in force: an assignment-defined parameter follows the parameters it is computed from until it is
\* overridden by a number (IaScenario: p = 2 + 11, then 2 + 3, then the number 7)
InForceIsResolved ==
    (hist = <<>> /\ Scenario = "linia") =>
        /\ Steps[1].pars = ("p" :> 13) @@ ("q" :> 11) /\ Steps[2].pars = ("p" :> 5) @@ ("q" :> 3)
        /\ Steps[3].pars = ("p" :> 7) @@ ("q" :> 3)
        /\ \A i \in 1..MaxSeg : AllSegs[i].pars = Steps[i].pars

PrefixTheorems ==
    hist = <<>> => \A n \in 1..MaxSeg :
        LET r == ResN(n) tb == SpecTables(r)
        IN NvIsRhs(r, tb) /\ \A j \in DOMAIN SOps : SOps[j].view # "newy0" => ConcatIsStack(SOps[j], r, tb)

Maximal == Len(hist) = MaxEvents \/ (nreads = MaxReads /\ k = MaxSeg /\ Len(handed) = 2)
EmitTable ==
    (EmitOn /\ hist = <<>>) =>
        PrintT("@J@" \o ToJson([kind |-> "table", content |-> C0, sim |-> Scn, editx0 |-> EditX0, editp |-> EditP, ops |-> SOps,
                                 res |-> [n \in 1..MaxSeg |-> ResN(n)],
                                 answers |-> atab]) \o "@E@")
EmitSeq ==
    (EmitOn /\ Maximal /\ nreads >= 1) =>
        PrintT("@J@" \o ToJson([kind |-> "session", events |-> hist,
                                 ns |-> [h \in DOMAIN handed |-> handed[h].n]]) \o "@E@")
=============================================================================
