#!/venv/bin/python
"""Confirm a seeded change and run a check against it.

usage: tools/try_mutant.py <worktree> <k> <property> [--tests] [--tier quick]
  - applies <worktree>/mutant<k>.diff in the worktree, runs demo<k>.py (must exit != 0),
    optionally runs the repository tests there (must equal the baseline outcome),
    runs ./check <property> with VERIF_REPO=<worktree>, restores the worktree, runs the demo again (must exit 0),
    and stores patch, demo and meta.json under /verif/seeded/<property>-m<k>-<slug>/.
"""
import json, os, shutil, subprocess, sys, time
from pathlib import Path

wt = Path(sys.argv[1]); k = sys.argv[2]; prop = sys.argv[3]
run_tests = "--tests" in sys.argv
tier = sys.argv[sys.argv.index("--tier") + 1] if "--tier" in sys.argv else "quick"
tag = sys.argv[sys.argv.index("--tag") + 1] if "--tag" in sys.argv else ""
env = dict(os.environ, PYTHONPATH=str(wt / "src"))
def sh(cmd, **kw):
    return subprocess.run(cmd, shell=True, capture_output=True, text=True, **kw)
patch = wt / f"mutant{k}.diff"; demo = wt / f"demo{k}.py"
assert sh(f"git -C {wt} status --porcelain src").stdout.strip() == "", "worktree source not clean"
r0 = sh(f"/venv/bin/python {demo}", env=env, cwd=wt)
assert r0.returncode == 0, f"demo fails on the unmodified tree: {r0.stdout[-300:]}{r0.stderr[-300:]}"
assert sh(f"git -C {wt} apply {patch}").returncode == 0, "patch does not apply"
meta = {"property": prop, "worktree_base": sh(f"git -C {wt} rev-parse --short HEAD").stdout.strip()}
try:
    r1 = sh(f"/venv/bin/python {demo}", env=env, cwd=wt)
    meta["demo_with_change_exit"] = r1.returncode
    meta["demo_with_change_tail"] = (r1.stdout + r1.stderr)[-400:]
    if run_tests:
        t = sh("/venv/bin/python -m pytest -q -p no:cacheprovider -n 6 tests --deselect tests/sbml/test_import.py 2>&1 | tail -1", env=env, cwd=wt)
        meta["tests_with_change"] = t.stdout.strip()
    t0 = time.time()
    c = sh(f"./check {prop} --tier {tier}", cwd="/verif", env=dict(os.environ, VERIF_REPO=str(wt)))
    meta["check_cmd"] = f"VERIF_REPO={wt} ./check {prop} --tier {tier}"
    meta["check_exit"] = c.returncode
    meta["check_wall_s"] = round(time.time() - t0)
    lines = c.stdout.strip().splitlines()
    meta["check_violation_lines"] = sum(1 for l in lines if l.startswith("VIOLATION"))
    meta["check_summary"] = [l for l in lines if l.startswith("violations by") or l.startswith(prop)][-2:]
    meta["check_stderr_tail"] = c.stderr[-300:]
finally:
    sh(f"git -C {wt} checkout -- src")
r2 = sh(f"/venv/bin/python {demo}", env=env, cwd=wt)
meta["demo_restored_exit"] = r2.returncode
meta["detected"] = meta.get("check_exit") == 1 and meta["check_violation_lines"] > 0
out = Path("/verif/seeded") / f"{prop}-{wt.name}-{tag}m{k}"
out.mkdir(parents=True, exist_ok=True)
shutil.copy(patch, out / "patch.diff"); shutil.copy(demo, out / "demo.py")
md = wt / "MUTANTS.md"
if md.exists():
    shutil.copy(md, out / "AUTHOR_NOTES.md")
(out / "meta.json").write_text(json.dumps(meta, indent=1))
# restore evidence of the property from the real repo later (the lead reruns the check)
print(json.dumps(meta, indent=1))
