\* C08 mc (Reuse): exhaustive BFS, two components (one derived quantity, one reaction), tiny grammar; one function used
\* by two components with permuted arguments occurs; theorems of the specification
CONSTANTS
    MaxVars = 2
    MaxDer = 1
    MaxRxn = 1
    MaxIap = 0
    MaxIav = 0
    MaxComps = 2
    NumLits = {2}
    Half = FALSE
    UnOn = {}
    BinOn = {"sub"}
    CmpOn = {}
    Chains = FALSE
    BoolOn = {}
    IteOn = FALSE
    FnOn = {}
    CallOn = FALSE
    PiOn = FALSE
    MaxDepth = 1
    MaxToks = 3
    NFormals = 2
    Schemes = {"formal"}
    Pinned = FALSE
    EmitOn = FALSE
INIT Init
NEXT Next
INVARIANT AlwaysWellFormed
INVARIANT PredicatesClosed
INVARIANT RenameInvariant
INVARIANT UntouchedZero
CHECK_DEADLOCK FALSE
