----------------------------- MODULE LossesCore -----------------------------
(***************************************************************************)
(* C20, first half (pure operators; the law-checking machine is Losses.tla):*)
(* the shipped loss functions of mxlpy.fit.losses over                     *)
(* exact rational vectors, the two LAWS of the property as TLC-checked     *)
(* statements over an enumerated grid of (prediction, data) pairs, and     *)
(* Residual = Loss(data, prediction) with and without standard scaling.    *)
(*                                                                         *)
(* Values (collapsed form, F).  A loss value is a closed term:             *)
(*   [k |-> "ssq",   ts |-> << [c, q], ... >>]   = SUM c_i * sqrt(q_i)     *)
(*        (c, q rationals, q > 0; <<>> is 0; a plain rational r is         *)
(*         <<[c |-> r, q |-> 1]>>; rmse is <<[c |-> 1, q |-> mean sq]>>)   *)
(*   [k |-> "sqlog", rs |-> << r_1, ... >>]      = mean_i (ln r_i)^2       *)
(*   [k |-> "negnorms", qa, qb]                  = -sqrt(qa) * sqrt(qb)    *)
(*   [k |-> "undef"]                             outside the domain        *)
(* Order between two values is decided by TLC through monotone transforms: *)
(* sign and c^2 q for one-term sums; |ln x| <= |ln y| <=> max(x,1/x) <=    *)
(* max(y,1/y) component-wise for the logarithmic loss.  Only the final     *)
(* closed term is turned into a float by the harness (sqrt / log leaves).  *)
(*                                                                         *)
(* Arguments.  F(name, cells): a cell is [a, b, w]: first positional       *)
(* argument a/sqrt(w), second b/sqrt(w).  w = 1 without scaling; with      *)
(* standard scaling w is the sample variance (ddof = 1) of the data group  *)
(* the cell belongs to and a, b are the centred values.                    *)
(***************************************************************************)
EXTENDS LossesRat, FiniteSets, SequencesExt, TLC, Json

AllLosses == {"mean", "mean_squared", "rmse", "mae", "mean_absolute_percentage",
              "mean_squared_logarithmic", "cosine_similarity"}

Undef == [k |-> "undef"]
VRat(r) == IF RIsZero(r) THEN [k |-> "ssq", ts |-> <<>>] ELSE [k |-> "ssq", ts |-> <<[c |-> r, q |-> ROne]>>]
VSqrt(c, q) == IF RIsZero(c) \/ RIsZero(q) THEN [k |-> "ssq", ts |-> <<>>] ELSE [k |-> "ssq", ts |-> <<[c |-> c, q |-> q]>>]

Idx(cells) == 1..Len(cells)
NN(cells)  == RInt(Len(cells))
Ws(cells)  == {cells[i].w : i \in Idx(cells)}
Plain(cells) == Ws(cells) = {ROne}

(***************************************************************************)
(* T(name, cells): the loss as an UNSUMMED closed term                      *)
(*   [k |-> "msum", outer |-> "id"|"sqrt", c, ts |-> << [x, q], ... >>]     *)
(*        = outer( c * SUM_i x_i * sqrt(q_i) )                              *)
(*   [k |-> "sqlog", rs],  [k |-> "negnorms", sa, sb] = -sqrt(SUM sa) sqrt(SUM sb), *)
(*   [k |-> "undef"].                                                       *)
(* The exact sum of many unrelated fractions does not fit TLC's 32-bit      *)
(* integers, so scenario emission prints T and the harness adds the leaves; *)
(* the law checks (small grid) use F = Collapse(T): the exact sum.          *)
(***************************************************************************)
Cst(cells, outer, c, X(_), Q(_)) ==
    [k |-> "msum", outer |-> outer, c |-> c, ts |-> [i \in Idx(cells) |-> [x |-> X(cells[i]), q |-> Q(cells[i])]]]

T(name, cells) ==
    CASE name = "mean" -> Cst(cells, "id", RDiv(ROne, NN(cells)), LAMBDA c : RSub(c.a, c.b), LAMBDA c : RInv(c.w))
      [] name = "mean_squared" -> Cst(cells, "id", RDiv(ROne, NN(cells)),
                                      LAMBDA c : RDiv(RSq(RSub(c.a, c.b)), c.w), LAMBDA c : ROne)
      [] name = "rmse" -> Cst(cells, "sqrt", RDiv(ROne, NN(cells)),
                              LAMBDA c : RDiv(RSq(RSub(c.a, c.b)), c.w), LAMBDA c : ROne)
      [] name = "mae" -> Cst(cells, "id", RDiv(ROne, NN(cells)), LAMBDA c : RAbs(RSub(c.b, c.a)), LAMBDA c : RInv(c.w))
      [] name = "mean_absolute_percentage" ->
            IF \E i \in Idx(cells) : RIsZero(cells[i].a) THEN Undef
            ELSE Cst(cells, "id", RDiv(RInt(100), NN(cells)), LAMBDA c : RAbs(RDiv(RSub(c.b, c.a), c.a)), LAMBDA c : ROne)
      [] name = "mean_squared_logarithmic" ->
            IF ~Plain(cells) \/ \E i \in Idx(cells) : (RLe(RAdd(cells[i].a, ROne), RZero) \/ RLe(RAdd(cells[i].b, ROne), RZero))
            THEN Undef
            ELSE [k |-> "sqlog", rs |-> [i \in Idx(cells) |-> RDiv(RAdd(cells[i].a, ROne), RAdd(cells[i].b, ROne))]]
      [] name = "cosine_similarity" ->
            \* as shipped: -(||first||_2 * ||second||_2); a vector norm only for one-column / one-row arguments
            [k |-> "negnorms", sa |-> [i \in Idx(cells) |-> RDiv(RSq(cells[i].a), cells[i].w)],
                               sb |-> [i \in Idx(cells) |-> RDiv(RSq(cells[i].b), cells[i].w)]]
      [] name = "cosine_distance" ->
            \* NOT shipped: 1 - cos(angle) on non-negative vectors, ordered through cos^2 (a lawful reference design)
            LET aa == RSum([i \in Idx(cells) |-> RSq(cells[i].a)])
                bb == RSum([i \in Idx(cells) |-> RSq(cells[i].b)])
                ab == RSum([i \in Idx(cells) |-> RMul(cells[i].a, cells[i].b)])
            IN  IF RIsZero(aa) \/ RIsZero(bb) \/ ~Plain(cells) \/ RLt(ab, RZero) THEN Undef
                ELSE [k |-> "onemsqrt", q |-> RDiv(RSq(ab), RMul(aa, bb))]

\* exact summation: SUM c*x_i*sqrt(q_i) with one term per distinct radicand ("ssq"); used where numbers are small
Collapse(t) ==
    IF t.k = "msum" THEN
        LET qs == SetToSeq({t.ts[i].q : i \in 1..Len(t.ts)})
            tot(q) == RMul(t.c, RSum([i \in 1..Len(t.ts) |-> IF t.ts[i].q = q THEN t.ts[i].x ELSE RZero]))
            raw == [j \in 1..Len(qs) |-> [c |-> tot(qs[j]), q |-> qs[j]]]
            nz == SelectSeq(raw, LAMBDA u : ~RIsZero(u.c))
        IN  IF t.outer = "id" THEN [k |-> "ssq", ts |-> nz]
            ELSE \* sqrt(rational): every radicand is 1 here
                 IF nz = <<>> THEN [k |-> "ssq", ts |-> <<>>] ELSE [k |-> "ssq", ts |-> <<[c |-> ROne, q |-> nz[1].c]>>]
    ELSE IF t.k = "negnorms" THEN [k |-> "negnorms", qa |-> RSum(t.sa), qb |-> RSum(t.sb)]
    ELSE t

F(name, cells) == Collapse(T(name, cells))

\* plain vectors (no scaling): first positional argument a, second b
PlainCells(a, b) == [i \in 1..Len(a) |-> [a |-> a[i], b |-> b[i], w |-> ROne]]
LossVec(name, a, b) == F(name, PlainCells(a, b))

(***************************************************************************)
(* Order on values ("yes" / "no" / "undecided")                            *)
(***************************************************************************)
\* one-term sums c*sqrt(q): [sg, c, q]; compared through c when the radicands agree, else through c^2 q
SS(v) == IF v.ts = <<>> THEN [sg |-> 0, c |-> RZero, q |-> ROne]
         ELSE [sg |-> RSign(v.ts[1].c), c |-> RAbs(v.ts[1].c), q |-> v.ts[1].q]
MagLe(x, y) == IF x.q = y.q THEN RLe(x.c, y.c) ELSE RLe(RMul(RSq(x.c), x.q), RMul(RSq(y.c), y.q))
LeqSS(x, y) == IF x.sg # y.sg THEN x.sg < y.sg
               ELSE IF x.sg = 1 THEN MagLe(x, y)
               ELSE IF x.sg = 0 - 1 THEN MagLe(y, x) ELSE TRUE
Far(x) == RMax(x, RDiv(ROne, x))           \* x > 0: |ln x| is increasing in max(x, 1/x)
Leq(v1, v2) ==
    IF v1.k = "ssq" /\ v2.k = "ssq" THEN
        IF Len(v1.ts) <= 1 /\ Len(v2.ts) <= 1 THEN (IF LeqSS(SS(v1), SS(v2)) THEN "yes" ELSE "no") ELSE "undecided"
    ELSE IF v1.k = "sqlog" /\ v2.k = "sqlog" /\ Len(v1.rs) = Len(v2.rs) THEN
        IF \A i \in 1..Len(v1.rs) : RLe(Far(v1.rs[i]), Far(v2.rs[i])) THEN "yes"
        ELSE IF \A i \in 1..Len(v1.rs) : RGe(Far(v1.rs[i]), Far(v2.rs[i])) THEN "no"
        ELSE "undecided"
    ELSE IF v1.k = "negnorms" /\ v2.k = "negnorms" THEN
        (IF RGe(RMul(v1.qa, v1.qb), RMul(v2.qa, v2.qb)) THEN "yes" ELSE "no")
    ELSE IF v1.k = "onemsqrt" /\ v2.k = "onemsqrt" THEN (IF RGe(v1.q, v2.q) THEN "yes" ELSE "no")
    ELSE "undecided"

Defined(v) == v.k # "undef"

(***************************************************************************)
(* Standard scaling and the residual.                                      *)
(* A table is a sequence of groups, a group a sequence of rationals; the   *)
(* data and the prediction have the same shape.  A pandas Series (steady   *)
(* state) is one group holding all entries; a DataFrame (time course) has  *)
(* one group per column.  mean/std are those of the DATA, ddof = 1.        *)
(***************************************************************************)
GroupMean(g) == RMean(g)
GroupVar(g)  == RDiv(RSum([i \in 1..Len(g) |-> RSq(RSub(g[i], GroupMean(g)))]), RInt(Len(g) - 1))   \* Len(g) >= 2
Scalable(data) == \A j \in 1..Len(data) : Len(data[j]) >= 2 /\ ~RIsZero(GroupVar(data[j]))

RECURSIVE Flat(_)
Flat(ss) == IF ss = <<>> THEN <<>> ELSE Head(ss) \o Flat(Tail(ss))

\* cells with the DATA in field d and the PREDICTION in field p
DPCells(data, pred, scaled) ==
    Flat([j \in 1..Len(data) |->
            [i \in 1..Len(data[j]) |->
                IF scaled THEN [d |-> RSub(data[j][i], GroupMean(data[j])), p |-> RSub(pred[j][i], GroupMean(data[j])),
                                w |-> GroupVar(data[j])]
                ELSE [d |-> data[j][i], p |-> pred[j][i], w |-> ROne]]])

\* orientation "dp": loss_fn(data, prediction) (what _Settings.loss does); "pd": loss_fn(prediction, data)
\* (what the parameter names y_pred, y_true of the shipped losses suggest).  The property's statement does not
\* fix the orientation, so a residual conforms if it equals either (they coincide for the symmetric losses).
ResidualT(name, data, pred, scaled, orient) ==       \* unsummed term (emission); Residual is its exact sum
    IF scaled /\ ~Scalable(data) THEN Undef
    ELSE LET dp == DPCells(data, pred, scaled)
             cells == [i \in 1..Len(dp) |-> IF orient = "dp" THEN [a |-> dp[i].d, b |-> dp[i].p, w |-> dp[i].w]
                                                                ELSE [a |-> dp[i].p, b |-> dp[i].d, w |-> dp[i].w]]
         IN  T(name, cells)
Residual(name, data, pred, scaled, orient) == Collapse(ResidualT(name, data, pred, scaled, orient))

=============================================================================
