"""Shared by C07 / C11 / C12: the surrogate-free, translatable sub-family of spec/ModelEval.tla."""

from __future__ import annotations

import json

from ..core import Ctx, Report
from ..modelkit import norm_content
from ..tlc import MachineryError

CFG = """\\* surrogate-free members of the ModelEval family over translatable library functions
CONSTANTS
    MaxVars = {maxv}
    MaxDer = {maxd}
    MaxRxn = {maxr}
    MaxIap = {maxia}
    MaxIav = {maxiv}
    MaxSur = 0
    MaxRo = 0
    MaxComps = {maxc}
    Fns = {fns}
    UseData = FALSE
    ForwardRefs = {fwd}
    WithJac = {jac}
    EmitOn = TRUE
INIT Init
NEXT Next
INVARIANT Emit
INVARIANT OrderInvariant
INVARIANT UntouchedZero
INVARIANT JacIsDerivative
CHECK_DEADLOCK FALSE
"""

TRANSLATABLE = ["two", "id", "neg", "dbl", "inc", "add", "sub", "mul", "mad", "step", "sel", "cut", "swp", "pos"]
UNTRANSLATABLE = {"loopinc", "dsum"}
OPTIONAL = ["dflt", "cap", "kwo", "lg2"]   # a translator may refuse these or translate them correctly, never wrongly


def fnset(names) -> str:
    return "{" + ", ".join(f'"{n}"' for n in names) + "}"


def generate(ctx: Ctx, rep: Report, parts: list[dict]) -> list[dict]:
    """parts: list of dict(maxv, maxd, maxr, maxia, maxiv, maxc, fns, fwd, num, workers[, exhaustive])."""
    out = []
    seen = set()
    for j, part in enumerate(parts):
        cfg = ctx.write_cfg(f"ModelEval_cg{j}.cfg", CFG.format(
            maxv=part["maxv"], maxd=part["maxd"], maxr=part["maxr"], maxia=part["maxia"], maxiv=part.get("maxiv", 0),
            maxc=part["maxc"], fns=fnset(part["fns"]), fwd="TRUE" if part["fwd"] else "FALSE",
            jac="TRUE" if part.get("jac") else "FALSE"))
        if part.get("exhaustive"):
            res = ctx.tlc("ModelEval.tla", str(cfg), tag=f"cg{j}")
            what = "exhaustive"
        else:
            res = ctx.tlc("ModelEval.tla", str(cfg), tag=f"cg{j}", simulate=f"num={part['num']}", depth=40,
                          seed=ctx.seed + j, workers=part.get("workers", 8))
            what = "-simulate"
        rep.add_tlc(res, f"ModelEval codegen family part {j} ({what}; <= {part['maxc']} components, "
                         f"forward refs {part['fwd']}, fns {','.join(part['fns'])})")
        for p in res.payloads:
            if p["kinds"] != ["ok"]:
                continue
            p["c"] = norm_content(p["c"])
            key = json.dumps(p["c"], sort_keys=True)
            if key in seen:
                continue
            seen.add(key)
            p["idx"] = len(out)
            p["seed"] = ctx.seed
            out.append(p)
    if len(out) < 50:
        raise MachineryError(f"codegen family too small: {len(out)} well-formed models")
    return out


def fns_used(c: dict, with_ia: bool = True) -> set[str]:
    """Functions used by the model; initial assignments are evaluated numerically by every translator, so
    with_ia=False gives the functions that actually have to be translated."""
    used = set()
    for d in c["der"].values():
        used.add(d["fn"])
    for r in c["rxn"].values():
        used.add(r["fn"])
        for co in r["st"].values():
            if co["k"] == "calc":
                used.add(co["fn"])
    for v in (list(c["init"].values()) + list(c["pars"].values())) if with_ia else []:
        if v["k"] == "ia":
            used.add(v["fn"])
    return used


def shape(c: dict, order: list[str]) -> dict:
    """Shape features of a model that finding keys refer to."""
    touched = set()
    for r in c["rxn"].values():
        touched |= set(r["st"])
    decl = [o.split(":", 1)[1] for o in order if o.startswith("der:")]
    pos = {n: j for j, n in enumerate(decl)}
    early = any(a in pos and pos[a] > pos[d] for d, v in c["der"].items() for a in v["args"])
    iap = {p for p, v in c["pars"].items() if v["k"] == "ia"}
    users = set()
    for d in c["der"].values():
        users |= set(d["args"])
    for r in c["rxn"].values():
        users |= set(r["args"])
        for co in r["st"].values():
            if co["k"] == "calc":
                users |= set(co["args"])
    return {
        "nvars": len(c["vars"]),
        "untouched": sorted(set(c["vars"]) - touched),
        "derived_declared_early": early,
        "ia_parameter_used": sorted(iap & users),
        "ia_parameter": sorted(iap),
        "computed_coefficient": any(co["k"] == "calc" for r in c["rxn"].values() for co in r["st"].values()),
        "time_dependent": "time" in users,
        "untranslatable": sorted(fns_used(c, with_ia=False) & UNTRANSLATABLE),
    }
