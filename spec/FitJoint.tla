------------------------------ MODULE FitJoint ------------------------------
(***************************************************************************)
(* C20, joint fits (fit.joint_steady_state / joint_time_course /           *)
(* joint_protocol_time_course): several experiments (model, data) share    *)
(* the fitted parameters; the call carries SHARED DEFAULTS (y0, loss_fn)   *)
(* and every experiment may OVERRIDE them.                                 *)
(*                                                                         *)
(* The clause "each residual equals the chosen loss between the data and   *)
(* the model's prediction at the candidate values" for a joint fit:        *)
(*   the settings an experiment is evaluated with = its own override if    *)
(*   present, else the call's shared default  (EffOwn) -- a function of    *)
(*   (defaults, list of overrides) that does not depend on where in the    *)
(*   list the experiment stands;                                           *)
(*   joint residual = SUM over the experiments of Residual(chosen loss,    *)
(*   data_i, prediction_i(candidate, chosen initial value)).               *)
(* TLC checks OrderFree (permuting the experiments permutes the settings   *)
(* and nothing else) for EffOwn and must REJECT the implementation-shaped  *)
(* EffLeaky, in which an override stays in force for the following         *)
(* experiments (a loop-carried default).  Every scenario is emitted with   *)
(* the exact per-experiment residual terms for replay.                     *)
(*                                                                         *)
(* Experiments are single pools x' = A ln2 - j ln2 x (time course, and the *)
(* same under a fixed two-step protocol) or the closed loop x1 <-> x2      *)
(* (steady state depends on the total of the initial values), so every     *)
(* prediction is exactly rational (see FitModels.tla).                     *)
(***************************************************************************)
EXTENDS LossesCore

CONSTANTS Kinds,        \* subset of {"tc", "ptc", "ssc"}
          NExp,         \* number of experiments (2 or 3)
          SettingsRule, \* "own" (the contract) | "leaky" (an override stays in force for later experiments)
                        \* | "writeback" (a call writes the shared defaults INTO the caller's settings objects)
          Rich,         \* TRUE: two candidates
          EmitOn
VARIABLES kind, exps, dflt, jc, ph
jvars == <<kind, exps, dflt, jc, ph>>

NoneR == [n |-> 0, d |-> 0]                 \* "not given"
IsNone(r) == r.d = 0

Two(e) == R(1, 2 ^ e)
Pool(A, j, x0, t) == LET xs == RDiv(A, RInt(j)) IN RAdd(xs, RMul(RSub(x0, xs), Two(j * t)))
RECURSIVE PoolProt(_, _, _, _)
PoolProt(steps, j, x0, t) ==
    IF steps = <<>> \/ t <= 0 THEN x0
    ELSE LET s == Head(steps)
         IN  IF t <= s.dur THEN Pool(s.A, j, x0, t)
             ELSE PoolProt(Tail(steps), j, Pool(s.A, j, x0, s.dur), t - s.dur)

AIn   == RInt(2)
Prot  == <<[dur |-> 1, A |-> RInt(2)], [dur |-> 2, A |-> RInt(0)]>>
Times == <<1, 2, 3>>
JTrue == 1                                   \* every experiment's data are generated with the same true constant
J4True == 1                                  \* the extra drain of a rich model: true constant, candidate (in p0)
J4Cand == 0
JEff(e, j, j4) == IF e.rich THEN j + j4 ELSE j
X2    == RInt(1)                             \* second variable of the loop (never overridden)

\* an experiment: what its model holds, its overrides
ModelInits == {RInt(0), RInt(4)}
Y0Over     == {NoneR, RInt(2)}
LossOver   == {"none", "mae", "mean_squared"}
Y0Dflt     == {NoneR, RInt(1)}
LossDflt   == {"rmse", "mae"}
Cands      == IF Rich THEN {2, 3} ELSE {2}

Pick(over, default, isnone(_)) == IF isnone(over) THEN default ELSE over

\* ---- the settings every experiment is evaluated with ------------------------------------------------
EffOwn(d, os) == [i \in 1..Len(os) |-> [y0 |-> Pick(os[i].y0, d.y0, IsNone),
                                         loss |-> Pick(os[i].loss, d.loss, LAMBDA l : l = "none")]]
\* implementation-shaped wrong instance: the "default" is a variable of the loop over the experiments
RECURSIVE Leak(_, _, _)
Leak(d, os, i) == IF i > Len(os) THEN <<>>
                  ELSE LET cur == [y0 |-> Pick(os[i].y0, d.y0, IsNone), loss |-> Pick(os[i].loss, d.loss, LAMBDA l : l = "none")]
                       IN  <<cur>> \o Leak(cur, os, i + 1)
EffLeaky(d, os) == Leak(d, os, 1)
Eff(d, os) == IF SettingsRule = "leaky" THEN EffLeaky(d, os) ELSE EffOwn(d, os)
\* what the caller's settings objects hold AFTER a call with defaults d (the contract: what the caller wrote)
After(d, os) == IF SettingsRule = "writeback"
                THEN [i \in 1..Len(os) |-> [os[i] EXCEPT !.y0 = Pick(os[i].y0, d.y0, IsNone),
                                                          !.loss = Pick(os[i].loss, d.loss, LAMBDA l : l = "none")]]
                ELSE os

\* ---- state machine: one experiment per step -----------------------------------------------------------
Init == kind \in Kinds /\ exps = <<>> /\ dflt = [y0 |-> NoneR, loss |-> "rmse"] /\ jc = 0 /\ ph = "exps"
\* rich: the experiment's model is the pool / loop WITH AN EXTRA DRAIN (parameter k4, a name only this model has); p0
\* names k4 as well: every fitted name is written into every model that has it, whatever the order of the experiments
AddExp == /\ ph = "exps" /\ Len(exps) < NExp
          /\ \E m \in ModelInits, y \in Y0Over, l \in LossOver, rich \in BOOLEAN :
                /\ (rich => (IsNone(y) /\ l = "none"))
                /\ exps' = Append(exps, [minit |-> m, y0 |-> y, loss |-> l, rich |-> rich])
          /\ UNCHANGED <<kind, dflt, jc, ph>>
Finish == /\ ph = "exps" /\ Len(exps) = NExp
          /\ \E y \in Y0Dflt, l \in LossDflt, c \in Cands : dflt' = [y0 |-> y, loss |-> l] /\ jc' = c
          /\ ph' = "done" /\ UNCHANGED <<kind, exps>>
Next == AddExp \/ Finish

\* ---- predictions ----------------------------------------------------------------------------------------
\* the initial value of the (first) variable the simulation of experiment e starts from, given chosen y0
Start(e, y0) == IF IsNone(y0) THEN e.minit ELSE y0
Table(j, x0) ==
    CASE kind = "tc"  -> << [r \in 1..Len(Times) |-> Pool(AIn, j, x0, Times[r])] >>
      [] kind = "ptc" -> << [r \in 1..Len(Times) |-> PoolProt(Prot, j, x0, Times[r])] >>
      [] kind = "ssc" -> LET tot == RAdd(x0, X2)       \* loop with k1 = j, k2 = 1
                         IN  << <<RDiv(tot, RInt(j + 1)), RDiv(RMul(tot, RInt(j)), RInt(j + 1))>> >>
\* the data of an experiment: generated by the model at the true constant from the start its OWN settings choose
\* (so the contract's residual is 0 at the truth), displaced by 1/2 in the first entry
OwnSet == EffOwn(dflt, exps)
DataOf(i) == LET t == Table(JEff(exps[i], JTrue, J4True), Start(exps[i], OwnSet[i].y0))
             IN  << [r \in 1..Len(t[1]) |-> IF r = 1 THEN RAdd(t[1][r], R(1, 2)) ELSE t[1][r]] >>
PredOf(i, set) == Table(JEff(exps[i], jc, J4Cand), Start(exps[i], set[i].y0))

Term(i, set, scaled) == ResidualT(set[i].loss, DataOf(i), PredOf(i, set), scaled, "dp")
Expected(set) == [i \in 1..Len(exps) |-> [plain |-> Term(i, set, FALSE),
                                           scaled |-> IF Scalable(DataOf(i)) THEN Term(i, set, TRUE) ELSE Undef]]

\* ---- properties ---------------------------------------------------------------------------------------------
Done == ph = "done"
Permute(s, pi) == [i \in 1..Len(s) |-> s[pi[i]]]
\* permuting the experiments permutes their settings and nothing else
OrderFree == Done => \A pi \in Permutations(1..Len(exps)) :
                        Eff(dflt, Permute(exps, pi)) = Permute(Eff(dflt, exps), pi)
\* the two rules agree exactly when no experiment without an override follows one with it
\* (an experiment without an override stands after one whose override differs from the default, none in between)
LeakShape == \E i, k \in 1..Len(exps) :
                 i < k /\ ((/\ ~IsNone(exps[i].y0) /\ exps[i].y0 # dflt.y0
                            /\ \A m \in (i + 1)..k : IsNone(exps[m].y0))
                           \/ (/\ exps[i].loss # "none" /\ exps[i].loss # dflt.loss
                               /\ \A m \in (i + 1)..k : exps[m].loss = "none"))
LeakMatters == (Done /\ LeakShape) => EffOwn(dflt, exps) # EffLeaky(dflt, exps)
\* HISTORIES on one settings list, Call(d1) then Call(dflt): each call's effective settings depend only on THAT call's
\* defaults and the overrides as the caller wrote them, and the caller's settings objects are unchanged by a call
AllDefaults == {[y0 |-> y, loss |-> l] : y \in Y0Dflt \cup {RInt(5)}, l \in LossDflt}
HistoryFree == Done => \A d1 \in AllDefaults :
                  /\ Eff(dflt, After(d1, exps)) = EffOwn(dflt, exps)
                  /\ After(d1, exps) = exps

Emit == (EmitOn /\ Done) =>
    PrintT("@J@" \o ToJson([kind |-> kind, exps |-> exps, dflt |-> dflt, jc |-> jc, jt |-> JTrue, A |-> AIn, prot |-> Prot,
                             times |-> Times, x2 |-> X2,
                             eff |-> Eff(dflt, exps), leakshape |-> LeakShape, j4t |-> J4True, j4c |-> J4Cand,
                             anyrich |-> \E i \in 1..Len(exps) : exps[i].rich,
                             data |-> [i \in 1..Len(exps) |-> DataOf(i)],
                             pred |-> [i \in 1..Len(exps) |-> PredOf(i, Eff(dflt, exps))],
                             exp |-> Expected(Eff(dflt, exps))]) \o "@E@")
=============================================================================
