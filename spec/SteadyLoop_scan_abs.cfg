\* C15: the WRONG scan worker (rel_norm dropped: searches started through the scan entry points always use the absolute
\* norm) on tiny pools judged by the relative norm: TLC must find a row reported steady far (in relative terms) from
\* its steady state / an accumulating row reported steady
CONSTANTS
    MaxSteps = 1000
    Loop = "copy"
    Family = "scan"
    Tier = "quick"
    NanRule = "notconverged"
    FluxRule = "segment"
    ScanNorm = "absolute"
    Reporter = "contract"
    EmitOn = FALSE
INIT Init
NEXT Next
INVARIANT SuccessIsSteady
INVARIANT AccumFails
CHECK_DEADLOCK FALSE
