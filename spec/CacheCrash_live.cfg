\* C19: termination of every uncrashed run (liveness) for the temp+rename design, 2 workers, 2 keys, up to 2 crashes
CONSTANTS
    NKeys = 2
    W = 2
    L = 2
    Design = "temp"
    Policy = "trust"
    RenameAt = "closed"
    BypassOne = FALSE
    MkdirAtBuild = FALSE
    Recover = FALSE
    Forwards = TRUE
    MaxDrop = 0
    LossyNames = FALSE
    Memo = FALSE
    MaxClear = 0
    MaxExtra = 0
    MaxCrash = 2
    Fifo = TRUE
    EmitOn = FALSE
SPECIFICATION Spec
INVARIANT NoRaise
INVARIANT RightResults
INVARIANT Injective
PROPERTY Terminates
CHECK_DEADLOCK TRUE
