\* C19: implementation-shaped wrong instance "the cache directory is created only when the Cache object is built": after ClearCache a run on the same object cannot store: must VIOLATE NoRaise
CONSTANTS
    NKeys = 2
    W = 1
    L = 1
    Design = "temp"
    Policy = "trust"
    RenameAt = "closed"
    BypassOne = FALSE
    MkdirAtBuild = TRUE
    Recover = FALSE
    Forwards = TRUE
    MaxDrop = 0
    LossyNames = FALSE
    Memo = FALSE
    MaxClear = 1
    MaxExtra = 1
    MaxCrash = 0
    Fifo = TRUE
    EmitOn = FALSE
INIT Init
NEXT Next
INVARIANT TypeOK
INVARIANT NoRaise
CHECK_DEADLOCK TRUE
