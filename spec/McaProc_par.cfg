\* C18 procedure machine: parallel on per-task copies (even without taking the initial values back): every property holds in every interleaving
CONSTANTS
    Mode = "par"
    RestorePars = TRUE
    RestoreY0 = FALSE
INIT Init
NEXT Next
INVARIANT ParsRestored
INVARIANT InitsRestored
INVARIANT ResultsRight
INVARIANT ParNeverTouches
CHECK_DEADLOCK FALSE
