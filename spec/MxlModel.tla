---------------------------- MODULE MxlModel ----------------------------
(***************************************************************************)
(* Content and meaning of an MxlPy model (C01, C02, C13; oracle for C03,   *)
(* C07, C08, C11, C12).  Pure operators, no variables.                     *)
(*                                                                         *)
(* A model content c is a record                                           *)
(*   vars : Seq(Name)                     declaration order of variables   *)
(*   init : [Range(vars) -> Val]          initial values                   *)
(*   pars : [Name -> Val]                 parameters                       *)
(*   der  : [Name -> Call]                derived quantities               *)
(*   rxn  : [Name -> [fn, args, st]]      st : [Name -> Coef]              *)
(*   sur  : [Name -> [fns, args, outs, st]]  outs : Seq(Name),             *)
(*                                        fns : Seq(Fn) one per output,    *)
(*                                        st : [out -> [Name -> Coef]]     *)
(*   ro   : [Name -> Call]                readouts                         *)
(*   data : [Name -> value]               data sets (their value)          *)
(* Val  = [k |-> "num", v |-> value] | [k |-> "ia", fn, args]              *)
(* Coef = [k |-> "num", v |-> value] | [k |-> "calc", fn, args]            *)
(* Call = [fn, args]                                                       *)
(*                                                                         *)
(* The value algebra is a parameter: Apply(fn, <<v1..vn>>), VAdd, VMul,    *)
(* VZero.  ModelEval/ModelEdit instantiate it with integers and the named  *)
(* function library FnLib; the translator families with exact rationals.   *)
(***************************************************************************)
EXTENDS Naturals, Sequences, FiniteSets, FiniteSetsExt, Functions, DepGraph

CONSTANTS Apply(_, _), VAdd(_, _), VMul(_, _), VZero

Num(v)  == [k |-> "num", v |-> v]
IsIA(x) == x.k = "ia"

SeqRange(s) == {s[j] : j \in DOMAIN s}
VarSet(c)   == SeqRange(c.vars)

IAVars(c)    == {v \in VarSet(c) : IsIA(c.init[v])}
IAPars(c)    == {p \in DOMAIN c.pars : IsIA(c.pars[p])}
IA(c)        == IAVars(c) \cup IAPars(c)
PlainVars(c) == VarSet(c) \ IAVars(c)
PlainPars(c) == DOMAIN c.pars \ IAPars(c)

Comps(c) == IA(c) \cup DOMAIN c.der \cup DOMAIN c.rxn \cup DOMAIN c.sur

ArgsOf(c, k) ==
    IF k \in IAVars(c) THEN c.init[k].args
    ELSE IF k \in IAPars(c) THEN c.pars[k].args
    ELSE IF k \in DOMAIN c.der THEN c.der[k].args
    ELSE IF k \in DOMAIN c.rxn THEN c.rxn[k].args
    ELSE c.sur[k].args

ProvF(c) == [k \in Comps(c) |-> IF k \in DOMAIN c.sur THEN SeqRange(c.sur[k].outs) ELSE {k}]
ReqF(c)  == [k \in Comps(c) |-> SeqRange(ArgsOf(c, k))]
Base(c)  == PlainPars(c) \cup PlainVars(c) \cup DOMAIN c.data \cup {"time"}

\* C02 on a model: which answers are acceptable at all
OutcomeKinds(c) == GOutcomeKinds(Comps(c), ProvF(c), ReqF(c), Base(c))
MissingOf(c)    == GMissing(Comps(c), ProvF(c), ReqF(c), Base(c))
WellFormed(c)   == OutcomeKinds(c) = {"ok"}

(***************************************************************************)
(* Evaluation = saturation of an environment; order-free by construction   *)
(***************************************************************************)
ArgVals(args, env) == [j \in DOMAIN args |-> env[args[j]]]

\* values contributed by component k (a function name -> value)
ValuesOf(c, k, env) ==
    IF k \in DOMAIN c.sur
    THEN [n \in SeqRange(c.sur[k].outs) |->
            LET j == CHOOSE m \in DOMAIN c.sur[k].outs : c.sur[k].outs[m] = n
            IN Apply(c.sur[k].fns[j], ArgVals(c.sur[k].args, env))]
    ELSE LET call == IF k \in IAVars(c) THEN c.init[k]
                     ELSE IF k \in IAPars(c) THEN c.pars[k]
                     ELSE IF k \in DOMAIN c.der THEN c.der[k] ELSE c.rxn[k]
         IN [n \in {k} |-> Apply(call.fn, ArgVals(call.args, env))]

RECURSIVE Saturate(_, _, _)
Saturate(c, K, env) ==
    LET ready == {k \in K : ReqF(c)[k] \subseteq DOMAIN env /\ ~(ProvF(c)[k] \subseteq DOMAIN env)}
    IN IF ready = {} THEN env
       ELSE LET k == CHOOSE r \in ready : TRUE
                new == ValuesOf(c, k, env)
            IN Saturate(c, K, [n \in DOMAIN env \cup DOMAIN new |->
                                  IF n \in DOMAIN new /\ n \notin DOMAIN env THEN new[n] ELSE env[n]])

PlainEnv(c) ==
    [n \in Base(c) |->
        IF n = "time" THEN VZero
        ELSE IF n \in PlainPars(c) THEN c.pars[n].v
        ELSE IF n \in PlainVars(c) THEN c.init[n].v
        ELSE c.data[n]]

\* everything evaluated once, at time 0, from the declared initial state (C13)
InitEnv(c)       == Saturate(c, Comps(c), PlainEnv(c))
InitialValues(c) == [v \in VarSet(c) |-> InitEnv(c)[v]]

\* derived parameters: derived quantities that depend, through any chain, only on parameters
RECURSIVE StaticFrom(_, _)
StaticFrom(c, S) ==
    LET T == S \cup {d \in DOMAIN c.der : SeqRange(c.der[d].args) \subseteq DOMAIN c.pars \cup S}
    IN IF T = S THEN S ELSE StaticFrom(c, T)
Static(c) == StaticFrom(c, {})

ParameterValues(c) == [p \in PlainPars(c) |-> c.pars[p].v]
\* what stays frozen whatever state is supplied
Frozen(c) == [n \in DOMAIN c.pars \cup Static(c) |-> InitEnv(c)[n]]

Dynamic(c) == Comps(c) \ (IA(c) \cup Static(c))

\* the full table of values at state y (a function VarSet(c) -> value) and time t
ArgsAt(c, y, t) ==
    Saturate(c, Dynamic(c),
             [n \in DOMAIN Frozen(c) \cup VarSet(c) \cup DOMAIN c.data \cup {"time"} |->
                 IF n = "time" THEN t
                 ELSE IF n \in VarSet(c) THEN y[n]
                 ELSE IF n \in DOMAIN c.data THEN c.data[n]
                 ELSE Frozen(c)[n]])

\* the names get_args reports (data sets are not reported)
Reported(c) == (DOMAIN ArgsAt(c, InitialValues(c), VZero)) \ DOMAIN c.data

Readouts(c, a) == [r \in DOMAIN c.ro |-> Apply(c.ro[r].fn, ArgVals(c.ro[r].args, a))]

(***************************************************************************)
(* Fluxes, stoichiometry, right-hand side                                  *)
(***************************************************************************)
SurFluxOwner(c, f) == CHOOSE s \in DOMAIN c.sur : f \in DOMAIN c.sur[s].st
SurFluxes(c)  == UNION {DOMAIN c.sur[s].st : s \in DOMAIN c.sur}
FluxNames(c)  == DOMAIN c.rxn \cup SurFluxes(c)

StoichOf(c, f) == IF f \in DOMAIN c.rxn THEN c.rxn[f].st ELSE c.sur[SurFluxOwner(c, f)].st[f]

CoefAt(coef, a) == IF coef.k = "num" THEN coef.v ELSE Apply(coef.fn, ArgVals(coef.args, a))

\* stoichiometric coefficient of variable v in flux f at the table a (VZero when absent)
N(c, a, v, f) == IF v \in DOMAIN StoichOf(c, f) THEN CoefAt(StoichOf(c, f)[v], a) ELSE VZero

SumFluxes(c, a, v) ==
    FoldSet(LAMBDA f, acc : VAdd(acc, VMul(N(c, a, v, f), a[f])), VZero,
            {f \in FluxNames(c) : v \in DOMAIN StoichOf(c, f)})

\* one derivative per variable, in declaration order; 0 for variables no flux touches
Rhs(c, y, t) ==
    LET a == ArgsAt(c, y, t)
    IN [j \in DOMAIN c.vars |-> SumFluxes(c, a, c.vars[j])]

Fluxes(c, y, t) == LET a == ArgsAt(c, y, t) IN [f \in FluxNames(c) |-> a[f]]

Stoichiometry(c, y, t) ==
    LET a == ArgsAt(c, y, t)
    IN [v \in {w \in VarSet(c) : \E f \in FluxNames(c) : w \in DOMAIN StoichOf(c, f)} |->
          [f \in {g \in FluxNames(c) : v \in DOMAIN StoichOf(c, g)} |-> N(c, a, v, f)]]

(***************************************************************************)
(* Re-declaration: the same content with its variables listed in another   *)
(* order (all other containers are functions, i.e. unordered already).     *)
(***************************************************************************)
Redeclare(c, perm) == [c EXCEPT !.vars = [j \in DOMAIN c.vars |-> c.vars[perm[j]]]]

\* reachability formulation of Static, used as a TLC-checked theorem in ModelEval
RECURSIVE ReachesNonPar(_, _, _)
ReachesNonPar(c, d, seen) ==
    \E n \in SeqRange(c.der[d].args) :
        \/ n \notin DOMAIN c.pars /\ n \notin DOMAIN c.der
        \/ n \in DOMAIN c.der /\ n \notin seen /\ ReachesNonPar(c, n, seen \cup {n})
=============================================================================
