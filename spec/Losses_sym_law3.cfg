\* C20: for the symmetric lawful losses law 3 holds in either argument order (so only the percentage loss decides the order)
CONSTANTS
    LossNames = {"mean_squared", "rmse", "mae", "mean_squared_logarithmic"}
    Orients = {"pd", "dp"}
    N = 2
    Grid = "pos"
    EmitOn = FALSE
INIT Init
NEXT Next
INVARIANT Law3Wired
INVARIANT Law3Swapped
CHECK_DEADLOCK FALSE
