INIT Init
NEXT Next
