\* C10: the implementation-shaped WRONG instance (segment parameters are not re-applied before the lazily
\* filled argument table is computed / coefficients are evaluated): TLC must find a counterexample
CONSTANTS
    MaxLen = 3
    Mode = "stale"
    RawNorm = "copy"
    ResultIds = {2}
    EmitOn = FALSE
INIT Init
NEXT Next
INVARIANT Repeatable

CHECK_DEADLOCK FALSE
