"""C15 helpers: the networks of spec/SteadyLoop.tla rendered into real mxlpy models, the closed-form
cross-check of the rendering (one-step map of the rendered network = the specification's contraction), running
the real steady-state entry points and judging their answers against the specification's prediction."""

from __future__ import annotations

import math
import random

import os

os.environ.setdefault("TQDM_DISABLE", "1")  # scan.* draws progress bars
LN2 = math.log(2.0)
STEP = 100.0  # step size of the convergence loop the exact model is built for (k * 100 = m ln 2)


def rate(m: int) -> float:
    return m * LN2 / STEP


def case_key(c: dict) -> str:
    return "|".join(str(c[k]) for k in ("net", "kind", "m", "m2", "ystar", "dev", "c", "td", "rel", "user", "u", "prior", "entry"))


def scale(c: dict) -> float:
    """Every concentration of the case is the specification's integer / dyadic value times 2^-u."""
    return 2.0 ** -c.get("u", 0)


def y0_of(c: dict) -> list[float]:
    sc = scale(c)
    if c["kind"] == "relax":
        return [float(a + b) * sc for a, b in zip(c["ystar"], c["dev"])]
    if c["kind"] == "lin":
        y = [float(v) * sc for v in c["ystar"]]
        if c["net"] == "feed2":
            y[0] = feed_x0(c)
        return y
    return [float(v) * sc for v in c["dev"]]  # grow


def ystar_of(c: dict) -> list[float]:
    return [float(v) * scale(c) for v in c["ystar"]]


def feed_x0(c: dict) -> float:
    return (c["c"][1] * scale(c) / STEP) / rate(c["m"])


def parameters(c: dict) -> dict[str, float]:
    net, m, m2 = c["net"], c["m"], c["m2"]
    ys, sc = ystar_of(c), scale(c)
    if net == "pool1":
        return {"a": rate(m) * ys[0], "k": rate(m)}
    if net == "forced1":
        # influx a (1 + sin(w t)), w = 2 pi / 100: the periodic orbit sampled at multiples of the period is
        # a / k - a w / (k^2 + w^2); a is chosen such that this sample is the case's ystar
        k, w = rate(m), 2.0 * math.pi / STEP
        return {"a": ys[0] / (1.0 / k - w / (k * k + w * w)), "k": k}
    if net == "const1":  # the pool without outflow: x' = a, a * 100 = c
        return {"a": c["c"][0] * sc / STEP, "k": 0.0}
    if net == "pools2":
        return {"a": rate(m) * ys[0], "b": rate(m) * ys[1], "k": rate(m)}
    if net == "chain2":
        return {"a": rate(m) * ys[0], "k1": rate(m), "k2": rate(m2)}
    if net == "cycle2":
        return {"kf": rate(m - m2), "kr": rate(m2)}
    if net == "feed2":
        return {"a": c["c"][1] * sc / STEP, "k1": rate(m)}
    if net == "grow1":
        return {"k": rate(m)}
    raise ValueError(net)


def forced_influx(a, t):
    return a * (1.0 + math.sin(2.0 * math.pi * t / STEP))


VARS = {"forced1": ["x"], "pool1": ["x"], "const1": ["x"], "pools2": ["x", "y"], "chain2": ["x", "y"], "cycle2": ["x", "y"],
        "feed2": ["x", "y"], "grow1": ["x"]}


def build(c: dict, defaults: list[float] | None = None):
    """The real model of a case; initial values = ``defaults`` (the case's own initial state when None)."""
    from mxlpy import Model, fns

    net = c["net"]
    names = VARS[net]
    init = y0_of(c) if defaults is None else defaults
    m = Model()
    for n, v in zip(names, init):
        m.add_variable(n, float(v))
    for p, v in parameters(c).items():
        m.add_parameter(p, float(v))
    if net == "forced1":
        m.add_reaction("vin", forced_influx, args=["a", "time"], stoichiometry={"x": 1.0})
        m.add_reaction("vout", fns.mass_action_1s, args=["x", "k"], stoichiometry={"x": -1.0})
    elif net in ("pool1", "const1"):
        m.add_reaction("vin", fns.constant, args=["a"], stoichiometry={"x": 1.0})
        m.add_reaction("vout", fns.mass_action_1s, args=["x", "k"], stoichiometry={"x": -1.0})
    elif net == "pools2":
        m.add_reaction("vin_x", fns.constant, args=["a"], stoichiometry={"x": 1.0})
        m.add_reaction("vout_x", fns.mass_action_1s, args=["x", "k"], stoichiometry={"x": -1.0})
        m.add_reaction("vin_y", fns.constant, args=["b"], stoichiometry={"y": 1.0})
        m.add_reaction("vout_y", fns.mass_action_1s, args=["y", "k"], stoichiometry={"y": -1.0})
    elif net == "chain2":
        m.add_reaction("vin", fns.constant, args=["a"], stoichiometry={"x": 1.0})
        m.add_reaction("v1", fns.mass_action_1s, args=["x", "k1"], stoichiometry={"x": -1.0, "y": 1.0})
        m.add_reaction("v2", fns.mass_action_1s, args=["y", "k2"], stoichiometry={"y": -1.0})
    elif net == "cycle2":
        m.add_reaction("vf", fns.mass_action_1s, args=["x", "kf"], stoichiometry={"x": -1.0, "y": 1.0})
        m.add_reaction("vr", fns.mass_action_1s, args=["y", "kr"], stoichiometry={"y": -1.0, "x": 1.0})
    elif net == "feed2":
        m.add_reaction("vin", fns.constant, args=["a"], stoichiometry={"x": 1.0})
        m.add_reaction("v1", fns.mass_action_1s, args=["x", "k1"], stoichiometry={"x": -1.0, "y": 1.0})
    elif net == "grow1":
        m.add_reaction("g", fns.mass_action_1s, args=["x", "k"], stoichiometry={"x": 1.0})
    else:
        raise ValueError(net)
    return m


def other_defaults(c: dict) -> list[float]:
    """Initial values of the model when the case's initial state is supplied by the user instead."""
    return [float(v) + 5.0 * scale(c) for v in y0_of(c)]


MAXSTEPS = 1000


def forced_cases() -> list[dict]:
    """The family SteadyLoop's Family = "forced" (TLC shows that the loop declares a steady state on it).  The
    PROPERTY's prediction is failure: the network has no steady state (its solution is periodic)."""
    out = []
    for m in (1, 2):
        for td in (128, 1000000):
            for rel in (False, True):
                c = {"net": "forced1", "kind": "relax", "m": m, "m2": 0, "ystar": [10], "dev": [3], "c": [0], "td": td,
                     "rel": rel, "user": False, "u": 0, "prior": "none", "entry": "simulator"}
                out.append({"case": c, "key": case_key(c), "outcome": "fail", "slo": MAXSTEPS, "shi": MAXSTEPS,
                            "fragile": False, "undefined": False, "origin": "forced"})
    return out


def crosscheck_rendering(c: dict) -> str | None:
    if c["net"] == "forced1":       # not autonomous: checked against a high-accuracy solve of its closed form
        return crosscheck_forced(c)
    return _crosscheck_rendering(c)


def crosscheck_forced(c: dict) -> str | None:
    from scipy.integrate import solve_ivp

    m = build(c)
    p = parameters(c)

    def f(t, y):
        return [forced_influx(p["a"], t) - p["k"] * y[0]]

    y0 = y0_of(c)[0]
    sol = solve_ivp(f, (0.0, STEP), [y0], rtol=1e-10, atol=1e-12)
    want = c["ystar"][0] + c["dev"][0] / 2 ** c["m"]
    if abs(sol.y[0, -1] - want) > 1e-6:
        return f"rendered forced1 maps {y0} to {sol.y[0, -1]} over one period, the specification says {want}"
    got = float(m.get_right_hand_side({"x": y0}, time=25.0)["x"])
    if abs(got - f(25.0, [y0])[0]) > 1e-12:
        return "rendered forced1 right-hand side differs from its closed form"
    return None


def _crosscheck_rendering(c: dict) -> str | None:
    """Spec validation: the rendered network's exact flow over one step is the specification's map.

    The networks are linear, so the flow is y* + expm(100 J) (y - y*) with the Jacobian J read off the real
    model's right-hand side; it is compared with  y* + 2^-m (y - y*)  /  y + c  /  2^m y  on the case's state."""
    import numpy as np
    from scipy.linalg import expm

    m = build(c)
    names = VARS[c["net"]]
    n = len(names)

    def rhs(y):
        return np.array(m.get_right_hand_side(dict(zip(names, [float(v) for v in y])), time=0.0).loc[names], dtype=float)

    y0 = np.array(y0_of(c), dtype=float)
    f0 = rhs(np.zeros(n))
    jac = np.array([rhs(np.eye(n)[j]) - f0 for j in range(n)]).T
    # exact flow of y' = J y + f0 over one step: augmented matrix exponential
    aug = np.zeros((n + 1, n + 1))
    aug[:n, :n] = jac
    aug[:n, n] = f0
    flow = expm(STEP * aug)
    y1 = flow[:n, :n] @ y0 + flow[:n, n]
    if c["kind"] == "relax":
        ys = np.array(ystar_of(c), dtype=float)
        want = ys + (y0 - ys) / 2 ** c["m"]
        if np.abs(rhs(ys)).max() > 1e-12:
            return f"rendered {c['net']} is not stationary at the specification's steady state: {rhs(ys)}"
    elif c["kind"] == "lin":
        want = y0 + np.array(c["c"], dtype=float) * scale(c)
    else:
        want = y0 * 2 ** c["m"]
    if np.abs(y1 - want).max() > 1e-9 * max(1.0, np.abs(want).max()):
        return f"rendered {c['net']} maps {y0} to {y1}, the specification says {want}"
    return None


# ---------------------------------------------------------------------------------------------------
# running the real code
# ---------------------------------------------------------------------------------------------------
def first_case(c: dict) -> dict:
    """History "ssupd": the network the FIRST steady-state search runs on -- same rates, influxes such that its
    steady state is this case's initial state; it starts 3 units above that steady state."""
    ys1 = [a + b for a, b in zip(c["ystar"], c["dev"])]
    return dict(c, ystar=ys1, dev=[3] * len(ys1), prior="none")


def user_y0(c: dict) -> dict[str, float]:
    """User-supplied initial values are a MAPPING: its key order is the caller's business (sorted, read from a file,
    ...), not the model's declaration order.  Two of three cases hand the keys over in reverse declaration order."""
    names = VARS[c["net"]]
    pairs = list(zip(names, y0_of(c)))
    if (c["m"] + c["td"] + sum(c["dev"]) + sum(c["c"])) % 3 != 0:
        pairs.reverse()
    return dict(pairs)


def _simulator(c: dict):
    from mxlpy import Simulator

    names = VARS[c["net"]]
    if c["user"]:
        model = build(c, other_defaults(c))
        return model, Simulator(model, y0=user_y0(c))
    model = build(c)
    return model, Simulator(model)


def run_case(c: dict) -> dict:
    """Simulator(model[, y0]) [history] .simulate_to_steady_state(tolerance=, rel_norm=).get_result() projected.

    Whatever the library raises while the history is played or the result is observed is the library's ANSWER to
    this case (judged as a disagreement), never a failure of the harness."""
    try:
        return _run_case(c)
    except LibraryRaised as e:
        return {"kind": "library-exception", "phase": e.phase, "exc": e.exc, "message": e.message}


class LibraryRaised(Exception):
    def __init__(self, phase: str, err: BaseException):
        super().__init__(phase)
        self.phase, self.exc, self.message = phase, type(err).__name__, str(err)[:300]


class _phase:
    """with _phase("..."): library calls -- an exception inside is re-raised as LibraryRaised."""

    def __init__(self, name: str):
        self.name = name

    def __enter__(self):
        return self

    def __exit__(self, et, ev, tb):
        if ev is not None and not isinstance(ev, LibraryRaised) and isinstance(ev, Exception):
            raise LibraryRaised(self.name, ev) from ev
        return False


def _run_case(c: dict) -> dict:
    import numpy as np
    from mxlpy.simulation import Simulation

    names = VARS[c["net"]]
    tol = 1.0 / c["td"]
    obs: dict = {}
    prior = c.get("prior", "none")
    segcases = [c]
    if prior == "ssupd":
        # steady state on the first network, then the influx parameters are updated to the case's own
        c1 = first_case(c)
        segcases = [c1, c]
        model, sim = _simulator(c1)
        with _phase("first steady-state search"):
            sim.simulate_to_steady_state(tolerance=tol, rel_norm=bool(c["rel"]))
            first = sim.get_result().value
        if isinstance(first, Exception):
            return {"kind": "first-search-failed", "detail": repr(first)[:200]}
        with _phase("update_parameters"):
            sim.update_parameters(parameters(c))
    elif prior == "simupdvar":
        # simulate from other initial values, then set the variables to the case's initial state
        names = VARS[c["net"]]
        model = build(c, other_defaults(c))
        with _phase("Simulator"):
            from mxlpy import Simulator

            sim = Simulator(model)
    else:
        model, sim = _simulator(c)
    if prior in ("sim", "simclear", "protocol", "simupdvar"):
        # the history of the case: an ordinary simulation over one loop step length succeeds first
        with _phase("simulation before the search"):
            if prior == "protocol":
                from mxlpy import make_protocol

                sim.simulate_protocol(make_protocol([(STEP, parameters(c))]), time_points_per_step=4)
            else:
                sim.simulate(STEP, steps=4)
            before = sim.get_result().value
            if isinstance(before, Exception) or float(before.variables.index[-1]) != STEP:
                return {"kind": "prior-failed", "detail": repr(before)[:200]}
            obs["prior_rows"] = int(len(before.variables))
            if prior == "simclear":
                sim.clear_results()
            if prior == "simupdvar":
                sim.update_variables(dict(zip(VARS[c["net"]], y0_of(c))))
    with _phase("simulate_to_steady_state / get_result"):
        res = sim.simulate_to_steady_state(tolerance=tol, rel_norm=bool(c["rel"])).get_result()
        val = res.value
    if isinstance(val, Exception):
        obs["kind"] = "error"
        obs["exc"] = type(val).__name__
        raised = False
        try:
            res.unwrap_or_err()
        except Exception:  # noqa: BLE001
            raised = True
        obs["unwrap_raises"] = raised
        again = sim.get_result().value
        obs["again"] = "error" if isinstance(again, Exception) else "value"
        return obs
    if not isinstance(val, Simulation):
        return {"kind": "other", "type": type(val).__name__}
    obs["kind"] = "value"
    with _phase("reading the steady-state result"):
        return _observe(c, val, model, obs, prior, segcases)


def _observe(c: dict, val, model, obs: dict, prior: str, segcases: list) -> dict:
    import numpy as np

    names = VARS[c["net"]]
    var = val.get_variables(include_derived_variables=False, include_readouts=False, include_surrogate_variables=False)
    obs["rows"] = int(len(var))
    obs["segments"] = len(val.raw_parameters)
    obs["t"] = float(var.index[-1])
    obs["state"] = [float(var.iloc[-1][n]) for n in names]
    obs["new_y0"] = [float(val.get_new_y0()[n]) for n in names]
    obs["finite"] = bool(np.isfinite(var.to_numpy(dtype=float)).all())
    # every steady-state point of the result (the last row; with history "ssupd" both rows), with the fluxes and
    # derivatives REPORTED for it, and what a fresh model holding that segment's parameters says at that state
    rhs = val.get_right_hand_side()
    flx = val.fluxes
    st = model.get_stoichiometries()
    rows = list(range(len(var))) if prior == "ssupd" else [len(var) - 1]
    if prior == "ssupd" and len(var) != 2:
        rows = [len(var) - 1]
    pts = []
    for j, r in enumerate(rows):
        sc_ = segcases[j] if prior == "ssupd" and len(rows) == 2 else c
        state = {n: float(var.iloc[r][n]) for n in names}
        fl = {k_: float(v) for k_, v in flx.iloc[r].items()}
        fresh = build(sc_)
        want = {k_: float(v) for k_, v in fresh.get_fluxes(variables=state, time=float(var.index[r])).items()}
        pts.append({"t": float(var.index[r]), "state": [state[n] for n in names], "fluxes": fl, "closed_form": want,
                    "rhs": [float(rhs.iloc[r][n]) for n in names],
                    "nv": [float(sum(st.loc[n, q] * fl[q] for q in st.columns)) if n in st.index else 0.0 for n in names]})
    obs["points"] = pts
    return obs


def allowed_deviation(c: dict) -> list[float]:
    tol = 1.0 / c["td"]
    k = max(1, 2 ** c["m"] - 1)
    sc = scale(c)
    out = []
    for ys, dv in zip(c["ystar"], c["dev"]):
        bound = tol * (ys + abs(dv)) * sc / k if c["rel"] else tol / k
        out.append(1.01 * bound + integrator_slack(c, ys))
    return out


def integrator_slack(c: dict, ys: float) -> float:
    """Additive allowance for the integrator (rtol 1e-6 in the steady-state code path): 1e-6 max(1, |y*|) + 1e-9 for
    concentrations of order one; for the tiny-concentration family (u >= 16) the same, times the scale."""
    sc = scale(c)
    if c.get("u", 0) >= 16:
        return (1e-6 * max(1.0, abs(ys)) + 1e-9) * sc
    return 1e-6 * max(1.0, abs(ys) * sc) + 1e-9


def judge_point(c: dict, pt: dict, which: str) -> dict | None:
    """One reported steady-state point against its segment's case: state, reported fluxes, balance."""
    allowed = allowed_deviation(c)
    for i, (ys, a) in enumerate(zip(ystar_of(c), allowed)):
        if abs(pt["state"][i] - ys) > a:
            return {"what": "returned state is not the steady state", "point": which, "component": i, "analytic": ys,
                    "observed_value": pt["state"][i], "allowed_deviation": a}
    for name, want in pt["closed_form"].items():
        got = pt["fluxes"].get(name)
        if got is None or abs(got - want) > 1e-9 * max(1.0, abs(want)):
            return {"what": "reported flux is not the model's flux at that point under its segment's parameters",
                    "point": which, "flux": name, "closed_form": want, "reported": got}
    kmax = (c["m"] + c["m2"]) * LN2 / STEP
    lim = kmax * sum(allowed) + 1e-12
    for i in range(len(c["ystar"])):
        if abs(pt["rhs"][i]) > lim or abs(pt["nv"][i]) > lim:
            return {"what": "fluxes do not balance at the reported steady state", "point": which, "component": i,
                    "rhs": pt["rhs"][i], "N.v": pt["nv"][i], "limit": lim}
    return None


def judge(pred: dict, obs: dict) -> dict | None:
    """pred: {case, outcome in ok|fail, slo, shi, undefined}. None = conforms."""
    c = pred["case"]
    prior = c.get("prior", "none")
    if obs["kind"] == "library-exception":
        return {"what": f"the library raised during: {obs['phase']}", "exc": obs["exc"], "message": obs["message"],
                "observed": obs}
    if obs["kind"] == "prior-failed":
        return {"what": "the ordinary simulation before the steady-state search failed", "observed": obs}
    if obs["kind"] == "first-search-failed":
        return {"what": "failure reported for a network with a stable steady state (first search of the history)",
                "observed": obs}
    if pred["outcome"] == "fail":
        if obs["kind"] == "error":
            if not obs["unwrap_raises"] or obs["again"] != "error":
                return {"what": "failure value is not stable / does not raise on unwrap", "observed": obs}
            return None
        if not pred.get("undefined"):
            return {"what": "a state is presented as steady for a network without steady state", "observed": obs}
        # the convergence norm of this network is undefined in every window (an identically-zero variable under the
        # relative norm): the specified loop can only fail, but the network HAS a steady state -- a success is
        # accepted if and only if it is that steady state (an undefined norm must not be taken for convergence)
    elif obs["kind"] != "value":
        return {"what": "failure reported for a network with a stable steady state", "observed": obs}
    held = prior in ("sim", "protocol", "simupdvar")
    want_rows = 1 + (obs.get("prior_rows", 0) if held else 0) + (1 if prior == "ssupd" else 0)
    if not obs["finite"] or obs["rows"] != want_rows:
        return {"what": "steady-state result is not the held rows plus one finite state", "expected_rows": want_rows,
                "observed": obs}
    if held and not obs["t"] > STEP:
        return {"what": "the last row is not a point of the steady-state search", "observed": obs}
    if obs["segments"] != (2 if held or prior == "ssupd" else 1):
        return {"what": "number of segments", "observed": obs}
    if obs["new_y0"] != obs["state"]:
        return {"what": "get_new_y0 differs from the returned state", "observed": obs}
    cases = [first_case(c), c] if prior == "ssupd" else [c]
    for j, (cj, pt) in enumerate(zip(cases, obs["points"])):
        d = judge_point(cj, pt, f"{j + 1}/{len(cases)}")
        if d is not None:
            d["obs"] = obs
            return d
    return None


def after_two_steps(c: dict) -> list[float]:
    """The exact state after two loop steps (what the aliasing loop of the pinned commit returned)."""
    sc = scale(c)
    if c["kind"] == "lin":
        y = y0_of(c)
        return [y[i] + 2 * c["c"][i] * sc for i in range(len(y))]
    if c["kind"] == "relax":
        return [(ys + dv / 4 ** c["m"]) * sc for ys, dv in zip(c["ystar"], c["dev"])]
    return [dv * 4 ** c["m"] * sc for dv in c["dev"]]


def classify(pred: dict, detail: dict) -> str | None:
    """Finding key from the shape of the failing case: the exact loop does not declare at step 2, yet the answer
    is the state after exactly two steps at t = 200."""
    obs = detail.get("observed")
    if not isinstance(obs, dict):
        obs = detail.get("obs")
    if pred["case"]["net"] == "forced1" and pred["outcome"] == "fail" and isinstance(obs, dict) \
            and obs.get("kind") == "value":
        # shape: time-dependent forcing whose period divides the sampling interval of the search
        return "periodic-forcing-commensurate"
    if not isinstance(obs, dict) or obs.get("kind") != "value" or obs.get("t") != 2 * STEP:
        return None
    if pred["outcome"] == "ok" and pred["slo"] <= 2 <= pred["shi"]:
        return None
    if pred["case"].get("prior", "none") != "none":
        return None
    want = after_two_steps(pred["case"])
    if all(abs(a - b) <= 1e-4 * max(1.0, abs(b)) for a, b in zip(obs["state"], want)):
        return "two-step-exit"
    return None


# ---------------------------------------------------------------------------------------------------
# scan rows
# ---------------------------------------------------------------------------------------------------
def run_scan(group: dict) -> dict:
    """scan.steady_state over rows that are pool1 / const1 cases: parameters a, k per row (and the initial value when
    it is scanned), and the same rows through the direct Simulator call under the same options."""
    try:
        return _run_scan(group)
    except LibraryRaised as e:
        return {"kind": "library-exception", "phase": e.phase, "exc": e.exc, "message": e.message}


def _run_scan(group: dict) -> dict:
    import numpy as np
    import pandas as pd
    from mxlpy import Simulator, scan

    cases = group["cases"]
    base = build(cases[0], [5.0 * scale(cases[0])])
    rows = [parameters(c) for c in cases]
    to_scan = pd.DataFrame({"a": [r["a"] for r in rows], "k": [r["k"] for r in rows]})
    if group["scan_y0"]:
        to_scan["x"] = [y0_of(c)[0] for c in cases]
        y0 = None
    else:
        y0 = {"x": y0_of(cases[0])[0]}
    with _phase("scan.steady_state"):
        out = scan.steady_state(base, to_scan=to_scan, y0=y0, parallel=False, rel_norm=bool(group["rel"]))
        var = out.variables
        flx = out.fluxes
        obs = {"kind": "rows", "index_len": int(len(var)),
               "x": [float(v) for v in var["x"].to_numpy()],
               "flux_net": [float(flx.iloc[i]["vin"] - flx.iloc[i]["vout"]) for i in range(len(flx))]}
    direct = []
    with _phase("direct Simulator call for a scan row"):
        for c in cases:
            v = Simulator(build(c)).simulate_to_steady_state(rel_norm=bool(group["rel"])).get_result().value
            direct.append(float("nan") if isinstance(v, Exception) else float(v.get_new_y0()["x"]))
    obs["direct"] = direct
    return obs


def judge_scan(group: dict, preds: list[dict], obs: dict) -> dict | None:
    if obs["kind"] == "library-exception":
        return {"what": f"the library raised during: {obs['phase']}", "exc": obs["exc"], "message": obs["message"]}
    if obs["index_len"] != len(preds):
        return {"what": "scan row count", "expected": len(preds), "observed": obs["index_len"]}
    for i, p in enumerate(preds):
        c = p["case"]
        x, dx = obs["x"][i], obs["direct"][i]
        # the scan row and the direct call under the same options (default tolerance, same norm mode) must agree
        if (x != x) != (dx != dx) or (x == x and abs(x - dx) > 1e-9 * max(abs(x), abs(dx)) + 1e-300):
            return {"what": "scan row differs from the direct Simulator call under the same options", "row": i,
                    "scan": x, "direct": dx, "rel_norm": bool(group["rel"])}
        if p["outcome"] == "fail":
            # (fluxes of the placeholder are computed from NaN states: a flux that does not depend on a variable is
            # finite there, so only the state row is required to be NaN)
            if x == x:
                return {"what": "scan row of a network without steady state is not NaN", "row": i, "x": x, "t": None}
            continue
        if x != x:
            return {"what": "scan row of a network with a steady state is NaN", "row": i}
        a = allowed_deviation(c)[0]
        if abs(x - c["ystar"][0] * scale(c)) > a:
            return {"what": "scan row is not the steady state", "row": i, "analytic": c["ystar"][0] * scale(c),
                    "observed": x, "allowed_deviation": a, "rel_norm": bool(group["rel"])}
        if abs(obs["flux_net"][i]) > rate(c["m"]) * a + 1e-12 * scale(c):
            return {"what": "scan row fluxes do not balance", "row": i, "net": obs["flux_net"][i]}
    return None


# ---------------------------------------------------------------------------------------------------
# code -> spec: cases proposed by the harness, decided by TLC (oracle mode)
# ---------------------------------------------------------------------------------------------------
def random_case(rnd: random.Random) -> dict:
    td = rnd.choice([50, 128, 300, 1024, 4096, 100000, 1000000])
    rel = rnd.random() < 0.5
    user = rnd.random() < 0.5
    net = rnd.choice(["pool1", "pool1", "pools2", "chain2", "cycle2", "const1", "feed2", "grow1"])

    def case(kind, m, m2, ystar, dev, c):
        return {"net": net, "kind": kind, "m": m, "m2": m2, "ystar": ystar, "dev": dev, "c": c, "td": td,
                "rel": rel, "user": user, "u": rnd.choice([0, 0, 3, 6]),
                "prior": rnd.choice(["none", "none", "sim", "simclear", "protocol", "simupdvar"]), "entry": "simulator"}

    def history(c):
        """steady state / parameter update / steady state, where the family is exact for it"""
        ok = all(a + b >= 1 and b != 0 for a, b in zip(c["ystar"], c["dev"]))
        if ok and c["u"] == 0 and rnd.random() < 0.3:
            c["prior"] = "ssupd"
        return c

    if net == "pool1":
        ys = rnd.randint(1, 31)
        return history(case("relax", rnd.randint(1, 4), 0, [ys], [rnd.randint(-ys, 32)], [0]))
    if net == "pools2":
        ys = [rnd.randint(1, 31), rnd.randint(1, 31)]
        dev = [rnd.randint(-ys[0], 32), rnd.randint(-ys[1], 32)]
        if rnd.random() < 0.25:          # a pool that is never fed and starts empty: identically zero
            ys[1], dev[1] = 0, 0
        return history(case("relax", rnd.randint(1, 4), 0, ys, dev, [0, 0]))
    if net == "chain2":
        m, m2 = rnd.choice([(1, 2), (1, 3), (2, 3), (2, 4), (1, 4), (3, 4)])
        xs = rnd.choice([12, 24])
        ys = xs * m // m2
        while True:
            d = rnd.randint(-6, 8)
            dev = [d * (m2 - m), d * m]
            if all(abs(v) <= 32 for v in dev) and xs + dev[0] >= 0 and ys + dev[1] >= 0:
                break
        return case("relax", m, m2, [xs, ys], dev, [0, 0])
    if net == "cycle2":
        mf, mr = rnd.choice([(1, 1), (1, 2), (2, 1), (3, 1), (1, 3), (2, 2)])
        tot = rnd.choice([12, 24])
        ys = [tot * mr // (mf + mr), tot * mf // (mf + mr)]
        d = rnd.randint(-ys[0], ys[1])
        return case("relax", mf + mr, mr, ys, [d, -d], [0, 0])
    # accumulating / growing; loose relative tolerances are left to the dedicated TLC run
    if rel and td < 1000 + 40:
        td = rnd.choice([4096, 100000, 1000000])
    # ... and so is accumulation by less than the tolerance per step: scaled-down accumulation only against
    # tolerances far below the increment
    small = rnd.choice([0, 0, 3, 6]) if td >= 4096 else 0
    if net == "const1":
        return dict(case("lin", 0, 0, [rnd.randint(0, 8)], [0], [rnd.randint(1, 5)]), td=td, u=small)
    if net == "feed2":
        return dict(case("lin", rnd.randint(1, 3), 0, [1, rnd.randint(1, 8)], [0, 0], [0, rnd.randint(1, 4)]), td=td,
                    u=small)
    return dict(case("grow", rnd.choice([1, 1, 2, 3, 4]), 0, [0], [rnd.randint(1, 4)], [0]), td=td, u=small)
