\* C20 gen: every pair of the grid with the value of every shipped loss (spec -> code value conformance)
CONSTANTS
    LossNames = {"all"}
    Orients = {"pd"}
    N = 2
    Grid = "full"
    EmitOn = TRUE
INIT Init
NEXT Next
INVARIANT Emit
CHECK_DEADLOCK FALSE
