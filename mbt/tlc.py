"""Running TLC and reading what it says.

All TLC output of interest to the harness is printed by the specs as
``PrintT("@J@" \\o ToJson(x) \\o "@E@")``; TLC prints a TLA+ string in quotes with ``"``
escaped, so a JSON payload is recovered with ``json.loads('"' + body + '"')`` followed by a
second ``json.loads``.  Lines of several workers may interleave, therefore the payloads are
located with a regular expression over the whole output, not line by line.
"""

from __future__ import annotations

import json
import os
import re
import shutil
import subprocess
import time
from dataclasses import dataclass, field
from pathlib import Path

SPEC_DIR = Path(__file__).resolve().parent.parent / "spec"
JAR_CP = "/opt/veriftools/tla/tla2tools.jar:/opt/veriftools/tla/CommunityModules-deps.jar"

_PAYLOAD = re.compile(r'"@J@(.*?)@E@"', re.S)
_STATES = re.compile(r"(\d+) states generated, (\d+) distinct states found, (\d+) states left on queue")
_SIMSTATES = re.compile(r"(\d+) states checked")
_DEPTH = re.compile(r"The depth of the complete state graph search is (\d+)")
_COVER = re.compile(r"<(\w+) line (\d+), col \d+ to line \d+, col \d+ of module (\w+)>: (\d+):(\d+)")
_VIOLATED = re.compile(r"Error: Invariant (\w+) is violated|Error: Action property (\w+) is violated|"
                       r"Error: Temporal properties were violated|Error: Deadlock reached")


class MachineryError(Exception):
    """The verification machinery itself failed (never reported as a property violation)."""


@dataclass
class TlcResult:
    cmd: list[str]
    rc: int
    out: str
    wall_s: float
    generated: int = 0
    distinct: int = 0
    depth: int = 0
    payloads: list = field(default_factory=list)
    coverage: dict = field(default_factory=dict)  # action -> (distinct, taken)
    violated: str | None = None

    @property
    def ok(self) -> bool:
        return self.rc == 0 and self.violated is None


def decode_payload(body: str):
    try:
        return json.loads(json.loads('"' + body + '"'))
    except json.JSONDecodeError as e:  # pragma: no cover
        raise MachineryError(f"cannot decode TLC payload: {body[:200]!r}: {e}") from e


def decode_payloads(out: str, raw: bool = False) -> list:
    """raw=True keeps every payload as the undecoded text (decode_payload turns one into a value): large families are
    then decoded inside the worker that replays them instead of being held as Python objects by the parent."""
    if raw:
        return [m.group(1) for m in _PAYLOAD.finditer(out)]
    return [decode_payload(m.group(1)) for m in _PAYLOAD.finditer(out)]


def run_tlc(
    module: str,
    cfg: str | Path,
    *,
    work: Path,
    tag: str,
    workers: int | str = 16,
    simulate: str | None = None,
    depth: int | None = None,
    seed: int | None = None,
    coverage: bool = False,
    env: dict | None = None,
    timeout: int = 3600,
    spec_dir: Path | None = None,
    extra_lib: list[Path] | None = None,
    jvm: list[str] | None = None,
    dfs: bool = False,
    expect_violation: bool = False,
    raw_payloads: bool = False,
) -> TlcResult:
    """Run TLC on ``module`` (a .tla in spec_dir) with config ``cfg``."""
    spec_dir = Path(spec_dir or SPEC_DIR)
    meta = work / f"meta_{tag}"
    if meta.exists():
        shutil.rmtree(meta)
    meta.mkdir(parents=True)
    libs = [str(SPEC_DIR)] + [str(p) for p in (extra_lib or [])]
    java = ["java", "-XX:+UseParallelGC", "-Xss16m", f"-DTLA-Library={os.pathsep.join(libs)}"]
    if dfs:
        java.append("-Dtlc2.tool.queue.IStateQueue=StateDeque")
    java += jvm or []
    cmd = java + ["-cp", JAR_CP, "tlc2.TLC", "-workers", str(workers), "-metadir", str(meta),
                  "-noGenerateSpecTE", "-config", str(cfg)]
    if coverage:
        cmd += ["-coverage", "1"]
    if simulate is not None:
        cmd += ["-simulate", simulate]
    if depth is not None:
        cmd += ["-depth", str(depth)]
    if seed is not None:
        cmd += ["-seed", str(seed)]
    cmd.append(module)
    e = dict(os.environ)
    e.update({k: str(v) for k, v in (env or {}).items()})
    t0 = time.time()
    try:
        p = subprocess.run(cmd, cwd=spec_dir, env=e, capture_output=True, text=True, timeout=timeout)
    except subprocess.TimeoutExpired as ex:
        raise MachineryError(f"TLC timed out after {timeout}s: {module} {cfg}") from ex
    finally:
        shutil.rmtree(meta, ignore_errors=True)
    out = p.stdout + p.stderr
    res = TlcResult(cmd=cmd, rc=p.returncode, out=out, wall_s=time.time() - t0)
    m = None
    for m in _STATES.finditer(out):
        pass
    if m:
        res.generated, res.distinct = int(m.group(1)), int(m.group(2))
    else:
        m = None
        for m in _SIMSTATES.finditer(out):
            pass
        if m:
            res.generated = res.distinct = int(m.group(1))
    m = _DEPTH.search(out)
    if m:
        res.depth = int(m.group(1))
    for m in _COVER.finditer(out):
        res.coverage[m.group(1)] = (int(m.group(4)), int(m.group(5)))
    m = _VIOLATED.search(out)
    if m:
        res.violated = m.group(1) or m.group(2) or m.group(0)
    res.payloads = decode_payloads(out, raw=raw_payloads)
    (work / f"tlc_{tag}.log").write_text(out[-200000:] if len(out) > 400000 else out)
    if not expect_violation and not res.ok:
        # distinguish spec-level property failure from tool failure: both are machinery failures
        # for the purposes of a check (the code is never judged by a spec that TLC rejects)
        tail = "\n".join(out.strip().splitlines()[-40:])
        raise MachineryError(f"TLC failed on {module} / {Path(cfg).name} (rc={p.returncode}, violated={res.violated}):\n{tail}")
    return res


def fn_to_dict(x):
    """TLC prints an empty function as [] and 1..n functions as arrays; normalise to dict when the caller expects a mapping."""
    if isinstance(x, list):
        if not x:
            return {}
        return {str(i + 1): v for i, v in enumerate(x)}
    return x
