"""C15 -- steady-state results are steady states; absence is reported as failure.

spec      : spec/SteadyLoop.tla -- the convergence loop (step 100, <= 1000 steps, ||y2 - y1|| or relative norm
            < tol) over an exact contraction model (dyadic rationals): relaxing linear networks
            y -> y* + 2^-m (y - y*), accumulating networks y -> y + c, growth y -> 2^m y
TLC (mc)  : over the grid of networks x m x y0 x y* x tolerance x norm mode x default/user-supplied y0:
            SuccessIsSteady (success => |y - y*| < tol r / (1 - r), relative: times |y1|), AccumFails,
            RelaxConverges, Plumbing (error value / NaN row), GridIsOK (the integer shortcuts are exact).
            expect_violation: the aliasing loop of the pinned commit (success far from y*; x' = c "steady"),
            and the relative criterion with tol > 1 / MaxSteps on accumulation (limit of the claim).
spec->code: every case rendered into a real model (the rendering is cross-checked: expm(100 J) = the spec's map),
            Simulator(model[, y0]).simulate_to_steady_state(tolerance, rel_norm).get_result(): success/failure as
            predicted, returned state within the proven bound of the exact steady state (+ 1e-6 rel integrator
            tolerance), N.v ~ 0, failure is an error value; scan.steady_state rows (NaN for failing networks)
code->spec: random cases drawn by the harness are decided by TLC (Family = "file", same module, same invariants)
            and compared with the real runs
"""

from __future__ import annotations

import json
import random
from concurrent.futures import ThreadPoolExecutor

from ..core import Ctx, Report, pmap
from ..tlc import MachineryError
from .. import steadykit as sk


def _norm_case(c: dict) -> dict:
    c = dict(c)
    for k in ("ystar", "dev", "c"):
        c[k] = [int(v) for v in c[k]]
    c.setdefault("u", 0)
    c.setdefault("prior", "none")
    c.setdefault("entry", "simulator")
    return c


def predictions(payloads: list) -> list[dict]:
    """Group the terminal states TLC printed by case: outcome (must be unique), window of declaring steps."""
    by: dict = {}
    for p in payloads:
        c = _norm_case(p["case"])
        k = sk.case_key(c)
        e = by.setdefault(k, {"case": c, "outcomes": set(), "steps": [], "fragile": bool(p["fragile"]), "undefined": bool(p["undefined"]),
                              "result": set(), "scan": set()})
        e["outcomes"].add(p["outcome"])
        e["steps"].append(p["last"])      # steps of 100 the network has made at the last row (history included)
        e["result"].add(p["result"])
        e["scan"].add(p["scan"])
    out = []
    for k, e in by.items():
        if len(e["outcomes"]) != 1:
            raise MachineryError(f"the specification does not determine the outcome of {k}: {e['outcomes']}")
        oc = e["outcomes"].pop()
        if (oc == "ok") != (e["result"] == {"value"}) or (oc == "fail") != (e["scan"] == {"nan"}):
            raise MachineryError(f"plumbing prediction inconsistent for {k}")
        out.append({"case": e["case"], "key": k, "outcome": oc, "slo": min(e["steps"]), "shi": max(e["steps"]),
                    "fragile": e["fragile"], "undefined": e["undefined"]})
    return out


def _check(pred: dict):
    try:
        bad = sk.crosscheck_rendering(pred["case"])
        if bad:
            return {"what": "machinery", "message": bad}
        obs = sk.run_case(pred["case"])
        d = sk.judge(pred, obs)
        if d is None:
            return {"ok": True, "t": obs.get("t"), "kind": obs["kind"]}
        return d
    except Exception as e:  # noqa: BLE001
        import traceback

        return {"what": "exception", "exc": type(e).__name__, "message": str(e)[:300],
                "trace": traceback.format_exc()[-800:]}


def _scan(group: dict):
    try:
        obs = sk.run_scan(group)
        return sk.judge_scan(group, group["preds"], obs)
    except Exception as e:  # noqa: BLE001
        import traceback

        return {"what": "exception", "exc": type(e).__name__, "message": str(e)[:300],
                "trace": traceback.format_exc()[-800:]}


def scan_groups(preds: list[dict]) -> list[dict]:
    """Rows of a scan = the cases the specification marks entry = "scan" (pool1 / const1 at the scan's fixed tolerance
    1e-6; concentrations of order 1 and of order 1e-5): one scan per (norm mode, scale, initial value) and one more
    per (norm mode, scale) that scans the initial value itself."""
    rows = [p for p in preds if p["case"]["entry"] == "scan" and not p["fragile"]]
    groups = []
    for rel in (False, True):
        for u in sorted({p["case"]["u"] for p in rows}):
            sel = [p for p in rows if p["case"]["rel"] == rel and p["case"]["u"] == u]
            by_y0: dict = {}
            for p in sel:
                by_y0.setdefault(sk.y0_of(p["case"])[0], []).append(p)
            for y0, ps in sorted(by_y0.items()):
                if len(ps) >= 2:
                    groups.append({"rel": rel, "scan_y0": False, "preds": ps, "cases": [p["case"] for p in ps]})
            if sel:
                groups.append({"rel": rel, "scan_y0": True, "preds": sel, "cases": [p["case"] for p in sel]})
    return groups


def run(ctx: Ctx) -> int:
    rep = Report(ctx)
    rep.rule = ("one case = (network, m, y*, y0, tolerance, norm mode, default/user y0) of the SteadyLoop grid or drawn "
                "at random and decided by TLC; non-trivial = the exact loop needs a number of steps other than 2 "
                "(or never declares); distinct by case")
    rep.assumptions = [
        "exact model: every excited mode of a relaxing network decays with k * 100 = m ln 2 (chain networks start on "
        "the slow eigenvector); the rendering is cross-checked per case against expm(100 J)",
        "relaxation time bounded: m >= 1 (half-life <= one loop step); tolerances 1/128 .. 2^-20",
        "relative criterion on accumulating networks is claimed for tolerances < 1 / MaxSteps only (TLC exhibits the "
        "counterexample above that); cases within a factor 10 of that threshold are fragile: excluded, counted",
        "integrator accuracy (scipy LSODA, rtol 1e-6 in the steady-state path) is outside the specification: "
        "allowed deviation = 1.01 x proven bound + 1e-6 max(1, |y*|)",
        "the time stamp of the returned point is not compared (advisory: counted when outside the spec's window)",
    ]
    # ---- mc: teeth + limit of the criterion + the grid, concurrently -------------------------------------
    jobs = [("alias", "SteadyLoop_alias.cfg", "SuccessIsSteady"),
            ("alias_accum", "SteadyLoop_alias_accum.cfg", "AccumFails"),
            ("looserel", "SteadyLoop_looserel.cfg", "AccumFails"),
            ("slowaccum", "SteadyLoop_slowaccum.cfg", "AccumFails"),
            ("forced", "SteadyLoop_forced.cfg", "AccumFails"),
            ("earlier", "SteadyLoop_earlier.cfg", "Plumbing"),
            ("nan_zero", "SteadyLoop_nan_zero.cfg", "SuccessIsSteady"),
            ("nan_grow", "SteadyLoop_nan_grow.cfg", "AccumFails"),
            ("stale_flux", "SteadyLoop_stale_flux.cfg", "FluxesBalance"),
            ("scan_abs", "SteadyLoop_scan_abs.cfg", "SuccessIsSteady"),
            ("grid", "SteadyLoop_quick.cfg" if ctx.quick else "SteadyLoop_full.cfg", None)]

    def _job(j):
        return ctx.tlc("SteadyLoop.tla", j[1], tag=j[0], expect_violation=j[2] is not None,
                       workers=2 if j[2] is not None else 8, jvm=["-Xmx2g" if j[2] is not None else "-Xmx6g"])

    with ThreadPoolExecutor(max_workers=8) as ex:
        outs = list(ex.map(_job, jobs))
    for (tag, cfg, inv), r in zip(jobs, outs):
        if inv is not None:
            if r.violated != inv:
                raise MachineryError(f"{cfg} should violate {inv} (TLC says {r.violated}): the specification has lost "
                                     "its teeth")
            rep.add_tlc(r, f"expect_violation {cfg}: {inv}")
    rep.notes["expected_counterexamples"] = {
        "alias loop, relaxing networks": "SuccessIsSteady violated (declared at step 2 far from y*)",
        "alias loop, accumulating networks": "AccumFails violated (x' = c reported as steady at step 2)",
        "copy loop, relative norm, tol > 1/MaxSteps, accumulation": "AccumFails violated (limit of the criterion)",
        "copy loop, absolute norm, accumulation per step < tol": "AccumFails violated (limit of the criterion)",
        "undefined norm counts as converged, identically-zero variable, relative norm": "SuccessIsSteady violated",
        "undefined norm counts as converged, growth overflowing within the budget": "AccumFails violated",
        "fluxes of a later steady-state point evaluated under an earlier segment's parameters": "FluxesBalance violated",
        "scan worker that drops rel_norm (always the absolute norm), tiny pools, relative norm asked": "SuccessIsSteady violated",
        "copy loop, periodic forcing whose period divides the sampling interval": "AccumFails violated (limit of the "
                                                                                  "criterion; known finding on the code)",
        "reporter that hands back earlier results after a failed search": "Plumbing violated (history: simulate, then "
                                                                          "a failed steady-state search)"}
    grid = outs[-1]
    rep.add_tlc(grid, "SteadyLoop copy loop over the grid: SuccessIsSteady, AccumFails, RelaxConverges, Plumbing, GridIsOK")
    rep.exhaustive = True
    preds = predictions(grid.payloads)
    n_min = 300 if ctx.quick else 2000
    for need, what in ((lambda p: p["undefined"], "undefined norm (identically-zero variable, relative norm)"),
                       (lambda p: p["case"]["kind"] == "grow" and p["case"]["m"] >= 2, "growth overflowing in the budget"),
                       (lambda p: p["case"]["prior"] == "ssupd", "steady state / parameter update / steady state")):
        if not any(need(p) for p in preds):
            raise MachineryError(f"no case of the family: {what}")
    if not any(p["case"]["prior"] == "sim" and p["outcome"] == "fail" for p in preds):
        raise MachineryError("no case with a history (earlier successful simulate) and a failing steady-state search")
    if len(preds) < n_min:
        raise MachineryError(f"only {len(preds)} cases emitted")

    # ---- code -> spec (oracle mode): random cases decided by TLC -------------------------------------------
    rnd = random.Random(ctx.seed)
    n_rand = 300 if ctx.quick else 5000
    seen = {p["key"] for p in preds}
    cases = []
    while len(cases) < n_rand:
        c = sk.random_case(rnd)
        k = sk.case_key(c)
        if k not in seen:
            seen.add(k)
            cases.append(c)
    cf = ctx.work / "cases.json"
    cf.write_text(json.dumps(cases))
    orc = ctx.tlc("SteadyLoop.tla", "SteadyLoop_oracle.cfg", tag="oracle", env={"CASE_FILE": str(cf)}, workers=8)
    rep.add_tlc(orc, "SteadyLoop oracle mode: harness-drawn cases decided by the loop specification (same invariants)")
    rpreds = predictions(orc.payloads)
    if len(rpreds) != len(cases):
        raise MachineryError(f"oracle decided {len(rpreds)} of {len(cases)} cases")

    # ---- real runs ---------------------------------------------------------------------------------------------
    everything = [dict(p, origin="grid") for p in preds] + [dict(p, origin="random") for p in rpreds] \
        + sk.forced_cases()
    live = [p for p in everything if not p["fragile"] and p["case"]["entry"] == "simulator"]
    rep.notes["fragile_excluded"] = len(everything) - len(live)
    results = pmap(_check, live, procs=8, chunk=16)
    outside = 0
    hist: dict = {}
    for p, d in zip(live, results):
        c = p["case"]
        rep.evaluations += 1
        if p["origin"] == "grid":
            rep.replayed += 1
        if not (p["outcome"] == "ok" and p["slo"] <= 2 <= p["shi"]):
            rep.distinct.add(p["key"])
        hist[f"{c['net']}/{p['outcome']}"] = hist.get(f"{c['net']}/{p['outcome']}", 0) + 1
        if d.get("ok"):
            if p["origin"] == "random":
                rep.traces += 1
            if d["kind"] == "value" and not (p["slo"] * sk.STEP <= d["t"] <= p["shi"] * sk.STEP):
                outside += 1
            continue
        if d.get("what") == "machinery":
            raise MachineryError(d["message"])
        if d.get("what") == "exception":
            raise MachineryError(f"harness failed on {p['key']}: {d}")
        rep.mismatch({"pred": {k: v for k, v in p.items()}, "kind": "case"}, d, sk.classify(p, d))
    rep.notes["cases_by_network_and_outcome"] = hist
    rep.notes["advisory_time_stamps_outside_spec_window"] = outside
    if not any(k.endswith("/fail") for k in hist) or not any(k.endswith("/ok") for k in hist):
        raise MachineryError(f"both outcomes must be exercised: {hist}")

    # ---- scan rows ------------------------------------------------------------------------------------------------
    groups = scan_groups(preds)
    if len(groups) < 3:
        raise MachineryError("too few scan groups")
    sres = pmap(_scan, groups, procs=8, chunk=1)
    rows = 0
    for g, d in zip(groups, sres):
        rep.replayed += 1
        rep.evaluations += 1
        rows += len(g["cases"])
        if any(p["outcome"] == "fail" for p in g["preds"]):
            rep.distinct.add(("scan", g["rel"], g["scan_y0"], len(g["cases"]), sk.y0_of(g["cases"][0])[0]))
        if d is None:
            continue
        if d.get("what") == "exception":
            raise MachineryError(f"scan harness failed: {d}")
        p_row = g["preds"][d["row"]] if "row" in d else g["preds"][0]
        rep.mismatch({"group": {k: g[k] for k in ("rel", "scan_y0", "preds")}, "kind": "scan"}, d,
                     "two-step-exit" if _scan_two_step(g, d) else None)
    rep.notes["scan_groups"] = len(groups)
    rep.notes["scan_rows"] = rows
    for p in live[:: max(1, len(live) // 4)][:4]:
        rep.sample({"case": p["case"], "predicted": p["outcome"], "declaring_steps": [p["slo"], p["shi"]]})

    # binding demonstration: a corrupted expectation must be reported
    good = next(p for p in live if p["outcome"] == "ok" and p["slo"] > 3)
    forged = json.loads(json.dumps(good))
    forged["case"]["ystar"][0] += 1
    d = sk.judge(forged, sk.run_case(good["case"]))     # the real run of the TRUE case against the forged prediction
    flipped = dict(good, outcome="fail")
    d2 = sk.judge(flipped, sk.run_case(flipped["case"]))
    if d is None or d2 is None:
        raise MachineryError("a corrupted expectation (steady state + 1 / outcome flipped) was not detected")
    rep.notes["binding_demonstration"] = "y* + 1 in one prediction and one flipped outcome are both reported as disagreement"
    return rep.finish()


def _scan_two_step(g: dict, d: dict) -> bool:
    """Shape of the pinned-commit defect on a scan row: the row's exact loop does not declare at step 2 and the
    observed value is the state after exactly two steps."""
    if "row" not in d:
        return False
    p = g["preds"][d["row"]]
    c = p["case"]
    if p["outcome"] == "ok" and p["slo"] <= 2 <= p["shi"]:
        return False
    x = d.get("x", d.get("observed"))
    if x is None or x != x:
        return False
    want = sk.after_two_steps(c)[0]
    return abs(x - want) <= 1e-4 * max(1.0, abs(want))


def replay(ctx: Ctx, doc: dict) -> int:
    scn = doc["scenario"]
    if scn["kind"] == "scan":
        g = dict(scn["group"])
        g["cases"] = [p["case"] for p in g["preds"]]
        obs = sk.run_scan(g)
        d = sk.judge_scan(g, g["preds"], obs)
        print(json.dumps({"observed": obs, "disagreement": d}, indent=1, default=str))
    else:
        p = scn["pred"]
        obs = sk.run_case(p["case"])
        d = sk.judge(p, obs)
        print(json.dumps({"prediction": p, "observed": obs, "disagreement": d}, indent=1, default=str))
    if d is not None:
        print("VIOLATION property=C15 replay=(given)")
        return 1
    print("conforms")
    return 0
