"""C02 -- dependency resolution is order-independent; bad graphs are rejected.

spec      : spec/DepGraph.tla (contract), spec/DepSort.tla (algorithm as actions + scenario emission),
            spec/DepSortOracle.tla (code -> spec)
TLC (mc)  : every graph x every declaration order in the bound: the queue algorithm refines the
            contract (ok => complete + topological; errors exactly when the contract says so),
            the n^2 cap never cuts off a resolvable graph, termination (liveness, small universe)
spec->code: every emitted (graph, order) is built with the real Model in that order, components
            becoming derived quantities / reactions / assignment-defined parameters or variables / a
            two-output surrogate; get_args, get_initial_conditions, get_right_hand_side under an alarm
code->spec: random 5-10-component graphs run through the real Model, verdict by TLC (DepSortOracle)
"""

from __future__ import annotations

import itertools
import json
import random
import re

from ..core import Ctx, Report, alarm, pmap
from ..tlc import MachineryError, fn_to_dict

KINDS = ["derived", "reaction", "ia_par", "ia_var"]


def plus(rank):
    def f(*a):
        return rank + sum(a)

    f.__name__ = f"plus{rank}"
    return f


PLUS1 = plus(1)


def sur_fn(ranks):
    def f(*a):
        s = sum(a)
        return tuple(r + s for r in ranks)

    return f


def build(scn: dict, pre=None):
    """Build the real model for a scenario: comps declared in scn['ord'] order (pre: declared before them).

    scn: {req: {k: [names]}, ord: [k...], prov: {k: [names]}, kinds: {k: kind}, rank: {n: int}, benv: {n: value}}
    """
    from mxlpy import Model
    from mxlpy.surrogates.abstract import MockSurrogate
    from mxlpy.types import InitialAssignment

    m = Model()
    m.add_variable("x0", 1.0)
    import random as _random

    from ..modelkit import typed

    if pre is not None:
        pre(m)
    trnd = _random.Random(f"types/{scn.get('idx', 0)}/{sorted(scn['benv'])}")
    for n, v in scn["benv"].items():
        m.add_parameter(n, typed(v, trnd))     # the same number as a Python float / int or a numpy scalar
    for k in scn["ord"]:
        args = sorted(scn["req"][k])
        kind = scn["kind"][k]
        provs = scn["prov"][k]
        if kind == "surrogate":
            m.add_surrogate(
                k,
                MockSurrogate(fn=sur_fn([scn["rank"][n] for n in provs]), args=args, outputs=list(provs),
                              stoichiometries={provs[0]: {"x0": 1.0}}),
            )
        else:
            f = plus(scn["rank"][k])
            if kind == "derived":
                m.add_derived(k, f, args=args)
            elif kind == "reaction":
                m.add_reaction(k, f, args=args, stoichiometry={"x0": -1.0})
            elif kind == "ia_par":
                m.add_parameter(k, InitialAssignment(fn=f, args=args))
            elif kind == "ia_var":
                m.add_variable(k, InitialAssignment(fn=f, args=args))
            else:  # pragma: no cover
                raise MachineryError(f"unknown kind {kind}")
    return m


_QUOTED = re.compile(r"'([^']*)'")


def observe(scn: dict) -> dict:
    """Run the three entry points; classify what each did."""
    from mxlpy.model import CircularDependencyError, MissingDependenciesError

    obs = {}
    for ep in ("get_args", "get_initial_conditions", "get_right_hand_side"):
        try:
            with alarm(30):
                m = build(scn)
                r = getattr(m, ep)()
            o = {"kind": "ok"}
            if ep == "get_args":
                o["values"] = {k: float(v) for k, v in r.to_dict().items()}
            elif ep == "get_initial_conditions":
                o["values"] = {k: float(v) for k, v in r.items()}
        except MissingDependenciesError as e:
            msg = str(e)
            per = {}
            for line in msg.splitlines():
                mm = re.match(r"\s*(\w+): \[(.*)\]\s*$", line)
                if mm:
                    per[mm.group(1)] = sorted(_QUOTED.findall(mm.group(2)))
            o = {"kind": "missing", "missing": per, "message": msg}
        except CircularDependencyError as e:
            o = {"kind": "circular", "message": str(e)[:300]}
        except TimeoutError:
            o = {"kind": "timeout"}
        except Exception as e:  # noqa: BLE001
            o = {"kind": "other", "exc": type(e).__name__, "message": str(e)[:200]}
        obs[ep] = o
    return obs


def judge_given(scn: dict) -> dict | None:
    """A component rendered as an assignment-defined VARIABLE is supplied by the caller (value 100): every
    component naming it must see the supplied value (only when all other components are recomputed ones)."""
    iav = [k for k, kd in scn["kind"].items() if kd == "ia_var"]
    if scn["kinds"] != ["ok"] or len(iav) != 1 or any(kd in ("ia_par",) for kd in scn["kind"].values()):
        return None
    k = iav[0]
    exp = scn.get("given", {}).get(k)
    if not exp:
        return None
    try:
        with alarm(30):
            m = build(scn)
            got = m.get_args(variables={"x0": 1.0, k: 100.0}).to_dict()
    except Exception as e:  # noqa: BLE001
        return {"entry_point": "get_args(variables=...)", "supplied": k, "observed": f"{type(e).__name__}: {str(e)[:100]}"}
    for n, v in exp.items():
        if n in got and abs(got[n] - v) > 1e-9:
            return {"entry_point": "get_args(variables=...)", "supplied": k, "name": n, "expected": v, "observed": got[n]}
    return None


def judge(scn: dict, obs: dict) -> dict | None:
    """Compare with the contract's prediction carried by the scenario. None = conforms."""
    exp_kinds = scn["kinds"]
    for ep, o in obs.items():
        if o["kind"] not in exp_kinds:
            return {"entry_point": ep, "expected": exp_kinds, "observed": o}
        if o["kind"] == "ok" and "values" in o:
            for n, v in scn["values"].items():
                if n in o["values"] and abs(o["values"][n] - v) > 1e-9:
                    return {"entry_point": ep, "name": n, "expected": v, "observed": o["values"][n]}
                if ep == "get_args" and n not in o["values"]:
                    return {"entry_point": ep, "name": n, "expected": v, "observed": "absent"}
        if o["kind"] == "missing":
            exp = {k: sorted(v) for k, v in scn["missing"].items()}
            if o["missing"] != exp:
                return {"entry_point": ep, "expected_missing": exp, "observed": o}
    return None


def classify(scn: dict, detail: dict) -> str | None:
    """Finding key from the *shape* of the failing scenario (DESIGN appendix D)."""
    if "circular" in scn["kinds"] and detail.get("observed", {}).get("kind") == "other":
        # saturate; exactly one unresolved component which names one of its own outputs
        avail = set(scn["benv"]) | {"time"}
        for names in scn.get("missing", {}).values():
            avail |= set(names)
        comps = set(scn["ord"])
        changed = True
        while changed:
            changed = False
            for k in list(comps):
                if set(scn["req"][k]) <= avail:
                    avail |= set(scn["prov"][k])
                    comps.discard(k)
                    changed = True
        if len(comps) == 1:
            (k,) = comps
            if set(scn["req"][k]) & set(scn["prov"][k]):
                return "self-dependency"
    return None


def judge_coef(scn: dict) -> dict | None:
    """DepGraph.tla GCoefMissing: the names a reaction's COMPUTED stoichiometric coefficient takes count as names the
    reaction requires for the completeness clause (not for the order: coefficients are evaluated after everything).
    A complete acyclic graph gets one more reaction `zc` (declared first or last) whose coefficient names either a
    name of the graph -- everything stays as it was -- or a name nothing provides: every entry point must then
    answer with the missing-dependency error listing exactly {zc: [that name]}, never with numbers."""
    import zlib

    from mxlpy.model import MissingDependenciesError
    from mxlpy.types import Derived

    if scn["kinds"] != ["ok"]:
        return None
    h = zlib.crc32(json.dumps([scn["req"], scn["ord"], scn["kind"]], sort_keys=True).encode())
    if h % 4:
        return None
    names = sorted(set(scn["benv"]) | {n for k in scn["ord"] for n in scn["prov"][k]} | {"time", "x0"})
    ghost = (h >> 2) % 2 == 0
    name = "nx" if ghost else names[(h >> 4) % len(names)]
    first = (h >> 3) % 2 == 0

    def zc(m):
        m.add_reaction("zc", PLUS1, args=[], stoichiometry={"x0": Derived(fn=PLUS1, args=[name])})

    for ep in ("get_args", "get_initial_conditions", "get_right_hand_side", "get_fluxes", "get_stoichiometries"):
        try:
            with alarm(30):
                m = build(scn, pre=zc if first else None)
                if not first:
                    zc(m)
                r = getattr(m, ep)()
            if ghost:
                return {"entry_point": ep, "coefficient_names": name, "declared": "first" if first else "last",
                        "expected": "missing-dependency error {zc: [nx]}", "observed": "numbers returned"}
            if ep == "get_args":
                got = {k: float(v) for k, v in r.to_dict().items()}
                for n, v in scn["values"].items():
                    if n not in got or abs(got[n] - v) > 1e-9:
                        return {"entry_point": ep, "coefficient_names": name, "name": n, "expected": v,
                                "observed": got.get(n, "absent")}
        except MissingDependenciesError as e:
            per = {}
            for line in str(e).splitlines():
                mm = re.match(r"\s*(\w+): \[(.*)\]\s*$", line)
                if mm:
                    per[mm.group(1)] = sorted(_QUOTED.findall(mm.group(2)))
            if not ghost or per != {"zc": ["nx"]}:
                return {"entry_point": ep, "coefficient_names": name, "declared": "first" if first else "last",
                        "expected": "{zc: [nx]}" if ghost else "numbers", "observed_missing": per}
        except Exception as e:  # noqa: BLE001
            return {"entry_point": ep, "coefficient_names": name, "declared": "first" if first else "last",
                    "expected": "missing-dependency error {zc: [nx]}" if ghost else "numbers",
                    "observed": f"{type(e).__name__}: {str(e)[:100]}"}
    return None


def _work(scn: dict):
    obs = observe(scn)
    bad = judge(scn, obs) or judge_given(scn) or judge_coef(scn)
    return bad


def scenarios_from_payloads(payloads: list, comps_with_sur: bool, seed: int, all_kinds: bool) -> list[dict]:
    rnd = random.Random(seed)
    out = []
    combos = list(itertools.product(KINDS, repeat=4))
    for idx, p in enumerate(payloads):
        req = fn_to_dict(p["req"])
        comps = sorted(req)
        prov = {k: (["s1", "s2"] if k == "s" else [k]) for k in comps}
        rank = {n: (2 if n == "s2" else 1) for k in comps for n in prov[k]}
        base = dict(req=req, ord=p["ord"], prov=prov, rank=rank, benv={"p": 10},
                    given={k: fn_to_dict(v) for k, v in fn_to_dict(p.get("given", {})).items()},
                    kinds=p["kinds"], missing=fn_to_dict(p["missing"]), values=fn_to_dict(p["values"]))
        if all_kinds:
            choices = combos
        else:
            # the first combination (all derived) realises every queue order; one more is drawn at random
            choices = [combos[0], combos[rnd.randrange(1, len(combos))]]
            # a third rendering: one component is a variable defined by an initial assignment, the rest derived;
            # it is also evaluated at a supplied state (see judge: 'given')
            j = rnd.randrange(3)
            choices.append(tuple("ia_var" if i == j else "derived" for i in range(4)))
        for c in choices:
            kind = {}
            it_c = iter(c)
            for k in comps:
                kind[k] = "surrogate" if k == "s" else next(it_c)
            out.append({**base, "kind": kind})
    return out


def random_graph(rnd: random.Random, cid: int) -> dict:
    """A larger graph for the code -> spec direction."""
    n = rnd.randint(5, 10)
    comps = [f"c{j}" for j in range(n)]
    prov, kind, rank = {}, {}, {}
    for k in comps:
        if rnd.random() < 0.25:
            outs = [f"{k}o{j}" for j in range(rnd.randint(1, 3))]
            prov[k] = outs
            kind[k] = "surrogate"
            for j, o in enumerate(outs):
                rank[o] = j + 1
        else:
            prov[k] = [k]
            kind[k] = rnd.choice(KINDS)
            rank[k] = rnd.randint(1, 3)
    provided = [o for k in comps for o in prov[k]]
    benv = {"p": 10, "q": 7}
    style = rnd.choice(["dag", "dag", "dag", "cycle", "self", "missing", "mixed"])
    req = {}
    pos = {k: i for i, k in enumerate(comps)}
    for k in comps:
        lower = [o for j in comps if pos[j] < pos[k] for o in prov[j]]
        pool = lower + list(benv)
        r = set(rnd.sample(pool, min(len(pool), rnd.randint(0, 3))))
        req[k] = r
    if style in ("cycle", "mixed"):
        ln = rnd.randint(2, min(5, n))
        cyc = rnd.sample(comps, ln)
        for a, b in zip(cyc, cyc[1:] + cyc[:1]):
            req[a].add(rnd.choice(prov[b]))
    if style in ("self", "mixed") and rnd.random() < 0.8:
        k = rnd.choice(comps)
        req[k].add(rnd.choice(prov[k]))
    if style in ("missing", "mixed"):
        for k in rnd.sample(comps, rnd.randint(1, 2)):
            req[k].add(rnd.choice(["ghost1", "ghost2"]))
    order = comps[:]
    rnd.shuffle(order)
    return dict(id=cid, comps=comps, ord=order, prov=prov, kind=kind, rank=rank, benv=benv,
                req={k: sorted(v) for k, v in req.items()}, provided=provided)


def _observe_random(g: dict) -> dict:
    obs = observe({**g})
    # fold the three entry points: they must agree on the class; report the first non-ok or get_args
    kinds = {o["kind"] for o in obs.values()}
    if len(kinds) != 1:
        return {"kind": "inconsistent", "detail": obs}
    o = obs["get_args"]
    res = {"kind": o["kind"], "missing": {}, "values": {}}
    if o["kind"] == "ok":
        vals = dict(o["values"])
        vals.update(obs["get_initial_conditions"]["values"])
        if any(abs(v - round(v)) > 1e-9 for v in vals.values()):
            return {"kind": "other", "detail": "non-integer"}
        res["values"] = {n: int(round(vals[n])) for n in list(g["provided"]) + list(g["benv"]) if n in vals}
        for n in list(g["provided"]):
            if n not in vals:
                res["values"][n] = -1
    elif o["kind"] == "missing":
        res["missing"] = o["missing"]
    elif o["kind"] not in ("circular",):
        res["detail"] = o
    return res


def run(ctx: Ctx) -> int:
    rep = Report(ctx)
    rep.rule = ("one case = (dependency graph, declaration order, assignment of component kinds); non-trivial = "
                "at least one component requires something; distinct by (graph, order, kinds)")
    rep.assumptions = ["the value function rank + sum(args) makes evaluation order observable",
                       "kinds are assigned by the harness: the contract does not depend on them"]
    # ---- mc + gen ---------------------------------------------------------------------------
    live = ctx.tlc("DepSort.tla", "DepSort_live.cfg")
    rep.add_tlc(live, "termination (liveness) + refinement, comps {a,s}, all graphs, all orders")
    pinned = ctx.tlc("DepSort.tla", "DepSort_pinned.cfg", expect_violation=True)
    if pinned.violated != "OkIsRight":
        raise MachineryError("the pinned-commit algorithm instance should violate OkIsRight (self-dependency); "
                             "the specification has lost its teeth")
    rep.notes["pinned_commit_algorithm_counterexample"] = "TLC: OkIsRight violated for Shortcut=append (self-dependency)"
    cfgs = [("DepSort_abc.cfg", False), ("DepSort_quick.cfg", True)]
    if not ctx.quick:
        cfgs = [("DepSort_abc_full.cfg", False), ("DepSort_full.cfg", True), ("DepSort_4.cfg", True)]
    scns = []
    for cfg, has_s in cfgs:
        res = ctx.tlc("DepSort.tla", cfg, coverage=False)
        rep.add_tlc(res, f"refinement + emission {cfg}")
        if not res.payloads:
            raise MachineryError(f"no scenarios emitted by {cfg}")
        if not all(p["algo"] in p["kinds"] for p in res.payloads):
            raise MachineryError("algorithm model disagrees with the contract")
        scns += scenarios_from_payloads(res.payloads, has_s, ctx.seed, all_kinds=False)
    rep.exhaustive = True
    # ---- spec -> code -----------------------------------------------------------------------
    # binding self-test: tampered predictions must be reported
    import copy

    n_t = 0
    for s in [x for x in scns if x["kinds"] == ["ok"] and x["values"]][:10]:
        t = copy.deepcopy(s)
        k = sorted(t["values"])[0]
        t["values"][k] += 1
        n_t += 1
        if _work(t) is None:
            raise MachineryError("binding self-test failed: a tampered value was not reported")
    for s in [x for x in scns if x["kinds"] == ["circular"]][:5]:
        t = copy.deepcopy(s)
        t["kinds"] = ["ok"]
        n_t += 1
        if _work(t) is None:
            raise MachineryError("binding self-test failed: a tampered outcome class was not reported")
    rep.notes["tampered_predictions_rejected"] = n_t
    bads = pmap(_work, scns, chunk=256)
    for scn, bad in zip(scns, bads):
        rep.replayed += 1
        rep.evaluations += 1
        if any(scn["req"][k] for k in scn["req"]):
            rep.distinct.add(json.dumps([scn["req"], scn["ord"], scn["kind"]], sort_keys=True))
        if bad is not None:
            rep.mismatch(scn, bad, classify(scn, bad))
    for s in scns[:: max(1, len(scns) // 3)][:3]:
        rep.sample({"req": s["req"], "ord": s["ord"], "kind": s["kind"], "expected": s["kinds"], "values": s["values"]})
    # ---- code -> spec -----------------------------------------------------------------------
    rnd = random.Random(ctx.seed)
    n_rand = 1500 if ctx.quick else 20000
    graphs = [random_graph(rnd, j) for j in range(n_rand)]
    observed = pmap(_observe_random, graphs, chunk=64)
    cases = []
    for g, o in zip(graphs, observed):
        cases.append({"id": g["id"], "comps": g["comps"], "prov": g["prov"], "req": g["req"], "rank": g["rank"],
                      "benv": g["benv"],
                      "obs": {"kind": o["kind"], "missing": o.get("missing", {}), "values": o.get("values", {})}})
    verdicts = {}
    for lo in range(0, len(cases), 5000):
        cf = ctx.work / f"cases_{lo}.json"
        cf.write_text(json.dumps(cases[lo:lo + 5000]))
        res = ctx.tlc("DepSortOracle.tla", "DepSortOracle.cfg", tag=f"oracle{lo}", env={"CASE_FILE": str(cf)}, workers=1)
        rep.add_tlc(res, "oracle: implementation answers on random larger graphs judged by the contract")
        for p in res.payloads:
            verdicts[p["id"]] = p
    if len(verdicts) != len(cases):
        raise MachineryError(f"oracle judged {len(verdicts)} of {len(cases)} cases")
    exp_hist = {}
    for g, o in zip(graphs, observed):
        v = verdicts[g["id"]]
        exp_hist["/".join(v["expected"])] = exp_hist.get("/".join(v["expected"]), 0) + 1
        rep.evaluations += 1
        rep.distinct.add(("rand", g["id"]))
        if v["verdict"] == "accept":
            rep.traces += 1
        else:
            scn = {**g, "kinds": v["expected"], "missing": {}, "values": {}}
            detail = {"oracle_verdict": v["verdict"], "expected": v["expected"], "observed": o}
            rep.mismatch(scn, detail, classify(scn, detail))
    rep.notes["random_graph_expected_outcomes"] = exp_hist
    if len(exp_hist) < 3:
        raise MachineryError(f"random driver is not exercising all outcome classes: {exp_hist}")
    return rep.finish()


def replay(ctx: Ctx, doc: dict) -> int:
    scn = doc["scenario"]
    obs = observe(scn)
    print(json.dumps({"scenario": scn, "observed": obs}, indent=1, default=str))
    if "oracle_verdict" in doc.get("detail", {}):
        print("(code->spec case: re-run the check to have TLC judge it again)")
        o = _observe_random(scn)
        bad = o["kind"] not in scn["kinds"]
    else:
        bad = judge(scn, obs) is not None
    if bad:
        print(f"VIOLATION property=C02 replay=(given)")
        return 1
    print("conforms")
    return 0
