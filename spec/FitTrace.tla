----------------------------- MODULE FitTrace -----------------------------
(***************************************************************************)
(* C20, code -> spec: recorded executions of fit.steady_state /            *)
(* fit.time_course / fit.protocol_time_course with LocalScipyMinimizer are *)
(* validated, in batches, against the clauses of FitCore.tla.              *)
(*                                                                         *)
(* A trace is [id, copy, generated, p0in, ev], ev a sequence of events     *)
(* (parameter values are listed in the order of the caller's p0 keys,      *)
(* which need not be alphabetical)                                         *)
(*   entry(content)   caller's model content before the call               *)
(*   start(ps,lh,lu)  the harness's own evaluation at the starting point   *)
(*   eval(ps,lh,lu)   every call of the residual function during the fit   *)
(*                    (recorded through the public residual_fn= argument)  *)
(*   report(ps,lh,lu) | fail      what the fit returned                    *)
(*   reeval(ps,lh,lu) the harness's re-evaluation at the reported values   *)
(*   exit(content)    caller's model content after the call                *)
(* How many evaluations a minimiser makes, and where, is left open.        *)
(* One ACCEPT line per trace whose every event is enabled; for the others  *)
(* the longest matched prefix is the largest l printed.                    *)
(***************************************************************************)
EXTENDS FitCore, TLC, Json, IOUtils

Traces == JsonDeserialize(IOEnv.TRACE_FILE)

VARIABLES tid, l, st
tvars == <<tid, l, st>>

None == [ps |-> <<>>, lh |-> "", lu |-> 0]
St0 == [phase |-> "init", entry |-> <<>>, start |-> None, evals |-> {}, rep |-> None, byeval |-> FALSE]

Init == tid \in 1..Len(Traces) /\ l = 1 /\ st = St0

Rec(e) == [ps |-> e.ps, lh |-> e.lh, lu |-> e.lu]

Eff(tr, e, s) ==      \* [ok, st]
    CASE e.k = "entry"  -> [ok |-> s.phase = "init", st |-> [s EXCEPT !.phase = "entered", !.entry = e.content]]
      [] e.k = "start"  -> [ok |-> s.phase = "entered", st |-> [s EXCEPT !.phase = "run", !.start = Rec(e)]]
      \* (lf: what the loss function returned inside this call -- the residual IS that value)
      \* (first: the minimiser starts AT the caller's p0 -- name by name -- whenever p0 lies inside the bounds)
      [] e.k = "eval"   -> [ok |-> /\ s.phase = "run" /\ Functional(Rec(e), s.evals \cup {s.start}) /\ (e.lf = "" \/ e.lf = e.lh)
                                   /\ ((s.evals = {} /\ tr.p0in) => e.ps = s.start.ps),
                            st |-> [s EXCEPT !.evals = @ \cup {Rec(e)}]]
      [] e.k = "report" -> [ok |-> /\ s.phase = "run"
                                   /\ NotContradicted(Rec(e), s.evals)
                                   /\ (tr.generated => NoWorse(Rec(e), s.start)),
                            st |-> [s EXCEPT !.phase = "reported", !.byeval = HonestByEval(Rec(e), s.evals), !.rep = Rec(e)]]
      [] e.k = "fail"   -> [ok |-> s.phase = "run", st |-> [s EXCEPT !.phase = "checked"]]
      \* the reported loss equals the loss recomputed at the reported parameters (always demanded);
      \* a report that matched no recorded evaluation is honest by this re-evaluation alone
      [] e.k = "reeval" -> [ok |-> s.phase = "reported" /\ HonestByReeval(s.rep, Rec(e)),
                            st |-> [s EXCEPT !.phase = "checked"]]
      [] e.k = "exit"   -> [ok |-> s.phase = "checked" /\ Spared(tr.copy, s.entry, e.content),
                            st |-> [s EXCEPT !.phase = "exited"]]

Step == /\ l <= Len(Traces[tid].ev)
        /\ LET r == Eff(Traces[tid], Traces[tid].ev[l], st)
           IN  r.ok /\ st' = r.st
        /\ l' = l + 1
        /\ UNCHANGED tid
Next == Step

Accepted == l > Len(Traces[tid].ev) /\ st.phase = "exited"
Verdict == PrintT("@J@" \o ToJson([id |-> Traces[tid].id, l |-> l, accept |-> Accepted,
                                     byeval |-> st.byeval]) \o "@E@")
=============================================================================
